//go:build verif

package apply

import (
	"encoding/json"
	"sync/atomic"
	"testing"

	sim "metacontroller/pkg/verifsim"
)

// Coverage-guided fuzzing of Merge (Go's native engine; the driver builds this binary with
// -fuzz and runs a fixed number of executions). Inputs are three JSON documents; the same oracle
// as the enumerated universe judges every decodable triple. Violations go to the verdict stream,
// the fuzz function itself never fails, so the engine keeps exploring.

var fuzzSink = &c05Sink{reported: map[string]int{}}
var fuzzStats = &c05Stats{}
var fuzzDecoded int64

func FuzzVerif_C05_Merge(f *testing.F) {
	V := universe()
	for i := 0; i < len(V); i += 7 {
		a, _ := json.Marshal(wrap(V[i]))
		b, _ := json.Marshal(wrap(V[(i*3+1)%len(V)]))
		c, _ := json.Marshal(wrap(V[(i*5+2)%len(V)]))
		f.Add(a, b, c)
	}
	f.Add([]byte(`{"a":[{"name":"A","v":1}]}`), []byte(`null`), []byte(`{"a":[{"name":"A","v":2},{"name":"B"}]}`))
	sim.R().Begin("C05", "c05-fuzz")
	f.Fuzz(func(t *testing.T, a, b, c []byte) {
		var obs, last, des map[string]interface{}
		if json.Unmarshal(a, &obs) != nil || obs == nil {
			return
		}
		if err := json.Unmarshal(b, &last); err != nil {
			return
		}
		if json.Unmarshal(c, &des) != nil || des == nil {
			return
		}
		obs, des = normNumbers(obs).(map[string]interface{}), normNumbers(des).(map[string]interface{})
		if last != nil {
			last = normNumbers(last).(map[string]interface{})
		}
		if hasDuplicateKeys(obs) || hasDuplicateKeys(last) || hasDuplicateKeys(des) {
			return
		}
		n := atomic.AddInt64(&fuzzDecoded, 1)
		checkTriple(fuzzSink, fuzzStats, obs, last, des)
		if n%20000 == 0 {
			sim.R().Counter("C05", "fuzz_triples_decoded_and_judged", 20000)
			sim.R().Case("C05", "c05-fuzz-batch", true, "fuzz/"+sim.Hash([]interface{}{string(a), string(b), string(c)}), map[string]interface{}{"observed": string(a), "lastApplied": string(b), "desired": string(c)})
		}
	})
}
