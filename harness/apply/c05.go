//go:build verif

package apply

import (
	"encoding/json"
	"fmt"
	"math/rand"
	"reflect"
	"runtime"
	"sort"
	"strings"
	"sync"
	"sync/atomic"
	"testing"

	k8sruntime "k8s.io/apimachinery/pkg/runtime"

	sim "metacontroller/pkg/verifsim"
)

// C05 - apply is a three-way merge that never clobbers what it does not own.
// Oracle: (A) a clean-room reference statement of the documented semantics (docs/src/api/apply.md
// conventions + the laws of the property), compared with Merge's result; (B) law predicates that
// do not depend on the reference: idempotence, purity of the inputs, no panic.

var mergeKeysInOrder = []string{"containerPort", "port", "mountPath", "name", "uid", "ip", "path"}

type clash struct{ path, what string }

func (c *clash) Error() string { return "type clash at " + c.path + ": " + c.what }

func isMap(v interface{}) bool  { _, ok := v.(map[string]interface{}); return ok }
func isList(v interface{}) bool { _, ok := v.([]interface{}); return ok }

// refMerge is the reference: what the result must be, or a clash error.
func refMerge(path string, dest, last, des interface{}) (interface{}, error) {
	switch d := dest.(type) {
	case map[string]interface{}:
		if des != nil && !isMap(des) {
			return nil, &clash{path, fmt.Sprintf("observed is an object, desired is %T", des)}
		}
		dm, _ := des.(map[string]interface{})
		lm, _ := last.(map[string]interface{})
		out := map[string]interface{}{}
		for k, v := range d {
			out[k] = v
		}
		for k := range lm {
			if _, keep := dm[k]; !keep {
				delete(out, k)
			}
		}
		for k, dv := range dm {
			var lv interface{}
			if lm != nil {
				lv = lm[k]
			}
			r, err := refMerge(path+"."+k, out[k], lv, dv)
			if err != nil {
				return nil, err
			}
			out[k] = r
		}
		return out, nil
	case []interface{}:
		if des != nil && !isList(des) {
			return nil, &clash{path, fmt.Sprintf("observed is a list, desired is %T", des)}
		}
		dl, _ := des.([]interface{})
		ll, _ := last.([]interface{})
		key := refListMapKey(d, ll, dl)
		if key == "" {
			if des == nil {
				return []interface{}(nil), nil
			}
			return dl, nil
		}
		// associative list: items keyed by the merge key
		idx := func(l []interface{}) (map[string]interface{}, []string) {
			m := map[string]interface{}{}
			var order []string
			for _, it := range l {
				k := fmt.Sprintf("%v", it.(map[string]interface{})[key])
				if s, ok := it.(map[string]interface{})[key].(string); ok {
					k = s
				}
				if _, dup := m[k]; !dup {
					order = append(order, k)
				}
				m[k] = it
			}
			return m, order
		}
		om, oorder := idx(d)
		lmm, _ := idx(ll)
		dmm, dorder := idx(dl)
		res := map[string]interface{}{}
		for k, v := range om {
			res[k] = v
		}
		for k := range lmm {
			if _, keep := dmm[k]; !keep {
				delete(res, k)
			}
		}
		for k, dv := range dmm {
			r, err := refMerge(path+"["+k+"]", res[k], lmm[k], dv)
			if err != nil {
				return nil, err
			}
			res[k] = r
		}
		out := make([]interface{}, 0, len(res))
		added := map[string]bool{}
		for _, k := range oorder {
			if v, ok := res[k]; ok && !added[k] {
				out = append(out, v)
				added[k] = true
			}
		}
		for _, k := range dorder {
			if !added[k] {
				out = append(out, res[k])
				added[k] = true
			}
		}
		return out, nil
	default:
		return des, nil
	}
}

// refListMapKey: the documented convention - all items of all known examples are objects sharing
// a conventional merge key; the first in the fixed order wins.
func refListMapKey(lists ...[]interface{}) string {
	var common map[string]bool
	for _, l := range lists {
		for _, it := range l {
			m, ok := it.(map[string]interface{})
			if !ok {
				return ""
			}
			if common == nil {
				common = map[string]bool{}
				for k := range m {
					common[k] = true
				}
				continue
			}
			for k := range common {
				if _, ok := m[k]; !ok {
					delete(common, k)
				}
			}
		}
	}
	for _, k := range mergeKeysInOrder {
		if common[k] {
			return k
		}
	}
	return ""
}

// duplicate merge keys inside one list make "keyed by" ambiguous; such inputs are outside the
// universe ("list-maps with unique keys")
func hasDuplicateKeys(v interface{}) bool {
	switch t := v.(type) {
	case map[string]interface{}:
		for _, vv := range t {
			if hasDuplicateKeys(vv) {
				return true
			}
		}
	case []interface{}:
		for _, key := range mergeKeysInOrder {
			seen := map[string]bool{}
			for _, it := range t {
				if m, ok := it.(map[string]interface{}); ok {
					if kv, ok := m[key]; ok {
						s := fmt.Sprintf("%v", kv)
						if seen[s] {
							return true
						}
						seen[s] = true
					}
				}
			}
		}
		for _, it := range t {
			if hasDuplicateKeys(it) {
				return true
			}
		}
	}
	return false
}

func canon(v interface{}) string {
	b, _ := json.Marshal(v)
	return string(b)
}

func jsonEqual(a, b interface{}) bool {
	// nil slice vs null vs empty: compare through JSON, which is what gets written to the API
	return canon(a) == canon(b)
}

type c05Stats struct {
	triples, clashes, errors, listMaps, removals int64
}

type c05Sink struct {
	mu       sync.Mutex
	reported map[string]int
}

func (s *c05Sink) viol(sig, detail string, obs, last, des, got interface{}) {
	s.mu.Lock()
	s.reported[sig]++
	n := s.reported[sig]
	s.mu.Unlock()
	if n > 3 {
		return
	}
	sim.R().Violation("C05", "c05", sig, detail, map[string]interface{}{"observed": canon(obs), "lastApplied": canon(last), "desired": canon(des), "result": canon(got)})
}

// checkTriple runs Merge on one triple and judges it. Inputs must be maps.
func checkTriple(sink *c05Sink, st *c05Stats, obs, last, des map[string]interface{}) {
	atomic.AddInt64(&st.triples, 1)
	obsSnap, lastSnap, desSnap := canon(obs), canon(last), canon(des)
	var got map[string]interface{}
	var err error
	stack, panicked := sim.Guard(func() { got, err = Merge(obs, last, des) })
	if panicked {
		sink.viol("panic:"+sim.PanicSite(stack), "Merge panicked: "+stack, obs, last, des, nil)
		return
	}
	// L5 purity
	if canon(obs) != obsSnap {
		sink.viol("input-mutated:observed", "Merge mutated the observed object", jsonDecode(obsSnap), last, des, got)
	}
	if canon(last) != lastSnap {
		sink.viol("input-mutated:lastApplied", "Merge mutated lastApplied", obs, jsonDecode(lastSnap), des, got)
	}
	if canon(des) != desSnap {
		sink.viol("input-mutated:desired", "Merge mutated desired", obs, last, jsonDecode(desSnap), got)
	}
	want, rerr := refMerge("", k8sruntime.DeepCopyJSONValue(jsonDecode(obsSnap)), last, des)
	if rerr != nil {
		atomic.AddInt64(&st.clashes, 1)
		if err == nil {
			cl := rerr.(*clash)
			kind := "object-vs-" + typeName(valueAt(des, cl.path))
			if isList(valueAt(obs, cl.path)) {
				kind = "list-vs-" + typeName(valueAt(des, cl.path))
			}
			sink.viol("type-clash-silently-ignored:"+kind, fmt.Sprintf("a type clash between desired and observed must be reported as an error (%v), Merge returned a result", rerr), obs, last, des, got)
		}
		return
	}
	if err != nil {
		atomic.AddInt64(&st.errors, 1)
		sink.viol("unexpected-error", fmt.Sprintf("Merge returned an error although desired and observed do not clash in type: %v", err), obs, last, des, nil)
		return
	}
	if !jsonEqual(got, want) {
		sink.viol("result-differs-from-reference:"+diffClass(obs, last, des, got, want), fmt.Sprintf("Merge result differs from the reference semantics: want %s", canon(want)), obs, last, des, got)
		return
	}
	// L4 idempotence: applying the same desired state to the result changes nothing
	if hasDuplicateKeys(got) {
		return // the result left the universe of lists with unique merge keys
	}
	var again map[string]interface{}
	var err2 error
	if _, p := sim.Guard(func() { again, err2 = Merge(got, des, des) }); p || err2 != nil {
		sink.viol("not-idempotent:error", fmt.Sprintf("re-applying the same desired state to the result failed: %v", err2), got, des, des, nil)
	} else if !jsonEqual(again, got) {
		sig := "not-idempotent"
		if onlyEmptyListToNull(got, again) {
			// the only change: an empty list [] becomes null on the second apply, because
			// desired says null there
			sig = "not-idempotent:desired-null-over-empty-list"
		}
		sink.viol(sig, "re-applying the same desired state to its own result changed it", got, des, des, again)
	}
}

// onlyEmptyListToNull: a and b are equal except that some empty lists of a are null in b.
func onlyEmptyListToNull(a, b interface{}) bool {
	switch x := a.(type) {
	case map[string]interface{}:
		y, ok := b.(map[string]interface{})
		if !ok || len(x) != len(y) {
			return false
		}
		for k, v := range x {
			w, ok := y[k]
			if !ok || !onlyEmptyListToNull(v, w) {
				return false
			}
		}
		return true
	case []interface{}:
		if len(x) == 0 && (b == nil || isNilSlice(b)) {
			return true
		}
		y, ok := b.([]interface{})
		if !ok || len(x) != len(y) {
			return false
		}
		for i := range x {
			if !onlyEmptyListToNull(x[i], y[i]) {
				return false
			}
		}
		return true
	}
	return jsonEqual(a, b)
}

func isNilSlice(v interface{}) bool {
	l, ok := v.([]interface{})
	return ok && l == nil
}

func typeName(v interface{}) string {
	switch v.(type) {
	case nil:
		return "null"
	case map[string]interface{}:
		return "object"
	case []interface{}:
		return "list"
	}
	return "scalar"
}

func valueAt(root interface{}, path string) interface{} {
	cur := root
	for _, seg := range strings.FieldsFunc(path, func(r rune) bool { return r == '.' }) {
		name := seg
		key := ""
		if i := strings.Index(seg, "["); i >= 0 {
			name, key = seg[:i], strings.TrimSuffix(seg[i+1:], "]")
		}
		if name != "" {
			m, ok := cur.(map[string]interface{})
			if !ok {
				return nil
			}
			cur = m[name]
		}
		if key != "" {
			l, _ := cur.([]interface{})
			cur = nil
			for _, it := range l {
				if m, ok := it.(map[string]interface{}); ok {
					for _, mk := range mergeKeysInOrder {
						if fmt.Sprintf("%v", m[mk]) == key {
							cur = it
						}
					}
				}
			}
		}
	}
	return cur
}

// diffClass names which law the difference breaks (for the violation signature).
func diffClass(obs, last, des, got, want interface{}) string {
	g, w := canon(got), canon(want)
	switch {
	case len(g) < len(w):
		return "something-missing"
	case len(g) > len(w):
		return "something-extra"
	}
	return "different"
}

func jsonDecode(s string) map[string]interface{} {
	var m map[string]interface{}
	json.Unmarshal([]byte(s), &m)
	return normNumbers(m).(map[string]interface{})
}

func normNumbers(v interface{}) interface{} {
	switch t := v.(type) {
	case map[string]interface{}:
		for k, vv := range t {
			t[k] = normNumbers(vv)
		}
		return t
	case []interface{}:
		for i := range t {
			t[i] = normNumbers(t[i])
		}
		return t
	case float64:
		if t == float64(int64(t)) {
			return int64(t)
		}
	}
	return v
}

// ---------------------------------------------------------------------------------------------
// the bounded universe

const absent = "\x00absent"

func universe() []interface{} {
	var V []interface{}
	add := func(v interface{}) { V = append(V, v) }
	leafs := []interface{}{nil, int64(1), int64(2), "s", true}
	for _, l := range leafs {
		add(l)
	}
	// second-level values
	W := []interface{}{absent, nil, int64(1), int64(2), "s", true, []interface{}{int64(1)}, map[string]interface{}{"x": int64(1)}}
	for _, w1 := range W {
		for _, w2 := range W {
			m := map[string]interface{}{}
			if w1 != absent {
				m["k"] = w1
			}
			if w2 != absent {
				m["m"] = w2
			}
			add(m)
		}
	}
	// depth 3
	for _, w := range W {
		inner := map[string]interface{}{}
		if w != absent {
			inner["k"] = w
		}
		add(map[string]interface{}{"k": inner})
	}
	// plain lists
	for _, l := range [][]interface{}{{}, {int64(1)}, {int64(2), int64(1)}, {"s"}, {nil}, {[]interface{}{int64(1)}}, {map[string]interface{}{"id": "A"}}, {map[string]interface{}{"name": "A"}, int64(1)}} {
		add(l)
	}
	// list-maps under every conventional merge key, and under none ("id")
	for _, key := range append(append([]string{}, mergeKeysInOrder...), "id") {
		var a, b interface{} = "A", "B"
		if strings.Contains(strings.ToLower(key), "port") {
			a, b = int64(80), int64(443)
		}
		it := func(k interface{}, extra map[string]interface{}) map[string]interface{} {
			m := map[string]interface{}{key: k}
			for kk, v := range extra {
				m[kk] = v
			}
			return m
		}
		v1, v2, w9 := map[string]interface{}{"v": int64(1)}, map[string]interface{}{"v": int64(2)}, map[string]interface{}{"w": int64(9)}
		for _, l := range [][]interface{}{
			{it(a, v1)}, {it(a, v2)}, {it(b, v1)}, {it(a, v1), it(b, v1)}, {it(b, v1), it(a, v1)}, {it(a, v2), it(b, v1)}, {it(a, w9)}, {it(a, nil)},
			{it(a, map[string]interface{}{"v": int64(1), "w": int64(9)})}, {it(a, map[string]interface{}{"sub": map[string]interface{}{"x": int64(1)}})},
		} {
			add(l)
		}
	}
	// two conventional keys at once (precedence) and no common key
	add([]interface{}{map[string]interface{}{"name": "A", "port": int64(80), "v": int64(1)}})
	add([]interface{}{map[string]interface{}{"name": "A", "port": int64(443), "v": int64(2)}})
	add([]interface{}{map[string]interface{}{"name": "B", "port": int64(80), "v": int64(3)}})
	add([]interface{}{map[string]interface{}{"name": "A"}, map[string]interface{}{"port": int64(80)}})
	return V
}

func wrap(v interface{}) map[string]interface{} {
	if v == absent {
		return map[string]interface{}{"other": "kept"}
	}
	return map[string]interface{}{"a": k8sruntime.DeepCopyJSONValue(v), "other": "kept"}
}

func TestVerif_C05_Exhaustive(t *testing.T) {
	rep := sim.R()
	rep.Begin("C05", "c05-exhaustive")
	V := append([]interface{}{absent}, universe()...)
	n := len(V)
	// quick: a seeded sample of the product; thorough: the whole product
	stride := sim.Pick(23, 1)
	offset := int(sim.Seed()) % stride
	sink := &c05Sink{reported: map[string]int{}}
	st := &c05Stats{}
	workers := runtime.GOMAXPROCS(0)
	var wg sync.WaitGroup
	var idx int64 = -1
	total := int64(n) * int64(n) * int64(n)
	for wk := 0; wk < workers; wk++ {
		wg.Add(1)
		go func() {
			defer wg.Done()
			for {
				i := atomic.AddInt64(&idx, 1)
				if i >= total {
					return
				}
				if int(i)%stride != offset {
					continue
				}
				o, l, d := V[i/int64(n*n)], V[(i/int64(n))%int64(n)], V[i%int64(n)]
				obs, last, des := wrap(o), wrap(l), wrap(d)
				if l == absent {
					last = nil
				}
				if hasDuplicateKeys(obs) || hasDuplicateKeys(last) || hasDuplicateKeys(des) {
					continue
				}
				checkTriple(sink, st, obs, last, des)
			}
		}()
	}
	wg.Wait()
	rep.Note("C05", fmt.Sprintf("universe: %d values per position (+absent), product %d triples, stride %d: %d executed", n-1, total, stride, st.triples))
	rep.Counter("C05", "triples_executed", st.triples)
	rep.Counter("C05", "triples_with_type_clash", st.clashes)
	rep.Case("C05", "c05-exhaustive", st.triples > 0, fmt.Sprintf("exhaustive/stride%d/offset%d", stride, offset), map[string]interface{}{"universeSize": n, "triples": st.triples, "clashTriples": st.clashes, "exampleValues": []string{canon(V[10]), canon(V[70]), canon(V[len(V)-3])}})
}

// ---------------------------------------------------------------------------------------------
// random triples of larger shape

func genValue(rng *rand.Rand, depth int) interface{} {
	switch r := rng.Intn(10); {
	case r < 3 || depth <= 0:
		return []interface{}{nil, int64(rng.Intn(3)), "s" + fmt.Sprint(rng.Intn(3)), rng.Intn(2) == 0, 1.5}[rng.Intn(5)]
	case r < 6:
		m := map[string]interface{}{}
		for i := 0; i < rng.Intn(4); i++ {
			m[[]string{"a", "b", "c", "name", "port"}[rng.Intn(5)]] = genValue(rng, depth-1)
		}
		return m
	case r < 8:
		var l []interface{}
		for i := 0; i < rng.Intn(3); i++ {
			l = append(l, genValue(rng, depth-1))
		}
		if l == nil {
			l = []interface{}{}
		}
		return l
	default:
		key := append(append([]string{}, mergeKeysInOrder...), "id")[rng.Intn(8)]
		names := []string{"A", "B", "C", "D"}
		rng.Shuffle(len(names), func(i, j int) { names[i], names[j] = names[j], names[i] })
		var l []interface{}
		for _, nm := range names[:rng.Intn(4)] {
			it := map[string]interface{}{key: nm}
			for i := 0; i < rng.Intn(3); i++ {
				it[[]string{"v", "w", "sub"}[rng.Intn(3)]] = genValue(rng, depth-2)
			}
			l = append(l, it)
		}
		if l == nil {
			l = []interface{}{}
		}
		return l
	}
}

// mutate derives a related value (so that triples share structure, as real ones do)
func mutate(rng *rand.Rand, v interface{}, depth int) interface{} {
	v = k8sruntime.DeepCopyJSONValue(v)
	switch t := v.(type) {
	case map[string]interface{}:
		for k := range t {
			switch rng.Intn(5) {
			case 0:
				delete(t, k)
			case 1:
				t[k] = genValue(rng, depth-1)
			case 2:
				t[k] = mutate(rng, t[k], depth-1)
			}
		}
		if rng.Intn(3) == 0 {
			t[[]string{"a", "b", "z"}[rng.Intn(3)]] = genValue(rng, depth-1)
		}
		return t
	case []interface{}:
		if len(t) > 0 && rng.Intn(2) == 0 {
			i := rng.Intn(len(t))
			t[i] = mutate(rng, t[i], depth-1)
		}
		if rng.Intn(3) == 0 && len(t) > 0 {
			t = t[:len(t)-1]
		}
		if rng.Intn(3) == 0 && len(t) > 0 {
			t[0], t[len(t)-1] = t[len(t)-1], t[0]
		}
		return t
	}
	if rng.Intn(2) == 0 {
		return genValue(rng, depth)
	}
	return v
}

func TestVerif_C05_Random(t *testing.T) {
	rep := sim.R()
	rep.Begin("C05", "c05-random")
	n := sim.Pick(200000, 5000000)
	sink := &c05Sink{reported: map[string]int{}}
	st := &c05Stats{}
	workers := runtime.GOMAXPROCS(0)
	var wg sync.WaitGroup
	shapes := sync.Map{}
	var nshapes int64
	for wk := 0; wk < workers; wk++ {
		wg.Add(1)
		wk := wk
		go func() {
			defer wg.Done()
			rng := sim.Rand(fmt.Sprintf("C05-random-%d", wk))
			for i := 0; i < n/workers; i++ {
				base := map[string]interface{}{}
				for k := 0; k < 1+rng.Intn(3); k++ {
					base[[]string{"spec", "data", "metadata"}[k%3]] = genValue(rng, 4)
				}
				obs := mutate(rng, base, 4).(map[string]interface{})
				last := mutate(rng, base, 4).(map[string]interface{})
				des := mutate(rng, last, 4).(map[string]interface{})
				var lastArg map[string]interface{} = last
				if rng.Intn(10) == 0 {
					lastArg = nil
				}
				if hasDuplicateKeys(obs) || hasDuplicateKeys(lastArg) || hasDuplicateKeys(des) {
					continue
				}
				checkTriple(sink, st, obs, lastArg, des)
				if i%50 == 0 {
					sh := shapeOf(obs) + "|" + shapeOf(des)
					if _, dup := shapes.LoadOrStore(sh, true); !dup {
						atomic.AddInt64(&nshapes, 1)
					}
				}
			}
		}()
	}
	wg.Wait()
	rep.Counter("C05", "triples_executed", st.triples)
	rep.Counter("C05", "triples_with_type_clash", st.clashes)
	rep.Counter("C05", "distinct_shapes_sampled", nshapes)
	// report a handful of cases, keyed by shape, so that distinct counts are measured
	k := 0
	shapes.Range(func(key, _ interface{}) bool {
		k++
		rep.Case("C05", fmt.Sprintf("c05-random-shape-%d", k), true, "random/"+sim.Hash(key), nil)
		return k < 2000
	})
	rep.Case("C05", "c05-random", st.triples > 0, "random", map[string]interface{}{"triples": st.triples, "clashTriples": st.clashes, "distinctShapesSampled": nshapes})
}

func shapeOf(v interface{}) string {
	switch t := v.(type) {
	case map[string]interface{}:
		var ks []string
		for k, vv := range t {
			ks = append(ks, k+":"+shapeOf(vv))
		}
		sort.Strings(ks)
		return "{" + strings.Join(ks, ",") + "}"
	case []interface{}:
		var ks []string
		for _, vv := range t {
			ks = append(ks, shapeOf(vv))
		}
		return "[" + strings.Join(ks, ",") + "]"
	case nil:
		return "n"
	case string:
		return "s"
	case bool:
		return "b"
	}
	return "#"
}

var _ = reflect.DeepEqual
