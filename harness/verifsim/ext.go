//go:build verif

package verifsim

import (
	"fmt"
	"net/url"
	"sort"

	metav1 "k8s.io/apimachinery/pkg/apis/meta/v1"
	"k8s.io/apimachinery/pkg/runtime/schema"
)

// Side door: the workload's own reads and writes ("ext" actor). They go through exactly the same
// operation code as requests from metacontroller, so they obey the same API semantics and produce
// the same watch events, but they are logged as "ext" and never hit gates, faults or cuts.

type ExtError struct {
	Code   int
	Reason string
	Msg    string
}

func (e *ExtError) Error() string { return fmt.Sprintf("ext: %d %s: %s", e.Code, e.Reason, e.Msg) }

func (s *Server) ext(verb string, gvr schema.GroupVersionResource, ns, name, sub string, body interface{}, q url.Values) (Obj, error) {
	ri := &ReqInfo{Seq: s.tick(), Verb: verb, GVR: gvr, NS: ns, Name: name, Sub: sub, Tag: s.Tag()}
	if q == nil {
		q = url.Values{}
	}
	code, out, _ := s.do(&opInput{actor: "ext", ri: ri, query: q, bodyObj: body})
	if st, ok := out.(*metav1.Status); ok && st.Status == metav1.StatusFailure {
		return nil, &ExtError{Code: code, Reason: string(st.Reason), Msg: st.Message}
	}
	if o, ok := out.(Obj); ok {
		return o, nil
	}
	return nil, nil
}

func nsName(o Obj) (string, string) { return MetaString(o, "namespace"), MetaString(o, "name") }

func (s *Server) ExtCreate(gvr schema.GroupVersionResource, o Obj) (Obj, error) {
	ns, _ := nsName(o)
	return s.ext("create", gvr, ns, "", "", DeepCopy(o), nil)
}

// MustCreate creates an object or panics: used for scenario set-up, where failure is a harness bug.
func (s *Server) MustCreate(gvr schema.GroupVersionResource, o Obj) Obj {
	out, err := s.ExtCreate(gvr, o)
	if err != nil {
		panic(fmt.Sprintf("verifsim: set-up create failed: %v (%v)", err, o))
	}
	return out
}

func (s *Server) ExtUpdate(gvr schema.GroupVersionResource, o Obj) (Obj, error) {
	ns, name := nsName(o)
	return s.ext("update", gvr, ns, name, "", DeepCopy(o), nil)
}

func (s *Server) ExtUpdateStatus(gvr schema.GroupVersionResource, o Obj) (Obj, error) {
	ns, name := nsName(o)
	return s.ext("update", gvr, ns, name, "status", DeepCopy(o), nil)
}

func (s *Server) ExtGet(gvr schema.GroupVersionResource, ns, name string) (Obj, error) {
	return s.ext("get", gvr, ns, name, "", nil, nil)
}

// ExtDelete deletes with the given propagation policy ("" = Background) and no preconditions.
func (s *Server) ExtDelete(gvr schema.GroupVersionResource, ns, name, policy string) error {
	var opts Obj
	if policy != "" {
		opts = Obj{"propagationPolicy": policy}
	}
	_, err := s.ext("delete", gvr, ns, name, "", opts, nil)
	return err
}

// ExtMutate reads the object, lets fn change it and writes it back unconditionally. For resources
// with a status sub-resource the status part is written through /status as well.
func (s *Server) ExtMutate(gvr schema.GroupVersionResource, ns, name string, fn func(o Obj)) (Obj, error) {
	cur, err := s.ExtGet(gvr, ns, name)
	if err != nil {
		return nil, err
	}
	next := DeepCopy(cur)
	fn(next)
	delete(meta(next), "resourceVersion")
	out, err := s.ExtUpdate(gvr, next)
	if err != nil {
		return nil, err
	}
	if info, ok := s.Info(gvr); ok && info.HasStatus {
		if _, has := next["status"]; has || cur["status"] != nil {
			delete(meta(next), "resourceVersion")
			out2, err2 := s.ExtUpdateStatus(gvr, next)
			if err2 == nil {
				out = out2
			}
		}
	}
	return out, nil
}

// Peek returns a copy of the stored object without logging anything.
func (s *Server) Peek(gvr schema.GroupVersionResource, ns, name string) Obj {
	s.mu.Lock()
	defer s.mu.Unlock()
	rs := s.res[gvr]
	if rs == nil {
		return nil
	}
	return DeepCopy(rs.objs[objKey(ns, name)])
}

// PeekAll returns copies of all stored objects of a resource, sorted by key, without logging.
func (s *Server) PeekAll(gvr schema.GroupVersionResource) []Obj {
	s.mu.Lock()
	defer s.mu.Unlock()
	rs := s.res[gvr]
	if rs == nil {
		return nil
	}
	keys := make([]string, 0, len(rs.objs))
	for k := range rs.objs {
		keys = append(keys, k)
	}
	sort.Strings(keys)
	out := make([]Obj, 0, len(keys))
	for _, k := range keys {
		out = append(out, DeepCopy(rs.objs[k]))
	}
	return out
}

// Snapshot returns the whole store: resource -> key -> object.
func (s *Server) Snapshot() map[string]map[string]Obj {
	s.mu.Lock()
	defer s.mu.Unlock()
	out := map[string]map[string]Obj{}
	for gvr, rs := range s.res {
		m := map[string]Obj{}
		for k, o := range rs.objs {
			m[k] = DeepCopy(o)
		}
		out[gvr.Resource+"."+gvr.Group] = m
	}
	return out
}

// GCStep plays the garbage collector once: every object whose owners are all gone (by UID) is
// deleted in the background; objects being deleted with the foregroundDeletion finalizer lose it
// once they have no dependents left; the orphan finalizer strips owner references of dependents
// and is then removed. Returns the number of actions taken. Explicitly stepped, never on a timer.
func (s *Server) GCStep() int {
	type ref struct {
		gvr     schema.GroupVersionResource
		ns, nam string
	}
	s.mu.Lock()
	uids := map[string]bool{}
	for _, rs := range s.res {
		for _, o := range rs.objs {
			uids[MetaString(o, "uid")] = true
		}
	}
	var orphans []ref
	dependents := map[string][]ref{} // owner uid -> dependents
	var deleting []ref
	for gvr, rs := range s.res {
		for _, o := range rs.objs {
			ns, name := nsName(o)
			refs := OwnerRefs(o)
			alive := 0
			for _, r := range refs {
				if uids[r.UID] {
					alive++
					dependents[r.UID] = append(dependents[r.UID], ref{gvr, ns, name})
				}
			}
			if len(refs) > 0 && alive == 0 {
				orphans = append(orphans, ref{gvr, ns, name})
			}
			if metaRO(o)["deletionTimestamp"] != nil {
				deleting = append(deleting, ref{gvr, ns, name})
			}
		}
	}
	s.mu.Unlock()
	actions := 0
	for _, r := range orphans {
		if err := s.ExtDelete(r.gvr, r.ns, r.nam, ""); err == nil {
			actions++
		}
	}
	for _, r := range deleting {
		o := s.Peek(r.gvr, r.ns, r.nam)
		if o == nil {
			continue
		}
		uid := MetaString(o, "uid")
		for _, f := range Finalizers(o) {
			switch f {
			case "foregroundDeletion":
				if len(dependents[uid]) == 0 {
					s.ExtMutate(r.gvr, r.ns, r.nam, func(o Obj) { removeFinalizer(o, "foregroundDeletion") })
					actions++
				} else {
					for _, d := range dependents[uid] {
						if err := s.ExtDelete(d.gvr, d.ns, d.nam, ""); err == nil {
							actions++
						}
					}
				}
			case "orphan":
				for _, d := range dependents[uid] {
					s.ExtMutate(d.gvr, d.ns, d.nam, func(o Obj) { removeOwner(o, uid) })
					actions++
				}
				s.ExtMutate(r.gvr, r.ns, r.nam, func(o Obj) { removeFinalizer(o, "orphan") })
				actions++
			}
		}
	}
	return actions
}

func removeFinalizer(o Obj, f string) {
	var out []string
	for _, x := range Finalizers(o) {
		if x != f {
			out = append(out, x)
		}
	}
	setFinalizers(o, out)
}

func removeOwner(o Obj, uid string) {
	m := meta(o)
	l, _ := m["ownerReferences"].([]interface{})
	var out []interface{}
	for _, it := range l {
		if r, ok := it.(map[string]interface{}); ok {
			if u, _ := r["uid"].(string); u == uid {
				continue
			}
		}
		out = append(out, it)
	}
	if len(out) == 0 {
		delete(m, "ownerReferences")
	} else {
		m["ownerReferences"] = out
	}
}
