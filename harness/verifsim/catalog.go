//go:build verif

package verifsim

import (
	"fmt"
	"sort"
	"strings"

	"k8s.io/apimachinery/pkg/runtime/schema"
)

// The fixed resource catalogue of the simulated cluster.
var (
	// parents
	ThingInfo        = ResourceInfo{Group: "ctest.dev", Version: "v1", Resource: "things", Kind: "Thing", Namespaced: true, HasStatus: true}
	ClusterThingInfo = ResourceInfo{Group: "ctest.dev", Version: "v1", Resource: "clusterthings", Kind: "ClusterThing", Namespaced: false, HasStatus: true}
	NoStatusInfo     = ResourceInfo{Group: "ctest.dev", Version: "v1", Resource: "nostatuses", Kind: "NoStatus", Namespaced: true, HasStatus: false}
	// children
	ConfigMapInfo     = ResourceInfo{Group: "", Version: "v1", Resource: "configmaps", Kind: "ConfigMap", Namespaced: true, NoGeneration: true}
	PodInfo           = ResourceInfo{Group: "", Version: "v1", Resource: "pods", Kind: "Pod", Namespaced: true, HasStatus: true, NoGeneration: true}
	PVInfo            = ResourceInfo{Group: "", Version: "v1", Resource: "persistentvolumes", Kind: "PersistentVolume", Namespaced: false, HasStatus: true, NoGeneration: true}
	WidgetInfo        = ResourceInfo{Group: "kids.dev", Version: "v1", Resource: "widgets", Kind: "Widget", Namespaced: true, HasStatus: true}
	ClusterWidgetInfo = ResourceInfo{Group: "kids.dev", Version: "v1", Resource: "clusterwidgets", Kind: "ClusterWidget", Namespaced: false, HasStatus: true}
	// a second namespaced resource with a status subresource in the parents' group/version
	GadgetThingInfo = ResourceInfo{Group: "ctest.dev", Version: "v1", Resource: "gadgetthings", Kind: "GadgetThing", Namespaced: true, HasStatus: true}
	// parents whose CRD declares subresources without status (C20)
	ScaleOnlyInfo = ResourceInfo{Group: "ctest.dev", Version: "v1", Resource: "scaleonlys", Kind: "ScaleOnly", Namespaced: true, HasStatus: false}
	EmptySubInfo  = ResourceInfo{Group: "ctest.dev", Version: "v1", Resource: "emptysubs", Kind: "EmptySub", Namespaced: true, HasStatus: false}
	// a second resource with Kind "Widget" in another API group (harness name: AltWidget)
	AltWidgetInfo = ResourceInfo{Group: "alt.dev", Version: "v1", Resource: "widgets", Kind: "Widget", Namespaced: true, HasStatus: true}
	// related
	SecretInfo = ResourceInfo{Group: "", Version: "v1", Resource: "secrets", Kind: "Secret", Namespaced: true, NoGeneration: true}
	GadgetInfo = ResourceInfo{Group: "rel.dev", Version: "v1", Resource: "gadgets", Kind: "Gadget", Namespaced: true, HasStatus: true}
	ZoneInfo   = ResourceInfo{Group: "rel.dev", Version: "v1", Resource: "zones", Kind: "Zone", Namespaced: false}
	// metacontroller's own
	RevisionInfo = ResourceInfo{Group: "metacontroller.k8s.io", Version: "v1alpha1", Resource: "controllerrevisions", Kind: "ControllerRevision", Namespaced: true}

	Catalog = []ResourceInfo{ThingInfo, ClusterThingInfo, NoStatusInfo, ConfigMapInfo, PodInfo, PVInfo, WidgetInfo, ClusterWidgetInfo, SecretInfo, GadgetInfo, ZoneInfo, RevisionInfo, AltWidgetInfo, ScaleOnlyInfo, EmptySubInfo, GadgetThingInfo}
)

func InfoByKind(apiVersion, kind string) (ResourceInfo, bool) {
	for _, ri := range Catalog {
		if ri.APIVersion() == apiVersion && ri.Kind == kind {
			return ri, true
		}
	}
	return ResourceInfo{}, false
}

func InfoByResource(apiVersion, resource string) (ResourceInfo, bool) {
	for _, ri := range Catalog {
		if ri.APIVersion() == apiVersion && ri.Resource == resource {
			return ri, true
		}
	}
	return ResourceInfo{}, false
}

// NewCluster returns a simulator serving the whole catalogue.
func NewCluster() *Server {
	s := NewServer()
	s.Register(Catalog...)
	return s
}

// HookKey is the documented `Kind.apiVersion` key of the children / related maps.
func HookKey(ri ResourceInfo) string { return ri.Kind + "." + ri.APIVersion() }

// ---------------------------------------------------------------------------------------------
// object builders

func NewObject(ri ResourceInfo, ns, name string) Obj {
	m := Obj{"name": name}
	if ri.Namespaced {
		m["namespace"] = ns
	}
	return Obj{"apiVersion": ri.APIVersion(), "kind": ri.Kind, "metadata": m}
}

func SetLabels(o Obj, l map[string]string) Obj {
	m := meta(o)
	if len(l) == 0 {
		delete(m, "labels")
		return o
	}
	mm := Obj{}
	for k, v := range l {
		mm[k] = v
	}
	m["labels"] = mm
	return o
}

func SetAnnotations(o Obj, l map[string]string) Obj {
	m := meta(o)
	if len(l) == 0 {
		delete(m, "annotations")
		return o
	}
	mm := Obj{}
	for k, v := range l {
		mm[k] = v
	}
	m["annotations"] = mm
	return o
}

func Annotations(o Obj) map[string]string {
	m := metaRO(o)
	out := map[string]string{}
	if m == nil {
		return out
	}
	l, _ := m["annotations"].(map[string]interface{})
	for k, v := range l {
		if s, ok := v.(string); ok {
			out[k] = s
		}
	}
	return out
}

// AddOwner appends an owner reference to owner (an object as stored, i.e. with uid).
func AddOwner(o Obj, owner Obj, controller bool) Obj {
	m := meta(o)
	l, _ := m["ownerReferences"].([]interface{})
	ref := Obj{
		"apiVersion": owner["apiVersion"], "kind": owner["kind"],
		"name": MetaString(owner, "name"), "uid": MetaString(owner, "uid"),
	}
	if controller {
		ref["controller"] = true
		ref["blockOwnerDeletion"] = true
	}
	m["ownerReferences"] = append(l, ref)
	return o
}

func UID(o Obj) string  { return MetaString(o, "uid") }
func Name(o Obj) string { return MetaString(o, "name") }
func NS(o Obj) string   { return MetaString(o, "namespace") }
func Key(o Obj) string  { return objKey(NS(o), Name(o)) }

func IsDeleting(o Obj) bool {
	m := metaRO(o)
	return m != nil && m["deletionTimestamp"] != nil
}

func HasFinalizer(o Obj, f string) bool {
	for _, x := range Finalizers(o) {
		if x == f {
			return true
		}
	}
	return false
}

func Nested(o Obj, path ...string) (interface{}, bool) {
	var cur interface{} = o
	for _, p := range path {
		m, ok := cur.(map[string]interface{})
		if !ok {
			return nil, false
		}
		cur, ok = m[p]
		if !ok {
			return nil, false
		}
	}
	return cur, true
}

func NestedString(o Obj, path ...string) string {
	v, _ := Nested(o, path...)
	s, _ := v.(string)
	return s
}

func SetNested(o Obj, v interface{}, path ...string) {
	cur := o
	for _, p := range path[:len(path)-1] {
		next, ok := cur[p].(map[string]interface{})
		if !ok {
			next = Obj{}
			cur[p] = next
		}
		cur = next
	}
	cur[path[len(path)-1]] = v
}

// ---------------------------------------------------------------------------------------------
// normalised store: what two runs must agree on (names, owners by name, labels, content,
// finalizers); uids, resourceVersions, generations and managed fields are erased and owner uids
// are replaced by the owner's kind/name.

func (s *Server) Normalized(skip ...schema.GroupVersionResource) map[string]interface{} {
	snap := s.Snapshot()
	uidName := map[string]string{}
	for res, objs := range snap {
		for k, o := range objs {
			uidName[UID(o)] = res + ":" + k
		}
	}
	skipSet := map[string]bool{}
	for _, g := range skip {
		skipSet[g.Resource+"."+g.Group] = true
	}
	out := map[string]interface{}{}
	for res, objs := range snap {
		if skipSet[res] {
			continue
		}
		for k, o := range objs {
			o = DeepCopy(o)
			m := meta(o)
			for _, f := range []string{"uid", "resourceVersion", "generation", "creationTimestamp", "managedFields"} {
				delete(m, f)
			}
			if l, ok := m["ownerReferences"].([]interface{}); ok {
				for _, it := range l {
					if r, ok := it.(map[string]interface{}); ok {
						if u, _ := r["uid"].(string); u != "" {
							if n, ok := uidName[u]; ok {
								r["uid"] = "uid-of:" + n
							} else {
								r["uid"] = "uid-of:<gone>"
							}
						}
					}
				}
			}
			if l, ok := m["labels"].(map[string]interface{}); ok {
				if u, _ := l["controller-uid"].(string); u != "" {
					if n, ok := uidName[u]; ok {
						l["controller-uid"] = "uid-of:" + n
					}
				}
			}
			if st, ok := o["status"].(map[string]interface{}); ok {
				delete(st, "observedGeneration")
				if len(st) == 0 {
					delete(o, "status")
				}
			}
			if kind, _ := o["kind"].(string); kind == "ControllerRevision" {
				// the claim list is a set of sets: neither the order of the groups nor that of the
				// names in a group carries meaning
				if l, ok := o["children"].([]interface{}); ok {
					for _, it := range l {
						if g, ok := it.(map[string]interface{}); ok {
							if names, ok := g["names"].([]interface{}); ok {
								sort.Slice(names, func(i, j int) bool { return fmt.Sprint(names[i]) < fmt.Sprint(names[j]) })
							}
						}
					}
					sort.SliceStable(l, func(i, j int) bool {
						gi, _ := l[i].(map[string]interface{})
						gj, _ := l[j].(map[string]interface{})
						return fmt.Sprint(gi["apiGroup"], "/", gi["kind"]) < fmt.Sprint(gj["apiGroup"], "/", gj["kind"])
					})
				}
			}
			out[res+":"+k] = o
		}
	}
	return out
}

// DescribeLog renders a request log compactly for witnesses.
func DescribeLog(reqs []*Request, onlyMC bool) []string {
	var out []string
	for _, r := range reqs {
		if onlyMC && r.Actor != "mc" {
			continue
		}
		if r.Verb == "list" || r.Verb == "watch" {
			continue
		}
		out = append(out, r.String())
	}
	return out
}

func SortedKeys(m map[string]interface{}) []string {
	out := make([]string, 0, len(m))
	for k := range m {
		out = append(out, k)
	}
	sort.Strings(out)
	return out
}

func Join(ss []string) string { return strings.Join(ss, "\n") }

func Sprint(v interface{}) string { return fmt.Sprintf("%v", v) }
