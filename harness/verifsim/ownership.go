//go:build verif

package verifsim

import (
	"fmt"
	"reflect"

	"k8s.io/apimachinery/pkg/labels"
	"k8s.io/apimachinery/pkg/runtime/schema"
)

// M-OWN: the ownership oracle of C02, a pure function of the request log. It judges every
// accepted, effectful mutating request metacontroller issued on behalf of one parent.

type OwnCtx struct {
	ParentGVR schema.GroupVersionResource
	ParentKey string // ns/name
	ParentUID string
	// Selector the parent uses to claim children (nil for decorators, which never adopt).
	Selector labels.Selector
	// DecoratorMarker is the value of the metacontroller.k8s.io/decorator-controller annotation
	// for decorator controllers ("" for composite controllers).
	DecoratorMarker string
	RevisionGVR     schema.GroupVersionResource
}

type Finding struct {
	Sig    string
	Detail string
	Req    *Request
}

const DecoratorAnnotation = "metacontroller.k8s.io/decorator-controller"

func controlledBy(o Obj, uid string) bool {
	c := ControllerOf(o)
	return c != nil && c.UID == uid
}

func stripForAdoptionDiff(o Obj) Obj {
	c := DeepCopy(o)
	m := meta(c)
	delete(m, "ownerReferences")
	delete(m, "resourceVersion")
	return c
}

// JudgeOwnership returns one finding per offending request; counts reports how many requests of
// each verb were judged.
func JudgeOwnership(ctx OwnCtx, reqs []*Request, counts map[string]int) []Finding {
	var out []Finding
	for _, r := range reqs {
		if r.Actor != "mc" || !r.Mutating() || !r.OK() {
			continue
		}
		if r.GVR == ctx.ParentGVR && objKey(r.NS, r.Name) == ctx.ParentKey {
			continue // writes to the parent itself are the business of C10/C11/C16
		}
		if !r.Applied {
			if counts != nil {
				counts["noop-write"]++
			}
			continue
		}
		isRev := r.GVR == ctx.RevisionGVR
		res := r.GVR.Resource
		bad := func(kind, format string, a ...interface{}) {
			out = append(out, Finding{Req: r, Sig: kind + ":" + res, Detail: fmt.Sprintf(format, a...) + "\n  request: " + r.String() + fmt.Sprintf("\n  pre: %v\n  post: %v\n  body: %v", r.Pre, r.Post, r.Body)})
		}
		switch {
		case r.Pre == nil && r.Post != nil: // create (POST or creating apply-patch)
			if counts != nil {
				counts["create"]++
			}
			refs := OwnerRefs(r.Post)
			nc := 0
			for _, ref := range refs {
				if ref.Controller {
					nc++
				}
			}
			c := ControllerOf(r.Post)
			if nc != 1 || c == nil || c.UID != ctx.ParentUID {
				via := r.Verb
				bad("create-without-controller-ref("+via+")", "object created without exactly one controller owner reference to the parent (uid %s): ownerReferences=%v", ctx.ParentUID, refs)
			}
		case r.Verb == "delete" || (r.Pre != nil && r.Post == nil && r.Verb == "delete"):
			if counts != nil {
				counts["delete"]++
			}
			if !controlledBy(r.Pre, ctx.ParentUID) {
				bad("delete-of-uncontrolled", "deleted an object the parent (uid %s) does not control: controller=%v", ctx.ParentUID, ControllerOf(r.Pre))
			}
			if ctx.DecoratorMarker != "" && !isRev && Annotations(r.Pre)[DecoratorAnnotation] != ctx.DecoratorMarker {
				bad("delete-without-marker", "decorator deleted an attachment lacking its marker %q", ctx.DecoratorMarker)
			}
			opts, _ := r.Body.(map[string]interface{})
			pre, _ := opts["preconditions"].(map[string]interface{})
			uid, _ := pre["uid"].(string)
			if uid == "" {
				bad("delete-without-uid-precondition", "delete request carries no UID precondition: options=%v", r.Body)
			}
			if !isRev {
				if pol, _ := opts["propagationPolicy"].(string); pol != "Background" {
					bad("delete-propagation", "child delete does not request background propagation: options=%v", r.Body)
				}
			}
		case r.Pre != nil && r.Post != nil: // update / patch
			if counts != nil {
				counts["update"]++
			}
			if controlledBy(r.Pre, ctx.ParentUID) {
				if ctx.DecoratorMarker != "" && !isRev && Annotations(r.Pre)[DecoratorAnnotation] != ctx.DecoratorMarker {
					bad("update-without-marker", "decorator updated an attachment lacking its marker %q", ctx.DecoratorMarker)
				}
				continue
			}
			// the only other legitimate write is the adoption of a matching orphan
			adoption := ControllerOf(r.Pre) == nil && controlledBy(r.Post, ctx.ParentUID) &&
				reflect.DeepEqual(stripForAdoptionDiff(r.Pre), stripForAdoptionDiff(r.Post))
			if adoption {
				if counts != nil {
					counts["adopt"]++
				}
				if ctx.Selector == nil || !ctx.Selector.Matches(labels.Set(Labels(r.Pre))) {
					bad("adopt-nonmatching", "adopted an orphan that does not match the selector %v: labels=%v", ctx.Selector, Labels(r.Pre))
				}
				if IsDeleting(r.Pre) {
					bad("adopt-deleting", "adopted an orphan that is being deleted")
				}
				continue
			}
			how := r.Verb
			if r.Verb == "patch" {
				if _, isApply := r.Query["fieldManager"]; isApply {
					how = "apply-patch"
				}
			}
			bad("write-to-uncontrolled("+how+")", "modified an object the parent (uid %s) does not control: controller=%v", ctx.ParentUID, ControllerOf(r.Pre))
		}
	}
	return out
}
