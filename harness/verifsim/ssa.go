//go:build verif

package verifsim

import (
	"fmt"
	"reflect"

	apierrors "k8s.io/apimachinery/pkg/api/errors"
	metav1 "k8s.io/apimachinery/pkg/apis/meta/v1"
	"k8s.io/apimachinery/pkg/apis/meta/v1/unstructured"
	"k8s.io/apimachinery/pkg/runtime"
	"k8s.io/apimachinery/pkg/runtime/schema"
	"k8s.io/apimachinery/pkg/util/managedfields"
	"sigs.k8s.io/yaml"
)

// Server-side apply is executed by the real field manager of k8s.io/apimachinery
// (structured-merge-diff) with the deduced, schema-less type converter: maps are merged per key,
// lists are atomic. Managed fields are kept out of the stored object (ssaState) so that objects
// look the same with and without server-side apply in use; this hides metadata.managedFields from
// clients, which metacontroller never reads.

type ssaState struct {
	managed []metav1.ManagedFieldsEntry
}

type unstructuredConvertor struct{}

func (unstructuredConvertor) Convert(in, out, context interface{}) error {
	uin, ok1 := in.(*unstructured.Unstructured)
	uout, ok2 := out.(*unstructured.Unstructured)
	if !ok1 || !ok2 {
		return fmt.Errorf("sim: can only convert unstructured")
	}
	uout.Object = runtime.DeepCopyJSON(uin.Object)
	return nil
}
func (unstructuredConvertor) ConvertToVersion(in runtime.Object, gv runtime.GroupVersioner) (runtime.Object, error) {
	return in, nil
}
func (unstructuredConvertor) ConvertFieldLabel(gvk schema.GroupVersionKind, label, value string) (string, string, error) {
	return label, value, nil
}

type noDefaulter struct{}

func (noDefaulter) Default(runtime.Object) {}

type unstructuredCreater struct{}

func (unstructuredCreater) New(kind schema.GroupVersionKind) (runtime.Object, error) {
	u := &unstructured.Unstructured{}
	u.SetGroupVersionKind(kind)
	return u, nil
}

func fieldManagerFor(info ResourceInfo) (*managedfields.FieldManager, error) {
	gvk := schema.GroupVersionKind{Group: info.Group, Version: info.Version, Kind: info.Kind}
	return managedfields.NewDefaultCRDFieldManager(
		managedfields.NewDeducedTypeConverter(),
		unstructuredConvertor{}, noDefaulter{}, unstructuredCreater{},
		gvk, gvk.GroupVersion(), "", nil)
}

func (s *Server) applyPatchLocked(rs *resState, in *opInput, cur Obj, entry *Request) (int, interface{}) {
	info := rs.info
	ri := in.ri
	manager := in.query.Get("fieldManager")
	if manager == "" {
		return s.fail(400, metav1.StatusReasonBadRequest, "PatchOptions.meta.k8s.io: Invalid value: fieldManager is required for apply patch")
	}
	force := in.query.Get("force") == "true"
	var applied Obj
	if err := yaml.Unmarshal(in.body, &applied); err != nil || applied == nil {
		return s.fail(400, metav1.StatusReasonBadRequest, "cannot decode apply configuration: %v", err)
	}
	// round-trip through the JSON decoder metacontroller's objects use, to get int64 numbers
	applied = normalizeNumbers(applied).(Obj)
	am, _ := applied["metadata"].(map[string]interface{})
	if am == nil {
		return s.fail(422, metav1.StatusReasonInvalid, "metadata.name: Required value")
	}
	if n, _ := am["name"].(string); n != ri.Name {
		return s.fail(400, metav1.StatusReasonBadRequest, "name in apply configuration (%v) does not match URL (%s)", am["name"], ri.Name)
	}
	if st := validateObject(applied, info); st != nil {
		return int(st.Code), st
	}
	if info.Namespaced {
		if n, _ := am["namespace"].(string); n != "" && n != ri.NS {
			return s.fail(400, metav1.StatusReasonBadRequest, "namespace in apply configuration does not match URL")
		}
		am["namespace"] = ri.NS
	}
	applied["apiVersion"] = info.APIVersion()
	applied["kind"] = info.Kind
	for _, f := range []string{"uid", "resourceVersion", "creationTimestamp", "generation", "managedFields", "selfLink", "deletionTimestamp"} {
		delete(am, f)
	}
	if info.HasStatus {
		delete(applied, "status")
	}

	fm, err := fieldManagerFor(info)
	if err != nil {
		return s.fail(500, metav1.StatusReasonInternalError, "field manager: %v", err)
	}
	key := objKey(ri.NS, ri.Name)
	live := &unstructured.Unstructured{}
	exists := cur != nil
	if exists {
		live.Object = DeepCopy(cur)
		if st := rs.ssa[key]; st != nil {
			live.SetManagedFields(st.managed)
		}
	} else {
		live.SetGroupVersionKind(schema.GroupVersionKind{Group: info.Group, Version: info.Version, Kind: info.Kind})
	}
	out, err := fm.Apply(live, &unstructured.Unstructured{Object: applied}, manager, force)
	if err != nil {
		if se, ok := err.(*apierrors.StatusError); ok {
			return int(se.Status().Code), statusOf(se)
		}
		return s.fail(422, metav1.StatusReasonInvalid, "apply failed: %v", err)
	}
	res := out.(*unstructured.Unstructured)
	managed := res.GetManagedFields()
	next := res.Object
	if m, ok := next["metadata"].(map[string]interface{}); ok {
		delete(m, "managedFields")
	}
	if exists {
		mergeOwnerRefsListMap(next, cur)
	}
	if !exists {
		code, created := s.createLocked(rs, ri.NS, next, entry)
		if code == 201 {
			rs.ssa[key] = &ssaState{managed: managed}
		}
		return code, created
	}
	delete(meta(next), "resourceVersion")
	code, updated := s.updateLocked(rs, cur, next, "", entry, true)
	if code == 200 && rs.objs[key] != nil {
		rs.ssa[key] = &ssaState{managed: managed}
	}
	return code, updated
}

// trackUpdateLocked records a non-apply write in the managed-fields bookkeeping, the way the real
// server does for every create/update/patch, so that later applies see who owns what.
func (s *Server) trackUpdateLocked(rs *resState, key string, before, after Obj, manager string) {
	st := rs.ssa[key]
	if st == nil || after == nil {
		return // only objects that have been applied to carry bookkeeping
	}
	if reflect.DeepEqual(before, after) {
		return
	}
	fm, err := fieldManagerFor(rs.info)
	if err != nil {
		return
	}
	live := &unstructured.Unstructured{Object: DeepCopy(before)}
	live.SetManagedFields(st.managed)
	if manager == "" {
		manager = "unknown"
	}
	out, err := fm.Update(live, &unstructured.Unstructured{Object: DeepCopy(after)}, manager)
	if err != nil {
		return
	}
	st.managed = out.(*unstructured.Unstructured).GetManagedFields()
}

func normalizeNumbers(v interface{}) interface{} {
	switch t := v.(type) {
	case map[string]interface{}:
		for k, vv := range t {
			t[k] = normalizeNumbers(vv)
		}
		return t
	case []interface{}:
		for i, vv := range t {
			t[i] = normalizeNumbers(vv)
		}
		return t
	case float64:
		if t == float64(int64(t)) {
			return int64(t)
		}
		return t
	case int:
		return int64(t)
	}
	return v
}

// mergeOwnerRefsListMap emulates the one place where the schema-less type converter differs from
// a real server in a way metacontroller can observe: metadata.ownerReferences is a list-map keyed
// by uid, so an apply only owns the entries it names and entries of other owners survive. Entries
// of the live object keep their position; applied entries replace their namesakes or are appended.
func mergeOwnerRefsListMap(next, cur Obj) {
	nm := meta(next)
	applied, _ := nm["ownerReferences"].([]interface{})
	live, _ := metaRO(cur)["ownerReferences"].([]interface{})
	if len(live) == 0 {
		return
	}
	byUID := map[string]interface{}{}
	for _, it := range applied {
		if r, ok := it.(map[string]interface{}); ok {
			u, _ := r["uid"].(string)
			byUID[u] = it
		}
	}
	var out []interface{}
	used := map[string]bool{}
	for _, it := range live {
		r, _ := it.(map[string]interface{})
		u, _ := r["uid"].(string)
		if a, ok := byUID[u]; ok {
			out = append(out, a)
			used[u] = true
		} else {
			out = append(out, DeepCopyValue(it))
		}
	}
	for _, it := range applied {
		r, _ := it.(map[string]interface{})
		u, _ := r["uid"].(string)
		if !used[u] {
			out = append(out, it)
		}
	}
	nm["ownerReferences"] = out
}
