//go:build verif

package verifsim

import (
	"crypto/sha1"
	"encoding/hex"
	"encoding/json"
	"fmt"
	"math/rand"
	"os"
	"runtime/debug"
	"strconv"
	"strings"
	"sync"
)

// Verdict stream: every harness test writes JSON lines to $VERIF_OUT; the driver (bin/vcheck)
// turns them into the evidence file and the exit code. A "begin" line is written before a case
// runs so that the driver can name the case that killed the process.

type record struct {
	Type       string      `json:"type"` // begin case violation counter inconclusive note
	Prop       string      `json:"prop,omitempty"`
	Case       string      `json:"case,omitempty"`
	Nontrivial bool        `json:"nontrivial,omitempty"`
	Key        string      `json:"key,omitempty"`
	Sample     interface{} `json:"sample,omitempty"`
	Sig        string      `json:"sig,omitempty"`
	Detail     string      `json:"detail,omitempty"`
	Witness    interface{} `json:"witness,omitempty"`
	Name       string      `json:"name,omitempty"`
	N          int64       `json:"n,omitempty"`
}

type Reporter struct {
	mu       sync.Mutex
	f        *os.File
	samples  map[string]int
	seenViol map[string]int
}

var (
	rep     *Reporter
	repOnce sync.Once
)

func R() *Reporter {
	repOnce.Do(func() {
		rep = &Reporter{samples: map[string]int{}, seenViol: map[string]int{}}
		if p := os.Getenv("VERIF_OUT"); p != "" {
			f, err := os.OpenFile(p, os.O_APPEND|os.O_CREATE|os.O_WRONLY, 0o644)
			if err == nil {
				rep.f = f
			}
		}
	})
	return rep
}

func (r *Reporter) write(rec record) {
	data, err := json.Marshal(rec)
	if err != nil {
		rec.Sample, rec.Witness = nil, fmt.Sprintf("unmarshalable witness: %v", err)
		data, _ = json.Marshal(rec)
	}
	r.mu.Lock()
	defer r.mu.Unlock()
	if r.f != nil {
		r.f.Write(append(data, '\n'))
	} else if rec.Type == "violation" || rec.Type == "inconclusive" {
		fmt.Fprintf(os.Stderr, "VERIF %s\n", data)
	}
}

func (r *Reporter) Begin(prop, caseID string) { r.write(record{Type: "begin", Prop: prop, Case: caseID}) }

// Case records one executed case. key identifies the case up to the equivalence the property's
// rule declares; the driver counts distinct keys of non-trivial cases. sample is written out for
// the first few cases of each property only.
func (r *Reporter) Case(prop, caseID string, nontrivial bool, key string, sample interface{}) {
	r.mu.Lock()
	n := r.samples[prop]
	if sample != nil && n < 3 {
		r.samples[prop] = n + 1
	} else {
		sample = nil
	}
	r.mu.Unlock()
	r.write(record{Type: "case", Prop: prop, Case: caseID, Nontrivial: nontrivial, Key: key, Sample: sample})
}

// Violation records a property violation. sig is a stable signature of *what* fails (call site,
// input shape, history shape) used to match known findings; at most 5 full witnesses are written
// per signature, later ones only counted.
func (r *Reporter) Violation(prop, caseID, sig, detail string, witness interface{}) {
	r.mu.Lock()
	k := prop + "|" + sig
	r.seenViol[k]++
	n := r.seenViol[k]
	r.mu.Unlock()
	if n > 5 {
		witness = nil
		if len(detail) > 300 {
			detail = detail[:300]
		}
	}
	r.write(record{Type: "violation", Prop: prop, Case: caseID, Sig: sig, Detail: detail, Witness: witness})
}

func (r *Reporter) Counter(prop, name string, n int64) {
	if n == 0 {
		return
	}
	r.write(record{Type: "counter", Prop: prop, Name: name, N: n})
}

func (r *Reporter) Inconclusive(prop, caseID, why string) {
	r.write(record{Type: "inconclusive", Prop: prop, Case: caseID, Detail: why})
}

func (r *Reporter) Note(prop, text string) { r.write(record{Type: "note", Prop: prop, Detail: text}) }

// ---------------------------------------------------------------------------------------------

func Tier() string {
	if t := os.Getenv("VERIF_TIER"); t == "thorough" {
		return "thorough"
	}
	return "quick"
}

func Thorough() bool { return Tier() == "thorough" }

func Seed() int64 {
	if s := os.Getenv("VERIF_SEED"); s != "" {
		if n, err := strconv.ParseInt(s, 10, 64); err == nil {
			return n
		}
	}
	return 1
}

// Rand returns a PRNG determined by VERIF_SEED and a per-use salt.
func Rand(salt string) *rand.Rand {
	h := sha1.Sum([]byte(fmt.Sprintf("%d/%s", Seed(), salt)))
	var n int64
	for i := 0; i < 8; i++ {
		n = n<<8 | int64(h[i])
	}
	return rand.New(rand.NewSource(n))
}

// Pick returns quick or thorough depending on the tier.
func Pick(quick, thorough int) int {
	if Thorough() {
		return thorough
	}
	return quick
}

// ReplayCase returns the case id to replay ("" = run everything).
func ReplayCase() string { return os.Getenv("VERIF_REPLAY_CASE") }

// WantCase tells whether a case should run under the current replay filter.
func WantCase(id string) bool {
	rc := ReplayCase()
	return rc == "" || rc == id
}

func Hash(v interface{}) string {
	data, err := json.Marshal(v)
	if err != nil {
		data = []byte(fmt.Sprintf("%#v", v))
	}
	h := sha1.Sum(data)
	return hex.EncodeToString(h[:8])
}

// Guard runs fn and converts a panic into a (stack, true) result.
func Guard(fn func()) (panicMsg string, panicked bool) {
	defer func() {
		if r := recover(); r != nil {
			panicked = true
			panicMsg = fmt.Sprintf("%v\n%s", r, trimStack(string(debug.Stack())))
		}
	}()
	fn()
	return "", false
}

func trimStack(s string) string {
	lines := strings.Split(s, "\n")
	if len(lines) > 60 {
		lines = lines[:60]
	}
	return strings.Join(lines, "\n")
}

// PanicSite extracts the first metacontroller frame of a panic stack as a stable signature.
func PanicSite(stack string) string {
	lines := strings.Split(stack, "\n")
	seenPanic := false
	for _, l := range lines {
		t := strings.TrimSpace(l)
		if strings.HasPrefix(t, "panic(") {
			seenPanic = true
			continue
		}
		if !seenPanic {
			continue
		}
		if strings.HasPrefix(t, "metacontroller/pkg/") && !strings.Contains(t, "verifsim") && !strings.Contains(t, "zz_verif") {
			if i := strings.Index(t, "("); i > 0 {
				t = t[:i]
			}
			// strip closure suffixes
			return strings.TrimSuffix(t, ".func1")
		}
	}
	return "unknown"
}
