//go:build verif

package verifsim

import (
	"sort"
)

// Hook programs: deterministic, side-effect-free functions from a hook request to a hook
// response, driven by the parent's spec. They mirror the shipped examples (fixed set of children,
// StatefulSet-like ordered creation as in examples/catset, status computed from observed
// children, finalize hooks that tear children down step by step). Purity is what lets the
// oracles re-evaluate the same program outside metacontroller.
//
// Parent spec understood by Expand:
//   spec.childLabels   labels stamped on every desired child
//   spec.template.rev  "revisioned" value copied into every child
//   spec.extra         "non-revisioned" value copied into every child
//   spec.mode          "fixed" (default) | "ordered"
//   spec.kids[]        {apiVersion, kind, name, ns?, value, metaExtra?{...copied into metadata}, status?(copied as the child's status)}
//   spec.statusExtra   copied verbatim into the returned status
//   spec.rawStatus     returned as the status as-is; spec.nullStatus / spec.omitStatus: null / no status
//   spec.echoAnnotations true: every desired child also carries the annotations of the child observed under its name
//   spec.resyncAfter   number: answered as resyncAfterSeconds (spec.template.resyncAfter: revisioned variant)
//   spec.template.finalize  overrides spec.finalize per parent revision; "keep" = finalized at once, children stay
//   spec.finalize      "all" (default: drop everything at once) | "step" (one child per call)

// KidSpec builds one spec.kids entry.
func KidSpec(ri ResourceInfo, ns, name, value string) Obj {
	k := Obj{"apiVersion": ri.APIVersion(), "kind": ri.Kind, "name": name, "value": value}
	if ns != "" {
		k["ns"] = ns
	}
	return k
}

// BuildChild is the desired child for one kid entry.
func BuildChild(kid Obj, labels map[string]interface{}, rev, extra string) Obj {
	apiVersion, _ := kid["apiVersion"].(string)
	kind, _ := kid["kind"].(string)
	name, _ := kid["name"].(string)
	value, _ := kid["value"].(string)
	m := Obj{"name": name}
	if ns, _ := kid["ns"].(string); ns != "" {
		m["namespace"] = ns
	}
	if len(labels) > 0 {
		l := Obj{}
		for k, v := range labels {
			l[k] = v
		}
		m["labels"] = l
	}
	// every desired child carries an annotation of the hook's own (metadata the hook specifies
	// besides the labels that matter for claiming)
	m["annotations"] = Obj{"hook-note": "note-" + value}
	if extra, ok := kid["metaExtra"].(map[string]interface{}); ok {
		for k, v := range extra {
			m[k] = DeepCopyValue(v)
		}
	}
	child := Obj{"apiVersion": apiVersion, "kind": kind, "metadata": m}
	if st, ok := kid["status"]; ok {
		// a hook that returns children with a status block (a template taken from a live object)
		child["status"] = DeepCopyValue(st)
	}
	switch kind {
	case "ConfigMap", "Secret":
		d := Obj{"value": value}
		if rev != "" {
			d["rev"] = rev
		}
		if extra != "" {
			d["extra"] = extra
		}
		child["data"] = d
	default:
		sp := Obj{"value": value, "ports": []interface{}{Obj{"name": "main", "port": int64(80)}}}
		if rev != "" {
			sp["rev"] = rev
		}
		if extra != "" {
			sp["extra"] = extra
		}
		child["spec"] = sp
	}
	return child
}

// observedIndex flattens the children/attachments map of a request: "Kind.apiVersion" -> name -> object.
func observedIndex(req Obj, field string) map[string]map[string]Obj {
	out := map[string]map[string]Obj{}
	groups, _ := req[field].(map[string]interface{})
	for gk, g := range groups {
		gm, _ := g.(map[string]interface{})
		out[gk] = map[string]Obj{}
		for n, o := range gm {
			if om, ok := o.(map[string]interface{}); ok {
				out[gk][n] = om
			}
		}
	}
	return out
}

func childReady(o Obj) bool {
	v, _ := Nested(o, "status", "ready")
	b, _ := v.(bool)
	return b
}

// relName is the key under which a desired kid shows up in the observed map.
func relName(parent Obj, kid Obj) string {
	name, _ := kid["name"].(string)
	ns, _ := kid["ns"].(string)
	if NS(parent) == "" && ns != "" {
		return ns + "/" + name
	}
	return name
}

// Expand is the generic program. root is "parent"/"children" for composite requests and
// "object"/"attachments" for decorator requests.
func Expand(req Obj, rootField, childrenField, responseChildrenField string) Obj {
	resp := expandCore(req, rootField, childrenField, responseChildrenField)
	parent, _ := req[rootField].(map[string]interface{})
	if echo, _ := Nested(parent, "spec", "echoAnnotations"); echo == true {
		// a hook that builds each desired child from the child it observed: whatever annotations the
		// observed child carries (metacontroller's own last-applied record among them) come back in
		// the desired child, under the annotations the hook sets itself
		observed := observedIndex(req, childrenField)
		list, _ := resp[responseChildrenField].([]interface{})
		for _, c := range list {
			child, _ := c.(map[string]interface{})
			if child == nil {
				continue
			}
			apiVersion, _ := child["apiVersion"].(string)
			kind, _ := child["kind"].(string)
			name := Name(child)
			if NS(parent) == "" && NS(child) != "" {
				name = NS(child) + "/" + name
			}
			obs := observed[kind+"."+apiVersion][name]
			if obs == nil {
				continue
			}
			m, _ := child["metadata"].(map[string]interface{})
			own, _ := m["annotations"].(map[string]interface{})
			merged := Obj{}
			for k, v := range Annotations(obs) {
				merged[k] = v
			}
			for k, v := range own {
				merged[k] = v
			}
			m["annotations"] = merged
		}
	}
	return resp
}

func expandCore(req Obj, rootField, childrenField, responseChildrenField string) Obj {
	parent, _ := req[rootField].(map[string]interface{})
	observed := observedIndex(req, childrenField)
	spec, _ := parent["spec"].(map[string]interface{})
	labels, _ := spec["childLabels"].(map[string]interface{})
	rev := NestedString(parent, "spec", "template", "rev")
	extra := NestedString(parent, "spec", "extra")
	mode, _ := spec["mode"].(string)
	kids, _ := spec["kids"].([]interface{})
	finalizing, _ := req["finalizing"].(bool)

	nObserved, nReady := 0, 0
	for _, g := range observed {
		for _, o := range g {
			nObserved++
			if childReady(o) {
				nReady++
			}
		}
	}
	status := Obj{"kids": int64(nObserved), "ready": int64(nReady)}
	if se, ok := spec["statusExtra"].(map[string]interface{}); ok {
		for k, v := range se {
			status[k] = DeepCopyValue(v)
		}
	}
	resp := Obj{"status": status}
	if ra, ok := Nested(spec, "template", "resyncAfter"); ok {
		resp["resyncAfterSeconds"] = ra // revisioned variant
	} else if ra, ok := spec["resyncAfter"]; ok {
		// a polling hook: asks to be called again after so many seconds (every answer, every revision)
		resp["resyncAfterSeconds"] = ra
	}
	if raw, ok := spec["rawStatus"]; ok {
		resp["status"] = DeepCopyValue(raw) // exactly this status, whatever it is
	}
	if ns, _ := spec["nullStatus"].(bool); ns {
		resp["status"] = nil
	}
	if om, _ := spec["omitStatus"].(bool); om {
		delete(resp, "status")
	}
	children := []interface{}{}

	if finalizing {
		fin, _ := spec["finalize"].(string)
		if tf, ok := Nested(spec, "template", "finalize"); ok {
			// a finalize decision that depends on a revisioned field: during a rolling update the
			// per-revision finalize calls may disagree
			fin, _ = tf.(string)
		}
		if fin == "keep" {
			// finalized at once, every child stays desired
			for _, k := range kids {
				if kid, _ := k.(map[string]interface{}); kid != nil {
					children = append(children, BuildChild(kid, labels, rev, extra))
				}
			}
			resp[responseChildrenField] = children
			resp["finalized"] = true
			return resp
		}
		if fin == "step" && nObserved > 0 {
			// keep everything observed except the alphabetically last one
			type ent struct {
				gk, name string
				o        Obj
			}
			var all []ent
			for gk, g := range observed {
				for n, o := range g {
					all = append(all, ent{gk, n, o})
				}
			}
			sort.Slice(all, func(i, j int) bool { return all[i].gk+"/"+all[i].name < all[j].gk+"/"+all[j].name })
			for _, e := range all[:len(all)-1] {
				// re-state the desired form of the kept child from spec.kids
				for _, k := range kids {
					kid, _ := k.(map[string]interface{})
					if kid == nil {
						continue
					}
					gk := kid["kind"].(string) + "." + kid["apiVersion"].(string)
					if gk == e.gk && relName(parent, kid) == e.name {
						children = append(children, BuildChild(kid, labels, rev, extra))
					}
				}
			}
		}
		if fin == "eager" {
			// nothing to wait for: no children desired any more and finalized right away, whatever
			// is still observed
			resp[responseChildrenField] = children
			resp["finalized"] = true
			return resp
		}
		if fin == "hold" {
			// finalization that does not finish yet: everything stays desired, never finalized
			for _, k := range kids {
				if kid, _ := k.(map[string]interface{}); kid != nil {
					children = append(children, BuildChild(kid, labels, rev, extra))
				}
			}
			resp[responseChildrenField] = children
			resp["finalized"] = false
			return resp
		}
		resp[responseChildrenField] = children
		resp["finalized"] = nObserved == 0
		return resp
	}

	allPrevReady := true
	for _, k := range kids {
		kid, _ := k.(map[string]interface{})
		if kid == nil {
			continue
		}
		if mode == "ordered" {
			if !allPrevReady {
				break
			}
			gk := kid["kind"].(string) + "." + kid["apiVersion"].(string)
			o := observed[gk][relName(parent, kid)]
			if o == nil || !childReady(o) {
				allPrevReady = false
			}
		}
		children = append(children, BuildChild(kid, labels, rev, extra))
	}
	resp[responseChildrenField] = children
	return resp
}

func CompositeProgram(req Obj) Obj { return Expand(req, "parent", "children", "children") }
func DecoratorProgram(req Obj) Obj { return Expand(req, "object", "attachments", "attachments") }

func DeepCopyValue(v interface{}) interface{} {
	switch t := v.(type) {
	case map[string]interface{}:
		return DeepCopy(t)
	case []interface{}:
		out := make([]interface{}, len(t))
		for i := range t {
			out[i] = DeepCopyValue(t[i])
		}
		return out
	}
	return v
}

// SpecifiedLeaves lists every leaf path/value of a desired object (what "every field the hook
// specified" means), skipping apiVersion/kind/name/namespace which identify rather than specify.
func SpecifiedLeaves(o Obj) map[string]interface{} {
	out := map[string]interface{}{}
	var walk func(prefix string, v interface{})
	walk = func(prefix string, v interface{}) {
		switch t := v.(type) {
		case map[string]interface{}:
			for k, vv := range t {
				walk(prefix+"/"+k, vv)
			}
		case []interface{}:
			// lists: name-keyed items are compared by key, others as a whole
			allNamed := len(t) > 0
			for _, it := range t {
				m, ok := it.(map[string]interface{})
				if !ok {
					allNamed = false
					break
				}
				if _, ok := m["name"].(string); !ok {
					allNamed = false
					break
				}
			}
			if allNamed {
				for _, it := range t {
					m := it.(map[string]interface{})
					walk(prefix+"["+m["name"].(string)+"]", m)
				}
			} else {
				out[prefix] = t
			}
		default:
			out[prefix] = v
		}
	}
	for k, v := range o {
		switch k {
		case "apiVersion", "kind":
			continue
		case "status":
			// status belongs to the child's own controller: apply leaves it exactly as observed (C05)
			continue
		case "metadata":
			m, _ := v.(map[string]interface{})
			for mk, mv := range m {
				if mk == "name" || mk == "namespace" {
					continue
				}
				walk("/metadata/"+mk, mv)
			}
		default:
			walk("/"+k, v)
		}
	}
	// metacontroller's own last-applied record is not a field a hook can specify: when a hook echoes
	// it back it is dropped from the desired object (documented), and the record is rewritten
	delete(out, "/metadata/annotations/metacontroller.k8s.io/last-applied-configuration")
	return out
}

// LeafValue looks a path produced by SpecifiedLeaves up in a stored object.
func LeafValue(o Obj, path string) (interface{}, bool) {
	var cur interface{} = o
	i := 0
	for i < len(path) {
		if path[i] != '/' {
			return nil, false
		}
		j := i + 1
		for j < len(path) && path[j] != '/' {
			j++
		}
		seg := path[i+1 : j]
		i = j
		key := ""
		if b := indexByte(seg, '['); b >= 0 && seg[len(seg)-1] == ']' {
			key = seg[b+1 : len(seg)-1]
			seg = seg[:b]
		}
		m, ok := cur.(map[string]interface{})
		if !ok {
			return nil, false
		}
		cur, ok = m[seg]
		if !ok {
			return nil, false
		}
		if key != "" {
			l, ok := cur.([]interface{})
			if !ok {
				return nil, false
			}
			found := false
			for _, it := range l {
				if im, ok := it.(map[string]interface{}); ok {
					if n, _ := im["name"].(string); n == key {
						cur = im
						found = true
						break
					}
				}
			}
			if !found {
				return nil, false
			}
		}
	}
	return cur, true
}

func indexByte(s string, c byte) int {
	for i := 0; i < len(s); i++ {
		if s[i] == c {
			return i
		}
	}
	return -1
}
