//go:build verif

package verifsim

import (
	"bytes"
	"context"
	"fmt"
	"io"
	"net/http"
	"strings"
	"sync"
	"sync/atomic"
	"time"

	kjson "k8s.io/apimachinery/pkg/util/json"
)

// The webhook side. http.DefaultTransport is replaced (in the test process only) by a router that
// serves http://hook.sim/<site>/<path> in-process, so the real hooks.NewWebhookExecutor ->
// metrics-instrumented http.Client -> JSON encode/decode path runs unchanged.

const HookHost = "hook.sim"

type HookCall struct {
	Seq     int64 // logical time the request arrived
	EndSeq  int64 // logical time the response was handed back
	Site    string
	Path    string
	Tag     string
	Header  http.Header
	ReqRaw  []byte
	Req     Obj
	Status  int
	RespHdr map[string]string
	RespRaw []byte
	Err     string
	// Ctx is the context of the HTTP request (it carries the deadline the caller's http.Client set);
	// Arrived is the wall-clock time the request reached the router (only compared with that deadline)
	Ctx     context.Context `json:"-"`
	Arrived time.Time       `json:"-"`
}

type HookResponse struct {
	Status int
	Header map[string]string
	Body   []byte
	Err    error // transport-level failure (connection refused, timeout, ...)
}

type HookHandler func(call *HookCall) HookResponse

type HookSite struct {
	ID    string
	clock *int64
	tagFn func() string

	mu       sync.Mutex
	calls    []*HookCall
	handlers map[string]HookHandler
	gate     func(call *HookCall)
	override func(call *HookCall) *HookResponse
	observer func(call *HookCall)
	inflight int64
}

type hookRouter struct {
	mu    sync.RWMutex
	sites map[string]*HookSite
}

var (
	router      = &hookRouter{sites: map[string]*HookSite{}}
	installOnce sync.Once
	siteCounter int64
)

// The in-process router takes the place of http.DefaultTransport when the package is loaded,
// i.e. before any test goroutine exists (client-go reads that variable concurrently).
func init() { InstallHookTransport() }

// InstallHookTransport replaces http.DefaultTransport with the in-process router (idempotent).
func InstallHookTransport() {
	installOnce.Do(func() { http.DefaultTransport = router })
}

func (r *hookRouter) RoundTrip(req *http.Request) (*http.Response, error) {
	if req.URL.Host != HookHost {
		return nil, fmt.Errorf("dial tcp %s: connect: connection refused (sealed sandbox)", req.URL.Host)
	}
	parts := strings.SplitN(strings.TrimPrefix(req.URL.Path, "/"), "/", 2)
	r.mu.RLock()
	site := r.sites[parts[0]]
	r.mu.RUnlock()
	if site == nil {
		if req.Body != nil {
			req.Body.Close()
		}
		return nil, fmt.Errorf("dial tcp %s: connect: connection refused (no such hook site %q)", req.URL.Host, parts[0])
	}
	path := ""
	if len(parts) > 1 {
		path = parts[1]
	}
	return site.serve(req, path)
}

func NewHookSite(clock *int64, tagFn func() string) *HookSite {
	InstallHookTransport()
	id := fmt.Sprintf("s%d", atomic.AddInt64(&siteCounter, 1))
	h := &HookSite{ID: id, clock: clock, tagFn: tagFn, handlers: map[string]HookHandler{}}
	router.mu.Lock()
	router.sites[id] = h
	router.mu.Unlock()
	return h
}

func (h *HookSite) Close() {
	router.mu.Lock()
	delete(router.sites, h.ID)
	router.mu.Unlock()
}

func (h *HookSite) URL(path string) string { return "http://" + HookHost + "/" + h.ID + "/" + path }

func (h *HookSite) Handle(path string, fn HookHandler) {
	h.mu.Lock()
	h.handlers[path] = fn
	h.mu.Unlock()
}

// HandleJSON installs a hook program: a pure function from the decoded request to a response object.
func (h *HookSite) HandleJSON(path string, fn func(req Obj) Obj) {
	h.Handle(path, func(call *HookCall) HookResponse {
		resp := fn(call.Req)
		data, err := kjson.Marshal(resp)
		if err != nil {
			return HookResponse{Status: 500, Body: []byte(err.Error())}
		}
		return HookResponse{Status: 200, Body: data}
	})
}

// SetGate installs a callback run when a call arrives, before the handler (schedule control).
func (h *HookSite) SetGate(fn func(call *HookCall)) {
	h.mu.Lock()
	h.gate = fn
	h.mu.Unlock()
}

// SetObserver installs a monitor that is shown every call when it arrives (before any gate).
func (h *HookSite) SetObserver(fn func(call *HookCall)) {
	h.mu.Lock()
	h.observer = fn
	h.mu.Unlock()
}

// SetOverride installs a fault plan: a non-nil result replaces the handler's answer.
func (h *HookSite) SetOverride(fn func(call *HookCall) *HookResponse) {
	h.mu.Lock()
	h.override = fn
	h.mu.Unlock()
}

func (h *HookSite) InFlight() int64 { return atomic.LoadInt64(&h.inflight) }

func (h *HookSite) Mark() int {
	h.mu.Lock()
	defer h.mu.Unlock()
	return len(h.calls)
}

func (h *HookSite) Since(mark int) []*HookCall {
	h.mu.Lock()
	defer h.mu.Unlock()
	// snapshots, not the live records: serve() completes a record (EndSeq, Status, ...) under the
	// lock after the call was answered, and observers read them while calls are in flight
	out := make([]*HookCall, 0, len(h.calls)-mark)
	for _, c := range h.calls[mark:] {
		cc := *c
		out = append(out, &cc)
	}
	return out
}

func (h *HookSite) Calls() []*HookCall { return h.Since(0) }

func (h *HookSite) serve(req *http.Request, path string) (*http.Response, error) {
	atomic.AddInt64(&h.inflight, 1)
	defer atomic.AddInt64(&h.inflight, -1)
	var raw []byte
	if req.Body != nil {
		raw, _ = io.ReadAll(req.Body)
		req.Body.Close()
	}
	call := &HookCall{Seq: atomic.AddInt64(h.clock, 1), Site: h.ID, Path: path, Header: req.Header.Clone(), ReqRaw: raw, Ctx: req.Context(), Arrived: time.Now()}
	if h.tagFn != nil {
		call.Tag = h.tagFn()
	}
	_ = kjson.Unmarshal(raw, &call.Req)
	h.mu.Lock()
	h.calls = append(h.calls, call)
	handler := h.handlers[path]
	gate, override, observer := h.gate, h.override, h.observer
	h.mu.Unlock()
	if observer != nil {
		observer(call) // monitors look at the world as it is when the call arrives
	}
	if gate != nil {
		gate(call)
	}
	var resp HookResponse
	var ov *HookResponse
	if override != nil {
		ov = override(call)
	}
	switch {
	case ov != nil:
		resp = *ov
	case handler == nil:
		resp = HookResponse{Status: 404, Body: []byte("no handler for " + path)}
	default:
		resp = handler(call)
	}
	end := atomic.AddInt64(h.clock, 1)
	h.mu.Lock()
	call.EndSeq = end
	call.Status = resp.Status
	call.RespHdr = resp.Header
	call.RespRaw = resp.Body
	if resp.Err != nil {
		call.Err = resp.Err.Error()
	}
	h.mu.Unlock()
	if resp.Err != nil {
		return nil, resp.Err
	}
	hdr := http.Header{}
	if len(resp.Body) > 0 {
		hdr.Set("Content-Type", "application/json")
	}
	for k, v := range resp.Header {
		hdr.Set(k, v)
	}
	return &http.Response{
		StatusCode:    resp.Status,
		Status:        fmt.Sprintf("%d %s", resp.Status, http.StatusText(resp.Status)),
		Proto:         "HTTP/1.1",
		ProtoMajor:    1,
		ProtoMinor:    1,
		Header:        hdr,
		Body:          io.NopCloser(bytes.NewReader(resp.Body)),
		ContentLength: int64(len(resp.Body)),
		Request:       req,
	}, nil
}
