//go:build verif

package verifsim

import (
	"context"
	"testing"
	"time"

	apierrors "k8s.io/apimachinery/pkg/api/errors"
	metav1 "k8s.io/apimachinery/pkg/apis/meta/v1"
	"k8s.io/apimachinery/pkg/apis/meta/v1/unstructured"
	"k8s.io/apimachinery/pkg/runtime/schema"
	"k8s.io/apimachinery/pkg/types"
	"k8s.io/client-go/discovery"
	"k8s.io/client-go/dynamic"
	"k8s.io/client-go/dynamic/dynamicinformer"
	"k8s.io/client-go/tools/cache"
)

// Tests of the simulator itself against the documented behaviour of a real API server.

var (
	thingInfo = ResourceInfo{Group: "ex.dev", Version: "v1", Resource: "things", Kind: "Thing", Namespaced: true, HasStatus: true}
	cmInfo    = ResourceInfo{Group: "", Version: "v1", Resource: "configmaps", Kind: "ConfigMap", Namespaced: true, NoGeneration: true}
	nodeInfo  = ResourceInfo{Group: "", Version: "v1", Resource: "nodes", Kind: "Node", Namespaced: false, HasStatus: true, NoGeneration: true}
)

func newThing(ns, name string) *unstructured.Unstructured {
	return &unstructured.Unstructured{Object: Obj{
		"apiVersion": "ex.dev/v1", "kind": "Thing",
		"metadata": Obj{"name": name, "namespace": ns, "labels": Obj{"a": "b"}},
		"spec":     Obj{"x": int64(1)},
		"status":   Obj{"ignored": true},
	}}
}

func TestSimDiscovery(t *testing.T) {
	s := NewServer()
	s.Register(thingInfo, cmInfo, nodeInfo)
	dc, err := discovery.NewDiscoveryClientForConfig(s.RESTConfig())
	if err != nil {
		t.Fatal(err)
	}
	_, lists, err := dc.ServerGroupsAndResources()
	if err != nil {
		t.Fatal(err)
	}
	found := map[string]bool{}
	for _, l := range lists {
		for _, r := range l.APIResources {
			found[l.GroupVersion+":"+r.Name] = true
		}
	}
	for _, want := range []string{"v1:configmaps", "v1:nodes", "v1:nodes/status", "ex.dev/v1:things", "ex.dev/v1:things/status"} {
		if !found[want] {
			t.Errorf("discovery misses %s: %v", want, found)
		}
	}
}

func TestSimCRUD(t *testing.T) {
	s := NewServer()
	s.Register(thingInfo, cmInfo, nodeInfo)
	dyn, err := dynamic.NewForConfig(s.RESTConfig())
	if err != nil {
		t.Fatal(err)
	}
	ctx := context.TODO()
	things := dyn.Resource(thingInfo.GVR()).Namespace("ns1")

	created, err := things.Create(ctx, newThing("ns1", "a"), metav1.CreateOptions{})
	if err != nil {
		t.Fatal(err)
	}
	if created.GetUID() == "" || created.GetResourceVersion() == "" || created.GetGeneration() != 1 {
		t.Errorf("system fields not set: %v", created.Object)
	}
	if _, has := created.Object["status"]; has {
		t.Errorf("status must be dropped on create for a resource with status subresource")
	}
	if _, err := things.Create(ctx, newThing("ns1", "a"), metav1.CreateOptions{}); !apierrors.IsAlreadyExists(err) {
		t.Errorf("want AlreadyExists, got %v", err)
	}
	if _, err := things.Get(ctx, "nope", metav1.GetOptions{}); !apierrors.IsNotFound(err) {
		t.Errorf("want NotFound, got %v", err)
	}

	// identical update is a no-op
	rv := created.GetResourceVersion()
	same, err := things.Update(ctx, created.DeepCopy(), metav1.UpdateOptions{})
	if err != nil || same.GetResourceVersion() != rv {
		t.Errorf("identical update must be a no-op: %v rv %s -> %s", err, rv, same.GetResourceVersion())
	}
	// spec change bumps generation; status ignored on main endpoint
	upd := created.DeepCopy()
	unstructured.SetNestedField(upd.Object, int64(2), "spec", "x")
	unstructured.SetNestedField(upd.Object, "zzz", "status", "phase")
	upd2, err := things.Update(ctx, upd, metav1.UpdateOptions{})
	if err != nil {
		t.Fatal(err)
	}
	if upd2.GetGeneration() != 2 {
		t.Errorf("generation want 2 got %d", upd2.GetGeneration())
	}
	if _, has := upd2.Object["status"]; has {
		t.Errorf("main endpoint must ignore status")
	}
	// stale rv -> conflict
	if _, err := things.Update(ctx, upd, metav1.UpdateOptions{}); !apierrors.IsConflict(err) {
		t.Errorf("want Conflict, got %v", err)
	}
	// status endpoint takes only status
	st := upd2.DeepCopy()
	unstructured.SetNestedField(st.Object, "Ready", "status", "phase")
	unstructured.SetNestedField(st.Object, int64(99), "spec", "x")
	st.SetLabels(map[string]string{"evil": "1"})
	st2, err := things.UpdateStatus(ctx, st, metav1.UpdateOptions{})
	if err != nil {
		t.Fatal(err)
	}
	if x, _, _ := unstructured.NestedInt64(st2.Object, "spec", "x"); x != 2 {
		t.Errorf("status endpoint changed spec: %d", x)
	}
	if st2.GetLabels()["evil"] != "" {
		t.Errorf("status endpoint changed labels")
	}
	if st2.GetGeneration() != 2 {
		t.Errorf("status update bumped generation")
	}
	// label-only change does not bump generation
	lab := st2.DeepCopy()
	lab.SetLabels(map[string]string{"a": "c"})
	lab2, err := things.Update(ctx, lab, metav1.UpdateOptions{})
	if err != nil || lab2.GetGeneration() != 2 {
		t.Errorf("label change: err %v gen %d", err, lab2.GetGeneration())
	}
	// wrong uid -> conflict
	wrong := lab2.DeepCopy()
	wrong.SetUID("other")
	wrong.SetResourceVersion("")
	if _, err := things.Update(ctx, wrong, metav1.UpdateOptions{}); !apierrors.IsConflict(err) {
		t.Errorf("want Conflict on uid mismatch, got %v", err)
	}

	// two controller refs -> 422
	two := newThing("ns1", "two")
	tr := true
	two.SetOwnerReferences([]metav1.OwnerReference{
		{APIVersion: "v1", Kind: "X", Name: "x", UID: "u1", Controller: &tr},
		{APIVersion: "v1", Kind: "X", Name: "y", UID: "u2", Controller: &tr},
	})
	if _, err := things.Create(ctx, two, metav1.CreateOptions{}); !apierrors.IsInvalid(err) {
		t.Errorf("want Invalid for two controller refs, got %v", err)
	}

	// delete preconditions
	bad := types.UID("nope")
	if err := things.Delete(ctx, "a", metav1.DeleteOptions{Preconditions: &metav1.Preconditions{UID: &bad}}); !apierrors.IsConflict(err) {
		t.Errorf("want Conflict on uid precondition, got %v", err)
	}
	// finalizers
	fin := lab2.DeepCopy()
	fin.SetFinalizers([]string{"x/y"})
	fin2, err := things.Update(ctx, fin, metav1.UpdateOptions{})
	if err != nil {
		t.Fatal(err)
	}
	uid := fin2.GetUID()
	if err := things.Delete(ctx, "a", metav1.DeleteOptions{Preconditions: &metav1.Preconditions{UID: &uid}}); err != nil {
		t.Fatal(err)
	}
	del, err := things.Get(ctx, "a", metav1.GetOptions{})
	if err != nil || del.GetDeletionTimestamp() == nil {
		t.Fatalf("object with finalizer must stay with deletionTimestamp: %v %v", err, del)
	}
	addf := del.DeepCopy()
	addf.SetFinalizers([]string{"x/y", "new/one"})
	if _, err := things.Update(ctx, addf, metav1.UpdateOptions{}); !apierrors.IsInvalid(err) {
		t.Errorf("want Invalid when adding finalizer to deleting object, got %v", err)
	}
	rem := del.DeepCopy()
	rem.SetFinalizers(nil)
	if _, err := things.Update(ctx, rem, metav1.UpdateOptions{}); err != nil {
		t.Fatal(err)
	}
	if _, err := things.Get(ctx, "a", metav1.GetOptions{}); !apierrors.IsNotFound(err) {
		t.Errorf("object must be gone after last finalizer removed, got %v", err)
	}

	// json patch / merge patch
	cms := dyn.Resource(cmInfo.GVR()).Namespace("ns1")
	cm := &unstructured.Unstructured{Object: Obj{"apiVersion": "v1", "kind": "ConfigMap", "metadata": Obj{"name": "c", "annotations": Obj{"k/x.y": "v", "o": "p"}}, "data": Obj{"a": "1"}}}
	if _, err := cms.Create(ctx, cm, metav1.CreateOptions{}); err != nil {
		t.Fatal(err)
	}
	p, err := cms.Patch(ctx, "c", types.JSONPatchType, []byte(`[{"op":"remove","path":"/metadata/annotations/k~1x.y"}]`), metav1.PatchOptions{})
	if err != nil {
		t.Fatal(err)
	}
	if _, has := p.GetAnnotations()["k/x.y"]; has {
		t.Errorf("json patch did not remove annotation")
	}
	if p.GetGeneration() != 0 {
		t.Errorf("configmap must not have generation")
	}
	// cluster scoped
	nodes := dyn.Resource(nodeInfo.GVR())
	if _, err := nodes.Create(ctx, &unstructured.Unstructured{Object: Obj{"apiVersion": "v1", "kind": "Node", "metadata": Obj{"name": "n1"}}}, metav1.CreateOptions{}); err != nil {
		t.Fatal(err)
	}
	l, err := nodes.List(ctx, metav1.ListOptions{})
	if err != nil || len(l.Items) != 1 {
		t.Errorf("list nodes: %v %d", err, len(l.Items))
	}
}

func TestSimApply(t *testing.T) {
	s := NewServer()
	s.Register(thingInfo, cmInfo)
	dyn, _ := dynamic.NewForConfig(s.RESTConfig())
	ctx := context.TODO()
	cms := dyn.Resource(cmInfo.GVR()).Namespace("ns1")
	force := true
	apply := func(body string) (*unstructured.Unstructured, error) {
		return cms.Patch(ctx, "c", types.ApplyPatchType, []byte(body), metav1.PatchOptions{FieldManager: "mc", Force: &force})
	}
	a, err := apply(`{"apiVersion":"v1","kind":"ConfigMap","metadata":{"name":"c","namespace":"ns1","labels":{"l":"1"}},"data":{"a":"1","b":"2"}}`)
	if err != nil {
		t.Fatal(err)
	}
	if a.GetUID() == "" {
		t.Errorf("apply must create")
	}
	rv := a.GetResourceVersion()
	b, err := apply(`{"apiVersion":"v1","kind":"ConfigMap","metadata":{"name":"c","namespace":"ns1","labels":{"l":"1"}},"data":{"a":"1","b":"2"}}`)
	if err != nil || b.GetResourceVersion() != rv {
		t.Errorf("identical apply must be a no-op: %v %s -> %s", err, rv, b.GetResourceVersion())
	}
	// someone else adds a field
	if _, err := s.ExtMutate(cmInfo.GVR(), "ns1", "c", func(o Obj) { o["data"].(Obj)["other"] = "x" }); err != nil {
		t.Fatal(err)
	}
	// drop b, change a
	c, err := apply(`{"apiVersion":"v1","kind":"ConfigMap","metadata":{"name":"c","namespace":"ns1","labels":{"l":"1"}},"data":{"a":"9"}}`)
	if err != nil {
		t.Fatal(err)
	}
	data, _, _ := unstructured.NestedStringMap(c.Object, "data")
	if data["a"] != "9" || data["other"] != "x" {
		t.Errorf("apply result wrong: %v", data)
	}
	if _, has := data["b"]; has {
		t.Errorf("field no longer applied must be removed: %v", data)
	}
	// the other writer changes our field; forced apply takes it back
	if _, err := s.ExtMutate(cmInfo.GVR(), "ns1", "c", func(o Obj) { o["data"].(Obj)["a"] = "stolen" }); err != nil {
		t.Fatal(err)
	}
	d, err := apply(`{"apiVersion":"v1","kind":"ConfigMap","metadata":{"name":"c","namespace":"ns1","labels":{"l":"1"}},"data":{"a":"9"}}`)
	if err != nil {
		t.Fatal(err)
	}
	data, _, _ = unstructured.NestedStringMap(d.Object, "data")
	if data["a"] != "9" {
		t.Errorf("forced apply must win: %v", data)
	}
}

func TestSimWatchInformer(t *testing.T) {
	s := NewServer()
	s.Register(thingInfo)
	dyn, _ := dynamic.NewForConfig(s.RESTConfig())
	gvr := thingInfo.GVR()
	s.MustCreate(gvr, newThing("ns1", "pre").Object)
	f := dynamicinformer.NewDynamicSharedInformerFactory(dyn, 0)
	inf := f.ForResource(gvr).Informer()
	events := make(chan string, 100)
	inf.AddEventHandler(cache.ResourceEventHandlerFuncs{
		AddFunc:    func(o interface{}) { events <- "add " + o.(*unstructured.Unstructured).GetName() },
		UpdateFunc: func(_, o interface{}) { events <- "upd " + o.(*unstructured.Unstructured).GetName() },
		DeleteFunc: func(o interface{}) {
			if ts, ok := o.(cache.DeletedFinalStateUnknown); ok {
				events <- "tomb " + ts.Key
				return
			}
			events <- "del " + o.(*unstructured.Unstructured).GetName()
		},
	})
	stop := make(chan struct{})
	defer close(stop)
	go inf.Run(stop)
	expect := func(want string) {
		t.Helper()
		select {
		case got := <-events:
			if got != want {
				t.Errorf("want event %q got %q", want, got)
			}
		case <-time.After(20 * time.Second):
			t.Fatalf("timeout waiting for %q", want)
		}
	}
	expect("add pre")
	s.MustCreate(gvr, newThing("ns1", "x").Object)
	expect("add x")
	s.ExtMutate(gvr, "ns1", "x", func(o Obj) { o["spec"].(Obj)["x"] = int64(5) })
	expect("upd x")
	// held watch: nothing arrives until released
	s.HoldWatch(gvr, true)
	s.ExtMutate(gvr, "ns1", "x", func(o Obj) { o["spec"].(Obj)["x"] = int64(6) })
	select {
	case e := <-events:
		t.Errorf("event %q delivered while watch held", e)
	case <-time.After(50 * time.Millisecond):
	}
	s.HoldWatch(gvr, false)
	expect("upd x")
	if s.OpenWatches(gvr) != 1 {
		t.Errorf("want one open watch, have %d", s.OpenWatches(gvr))
	}
	// drop + compaction + delete while down => tombstone after relist
	s.HoldWatch(gvr, true)
	s.ExtDelete(gvr, "ns1", "x", "")
	s.DropWatches(gvr, true)
	s.HoldWatch(gvr, false)
	deadline := time.After(20 * time.Second)
	for {
		select {
		case got := <-events:
			if got == "tomb ns1/x" {
				return
			}
			if got != "upd pre" {
				t.Errorf("unexpected event after relist: %q", got)
			}
		case <-deadline:
			t.Fatalf("no tombstone after relist")
		}
	}
}

var _ = schema.GroupVersionResource{}
