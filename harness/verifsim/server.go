//go:build verif

// Package verifsim is the simulated world that surrounds the real metacontroller code in the
// /verif runtime-monitoring harness: an in-memory Kubernetes API server behind an
// http.RoundTripper (this file), an in-process webhook server (hooks.go), recorders and oracles.
// It exists only in the go build overlay of /verif; it is not part of metacontroller.
package verifsim

import (
	"bytes"
	"fmt"
	"io"
	"net/http"
	"net/url"
	"reflect"
	goruntime "runtime"
	"sort"
	"strconv"
	"strings"
	"sync"
	"sync/atomic"

	jsonpatch "github.com/evanphx/json-patch/v5"
	apierrors "k8s.io/apimachinery/pkg/api/errors"
	metav1 "k8s.io/apimachinery/pkg/apis/meta/v1"
	"k8s.io/apimachinery/pkg/labels"
	"k8s.io/apimachinery/pkg/runtime"
	"k8s.io/apimachinery/pkg/runtime/schema"
	kjson "k8s.io/apimachinery/pkg/util/json"
	"k8s.io/client-go/rest"
)

// Obj is a JSON object as the API server stores it.
type Obj = map[string]interface{}

// ResourceInfo describes one API resource served by the simulator.
type ResourceInfo struct {
	Group, Version, Resource, Kind string
	Namespaced                     bool
	HasStatus                      bool // status sub-resource enabled
	NoGeneration                   bool // core kinds such as ConfigMap never get metadata.generation
}

func (ri ResourceInfo) GVR() schema.GroupVersionResource {
	return schema.GroupVersionResource{Group: ri.Group, Version: ri.Version, Resource: ri.Resource}
}
func (ri ResourceInfo) APIVersion() string {
	if ri.Group == "" {
		return ri.Version
	}
	return ri.Group + "/" + ri.Version
}

// Request is one entry of the request log.
type Request struct {
	Seq     int64  // logical clock, shared with the hook log
	OpSeq   int64  // counts only non-list/watch requests of actor "mc" (fault / cut positions)
	Actor   string // "mc" = arrived through the transport, "ext" = workload side door
	Tag     string // bracket label set by the harness (which sync this belongs to)
	Verb    string // get list watch create update patch delete
	GVR     schema.GroupVersionResource
	NS      string
	Name    string
	Sub     string
	Query   map[string]string
	Body    interface{} // decoded request body (object, patch or DeleteOptions)
	Pre     Obj         // stored object before the request (nil if absent)
	Post    Obj         // stored object after the request (nil if absent / removed)
	Code    int
	Reason  string
	Fault   string // non-empty if a fault was injected on this request
	Applied bool   // the store changed (Post differs from Pre)
	GID     int64  // goroutine that issued the request (attribution in concurrent runs)
}

func (r *Request) Mutating() bool {
	switch r.Verb {
	case "create", "update", "patch", "delete":
		return true
	}
	return false
}

func (r *Request) OK() bool { return r.Code >= 200 && r.Code < 300 }

func (r *Request) String() string {
	sub := ""
	if r.Sub != "" {
		sub = "/" + r.Sub
	}
	f := ""
	if r.Fault != "" {
		f = " fault=" + r.Fault
	}
	return fmt.Sprintf("#%d %s %s %s %s/%s%s -> %d %s%s", r.Seq, r.Actor, r.Verb, r.GVR.Resource, r.NS, r.Name, sub, r.Code, r.Reason, f)
}

// ReqInfo is what gate and fault callbacks see before a request is processed.
type ReqInfo struct {
	Seq   int64
	OpSeq int64 // 0 for list/watch
	Verb  string
	GVR   schema.GroupVersionResource
	NS    string
	Name  string
	Sub   string
	Tag   string
	GID   int64
}

// Fault describes an injected failure.
type Fault struct {
	Code      int    // HTTP status to answer with (ignored if Transport)
	Reason    string // metav1.StatusReason; derived from Code if empty
	After     bool   // apply the operation, then lose the response
	Transport bool   // fail the round trip with a transport error
	Label     string
}

type event struct {
	typ string // ADDED MODIFIED DELETED
	obj Obj
	rv  int64
}

type watcher struct {
	id     int
	gvr    schema.GroupVersionResource
	ns     string
	sel    labels.Selector
	mu     sync.Mutex
	cond   *sync.Cond
	queue  []event
	closed bool
	sent   int64
}

type resState struct {
	info    ResourceInfo
	objs    map[string]Obj // key ns/name or name
	history []event
	held    bool
	heldBuf []event
	visible map[string]string // key -> rv as released to watchers
	minRV   int64             // watches from an older rv get 410
	ssa     map[string]*ssaState
}

// Server is the simulated API server.
type Server struct {
	// subFirst: discovery lists "<resource>/status" before "<resource>" (the order of an
	// APIResourceList is not specified; every second simulated server uses this one)
	subFirst  bool
	mu        sync.Mutex
	res       map[schema.GroupVersionResource]*resState
	rv        int64
	uid       int64
	clock     *int64
	opSeq     int64
	log       []*Request
	tag       atomic.Value // string
	watchers  map[int]*watcher
	watcherID int
	watchLog  []string // "open <gvr>", "close <gvr>"

	cbMu    sync.RWMutex
	gateFn  func(*ReqInfo)
	afterFn func(*ReqInfo)
	tagFn   func() string
	faultFn func(*ReqInfo) *Fault
	cut     atomic.Bool // crash cut: every mc request fails with a transport error

	// Strict makes the server reject things a real API server rejects (default true).
	inflight int64
}

func NewServer() *Server {
	s := &Server{
		res:      map[schema.GroupVersionResource]*resState{},
		watchers: map[int]*watcher{},
		clock:    new(int64),
	}
	s.tag.Store("")
	s.subFirst = atomic.AddInt64(&serverCounter, 1)%2 == 0
	return s
}

var serverCounter int64

// Clock returns the logical clock shared with hook sites.
func (s *Server) Clock() *int64 { return s.clock }

func (s *Server) tick() int64 { return atomic.AddInt64(s.clock, 1) }

func (s *Server) Register(infos ...ResourceInfo) {
	s.mu.Lock()
	defer s.mu.Unlock()
	for _, ri := range infos {
		s.res[ri.GVR()] = &resState{info: ri, objs: map[string]Obj{}, visible: map[string]string{}, ssa: map[string]*ssaState{}}
	}
}

func (s *Server) Info(gvr schema.GroupVersionResource) (ResourceInfo, bool) {
	s.mu.Lock()
	defer s.mu.Unlock()
	r, ok := s.res[gvr]
	if !ok {
		return ResourceInfo{}, false
	}
	return r.info, true
}

func (s *Server) Resources() []ResourceInfo {
	s.mu.Lock()
	defer s.mu.Unlock()
	var out []ResourceInfo
	for _, r := range s.res {
		out = append(out, r.info)
	}
	sort.Slice(out, func(i, j int) bool { return out[i].GVR().String() < out[j].GVR().String() })
	return out
}

// RESTConfig returns a client configuration whose transport is the simulator.
func (s *Server) RESTConfig() *rest.Config {
	return &rest.Config{
		Host:      "http://sim.invalid",
		Transport: s,
		QPS:       -1,
	}
}

func (s *Server) SetTag(t string) { s.tag.Store(t) }

// SetTagFunc makes the bracket label a function evaluated per request (worker mode, where the
// key being synced is only known once the real worker has taken it from the queue).
func (s *Server) SetTagFunc(fn func() string) {
	s.cbMu.Lock()
	s.tagFn = fn
	s.cbMu.Unlock()
}

func (s *Server) Tag() string {
	s.cbMu.RLock()
	fn := s.tagFn
	s.cbMu.RUnlock()
	if fn != nil {
		return fn()
	}
	return s.tag.Load().(string)
}

func (s *Server) SetGate(fn func(*ReqInfo)) {
	s.cbMu.Lock()
	s.gateFn = fn
	s.cbMu.Unlock()
}

// SetAfter installs a callback run after a (non-watch) request from metacontroller has been
// processed, before the response is handed back.
func (s *Server) SetAfter(fn func(*ReqInfo)) {
	s.cbMu.Lock()
	s.afterFn = fn
	s.cbMu.Unlock()
}

func (s *Server) SetFault(fn func(*ReqInfo) *Fault) {
	s.cbMu.Lock()
	s.faultFn = fn
	s.cbMu.Unlock()
}

// Cut makes every later request from metacontroller fail with a transport error (crash cut).
func (s *Server) Cut(on bool) { s.cut.Store(on) }

func (s *Server) InFlight() int64 { return atomic.LoadInt64(&s.inflight) }

// ---------------------------------------------------------------------------------------------
// log access

func (s *Server) Mark() int {
	s.mu.Lock()
	defer s.mu.Unlock()
	return len(s.log)
}

func (s *Server) Since(mark int) []*Request {
	s.mu.Lock()
	defer s.mu.Unlock()
	out := make([]*Request, len(s.log)-mark)
	copy(out, s.log[mark:])
	return out
}

func (s *Server) Log() []*Request { return s.Since(0) }

func (s *Server) OpSeq() int64 {
	s.mu.Lock()
	defer s.mu.Unlock()
	return s.opSeq
}

func (s *Server) RV() int64 {
	s.mu.Lock()
	defer s.mu.Unlock()
	return s.rv
}

func (s *Server) WatchLog() []string {
	s.mu.Lock()
	defer s.mu.Unlock()
	return append([]string(nil), s.watchLog...)
}

// ---------------------------------------------------------------------------------------------
// helpers

func objKey(ns, name string) string {
	if ns == "" {
		return name
	}
	return ns + "/" + name
}

func DeepCopy(o Obj) Obj {
	if o == nil {
		return nil
	}
	return runtime.DeepCopyJSON(o)
}

func meta(o Obj) Obj {
	m, _ := o["metadata"].(map[string]interface{})
	if m == nil {
		m = map[string]interface{}{}
		o["metadata"] = m
	}
	return m
}

func metaRO(o Obj) Obj {
	m, _ := o["metadata"].(map[string]interface{})
	return m
}

func MetaString(o Obj, field string) string {
	if o == nil {
		return ""
	}
	m := metaRO(o)
	if m == nil {
		return ""
	}
	v, _ := m[field].(string)
	return v
}

func Finalizers(o Obj) []string {
	m := metaRO(o)
	if m == nil {
		return nil
	}
	l, _ := m["finalizers"].([]interface{})
	var out []string
	for _, f := range l {
		if str, ok := f.(string); ok {
			out = append(out, str)
		}
	}
	return out
}

func setFinalizers(o Obj, fs []string) {
	m := meta(o)
	if len(fs) == 0 {
		delete(m, "finalizers")
		return
	}
	l := make([]interface{}, len(fs))
	for i, f := range fs {
		l[i] = f
	}
	m["finalizers"] = l
}

func Labels(o Obj) map[string]string {
	m := metaRO(o)
	if m == nil {
		return nil
	}
	l, _ := m["labels"].(map[string]interface{})
	out := map[string]string{}
	for k, v := range l {
		if str, ok := v.(string); ok {
			out[k] = str
		}
	}
	return out
}

// OwnerRef is a decoded owner reference.
type OwnerRef struct {
	APIVersion, Kind, Name, UID string
	Controller                  bool
}

func OwnerRefs(o Obj) []OwnerRef {
	m := metaRO(o)
	if m == nil {
		return nil
	}
	l, _ := m["ownerReferences"].([]interface{})
	var out []OwnerRef
	for _, it := range l {
		r, ok := it.(map[string]interface{})
		if !ok {
			continue
		}
		or := OwnerRef{}
		or.APIVersion, _ = r["apiVersion"].(string)
		or.Kind, _ = r["kind"].(string)
		or.Name, _ = r["name"].(string)
		or.UID, _ = r["uid"].(string)
		or.Controller, _ = r["controller"].(bool)
		out = append(out, or)
	}
	return out
}

func ControllerOf(o Obj) *OwnerRef {
	for _, r := range OwnerRefs(o) {
		if r.Controller {
			rr := r
			return &rr
		}
	}
	return nil
}

func statusErr(code int, reason metav1.StatusReason, msg string) *metav1.Status {
	return &metav1.Status{
		TypeMeta: metav1.TypeMeta{Kind: "Status", APIVersion: "v1"},
		Status:   metav1.StatusFailure,
		Code:     int32(code),
		Reason:   reason,
		Message:  msg,
	}
}

func reasonForCode(code int) metav1.StatusReason {
	switch code {
	case 400:
		return metav1.StatusReasonBadRequest
	case 401:
		return metav1.StatusReasonUnauthorized
	case 403:
		return metav1.StatusReasonForbidden
	case 404:
		return metav1.StatusReasonNotFound
	case 405:
		return metav1.StatusReasonMethodNotAllowed
	case 409:
		return metav1.StatusReasonConflict
	case 410:
		return metav1.StatusReasonGone
	case 422:
		return metav1.StatusReasonInvalid
	case 429:
		return metav1.StatusReasonTooManyRequests
	case 500:
		return metav1.StatusReasonInternalError
	case 503:
		return metav1.StatusReasonServiceUnavailable
	case 504:
		return metav1.StatusReasonTimeout
	}
	return metav1.StatusReasonUnknown
}

func jsonResponse(req *http.Request, code int, v interface{}) *http.Response {
	data, err := kjson.Marshal(v)
	if err != nil {
		data = []byte(`{"kind":"Status","apiVersion":"v1","status":"Failure","code":500,"message":"marshal error"}`)
		code = 500
	}
	return &http.Response{
		StatusCode:    code,
		Status:        fmt.Sprintf("%d %s", code, http.StatusText(code)),
		Proto:         "HTTP/1.1",
		ProtoMajor:    1,
		ProtoMinor:    1,
		Header:        http.Header{"Content-Type": []string{"application/json"}},
		Body:          io.NopCloser(bytes.NewReader(data)),
		ContentLength: int64(len(data)),
		Request:       req,
	}
}

// ---------------------------------------------------------------------------------------------
// RoundTrip: the transport entry point used by every real client

type parsedPath struct {
	discovery string // "api", "apis", "gv"
	gv        schema.GroupVersion
	gvr       schema.GroupVersionResource
	ns        string
	name      string
	sub       string
}

func parsePath(p string) (*parsedPath, bool) {
	parts := strings.Split(strings.Trim(p, "/"), "/")
	pp := &parsedPath{}
	var rest []string
	switch {
	case len(parts) == 1 && parts[0] == "api":
		pp.discovery = "api"
		return pp, true
	case len(parts) == 1 && parts[0] == "apis":
		pp.discovery = "apis"
		return pp, true
	case parts[0] == "api" && len(parts) >= 2:
		pp.gv = schema.GroupVersion{Group: "", Version: parts[1]}
		rest = parts[2:]
	case parts[0] == "apis" && len(parts) >= 3:
		pp.gv = schema.GroupVersion{Group: parts[1], Version: parts[2]}
		rest = parts[3:]
	case parts[0] == "apis" && len(parts) == 2:
		pp.discovery = "group"
		pp.gv = schema.GroupVersion{Group: parts[1]}
		return pp, true
	default:
		return nil, false
	}
	if len(rest) == 0 {
		pp.discovery = "gv"
		return pp, true
	}
	if rest[0] == "namespaces" && len(rest) >= 3 {
		pp.ns = rest[1]
		rest = rest[2:]
	}
	pp.gvr = pp.gv.WithResource(rest[0])
	if len(rest) >= 2 {
		pp.name = rest[1]
	}
	if len(rest) >= 3 {
		pp.sub = rest[2]
	}
	if len(rest) > 3 {
		return nil, false
	}
	return pp, true
}

func (s *Server) RoundTrip(req *http.Request) (*http.Response, error) {
	atomic.AddInt64(&s.inflight, 1)
	defer atomic.AddInt64(&s.inflight, -1)

	var body []byte
	if req.Body != nil {
		body, _ = io.ReadAll(req.Body)
		req.Body.Close()
	}
	pp, ok := parsePath(req.URL.Path)
	if !ok {
		return jsonResponse(req, 404, statusErr(404, metav1.StatusReasonNotFound, "unknown path "+req.URL.Path)), nil
	}
	if pp.discovery != "" {
		if s.cut.Load() {
			return nil, fmt.Errorf("sim: connection refused (crash cut)")
		}
		return s.serveDiscovery(req, pp), nil
	}
	q := req.URL.Query()
	verb := ""
	switch req.Method {
	case "GET":
		switch {
		case pp.name != "":
			verb = "get"
		case q.Get("watch") == "true" || q.Get("watch") == "1":
			verb = "watch"
		default:
			verb = "list"
		}
	case "POST":
		verb = "create"
	case "PUT":
		verb = "update"
	case "PATCH":
		verb = "patch"
	case "DELETE":
		if pp.name == "" {
			verb = "deletecollection"
		} else {
			verb = "delete"
		}
	}
	ri := &ReqInfo{Seq: s.tick(), Verb: verb, GVR: pp.gvr, NS: pp.ns, Name: pp.name, Sub: pp.sub, Tag: s.Tag(), GID: GoID()}
	if verb != "list" && verb != "watch" {
		s.mu.Lock()
		s.opSeq++
		ri.OpSeq = s.opSeq
		s.mu.Unlock()
	}
	if s.cut.Load() {
		s.mu.Lock()
		s.log = append(s.log, &Request{Seq: ri.Seq, OpSeq: ri.OpSeq, Actor: "mc", Tag: ri.Tag, Verb: verb, GVR: pp.gvr, NS: pp.ns, Name: pp.name, Sub: pp.sub, Code: 0, Fault: "cut"})
		s.mu.Unlock()
		return nil, fmt.Errorf("sim: connection refused (crash cut)")
	}

	s.cbMu.RLock()
	gate, faultFn, after := s.gateFn, s.faultFn, s.afterFn
	s.cbMu.RUnlock()
	if gate != nil {
		gate(ri)
	}
	var fault *Fault
	if faultFn != nil {
		fault = faultFn(ri)
	}
	if s.cut.Load() { // the gate may have armed the cut
		s.mu.Lock()
		s.log = append(s.log, &Request{Seq: ri.Seq, OpSeq: ri.OpSeq, Actor: "mc", Tag: ri.Tag, Verb: verb, GVR: pp.gvr, NS: pp.ns, Name: pp.name, Sub: pp.sub, Code: 0, Fault: "cut"})
		s.mu.Unlock()
		return nil, fmt.Errorf("sim: connection refused (crash cut)")
	}

	if verb == "watch" {
		if fault != nil && !fault.After {
			return s.faultResponse(req, ri, fault, nil)
		}
		return s.serveWatch(req, ri, q)
	}

	in := &opInput{actor: "mc", ri: ri, query: q, body: body, contentType: req.Header.Get("Content-Type")}
	if fault != nil && !fault.After {
		return s.faultResponse(req, ri, fault, in)
	}
	code, out, entry := s.do(in)
	if after != nil {
		after(ri)
	}
	if fault != nil && fault.After {
		entry.Fault = fault.describe() + "(after)"
		if fault.Transport {
			return nil, fmt.Errorf("sim: injected transport error after apply: %s", fault.describe())
		}
		c := fault.Code
		if c == 0 {
			c = 504
		}
		reason := metav1.StatusReason(fault.Reason)
		if reason == "" {
			reason = reasonForCode(c)
		}
		return jsonResponse(req, c, statusErr(c, reason, "sim: injected fault after apply")), nil
	}
	return jsonResponse(req, code, out), nil
}

func (f *Fault) describe() string {
	if f.Label != "" {
		return f.Label
	}
	if f.Transport {
		return "transport"
	}
	return strconv.Itoa(f.Code)
}

func (s *Server) faultResponse(req *http.Request, ri *ReqInfo, f *Fault, in *opInput) (*http.Response, error) {
	entry := &Request{Seq: ri.Seq, OpSeq: ri.OpSeq, Actor: "mc", Tag: ri.Tag, Verb: ri.Verb, GVR: ri.GVR, NS: ri.NS, Name: ri.Name, Sub: ri.Sub, Fault: f.describe()}
	if in != nil {
		entry.Body = decodeAny(in.body)
		entry.Query = flatQuery(in.query)
	}
	s.mu.Lock()
	if rs := s.res[ri.GVR]; rs != nil && ri.Name != "" {
		entry.Pre = DeepCopy(rs.objs[objKey(ri.NS, ri.Name)])
		entry.Post = DeepCopy(entry.Pre)
	}
	if f.Transport {
		entry.Code = 0
		s.log = append(s.log, entry)
		s.mu.Unlock()
		return nil, fmt.Errorf("sim: injected transport error")
	}
	reason := metav1.StatusReason(f.Reason)
	if reason == "" {
		reason = reasonForCode(f.Code)
	}
	entry.Code = f.Code
	entry.Reason = string(reason)
	s.log = append(s.log, entry)
	s.mu.Unlock()
	return jsonResponse(req, f.Code, statusErr(f.Code, reason, "sim: injected fault")), nil
}

// GoID returns the id of the calling goroutine (parsed from the stack header; test-only use).
func GoID() int64 {
	var buf [64]byte
	n := goruntime.Stack(buf[:], false)
	// "goroutine 123 [running]:"
	f := strings.Fields(string(buf[:n]))
	if len(f) < 2 {
		return 0
	}
	id, _ := strconv.ParseInt(f[1], 10, 64)
	return id
}

func flatQuery(q url.Values) map[string]string {
	if len(q) == 0 {
		return nil
	}
	out := map[string]string{}
	for k, v := range q {
		out[k] = strings.Join(v, ",")
	}
	return out
}

func decodeAny(b []byte) interface{} {
	if len(b) == 0 {
		return nil
	}
	var v interface{}
	if err := kjson.Unmarshal(b, &v); err != nil {
		return string(b)
	}
	return v
}

// ---------------------------------------------------------------------------------------------
// discovery

func (s *Server) serveDiscovery(req *http.Request, pp *parsedPath) *http.Response {
	s.mu.Lock()
	defer s.mu.Unlock()
	switch pp.discovery {
	case "api":
		return jsonResponse(req, 200, map[string]interface{}{"kind": "APIVersions", "versions": []string{"v1"}})
	case "apis":
		groups := map[string][]string{}
		for gvr := range s.res {
			if gvr.Group == "" {
				continue
			}
			found := false
			for _, v := range groups[gvr.Group] {
				if v == gvr.Version {
					found = true
				}
			}
			if !found {
				groups[gvr.Group] = append(groups[gvr.Group], gvr.Version)
			}
		}
		var names []string
		for g := range groups {
			names = append(names, g)
		}
		sort.Strings(names)
		var list []interface{}
		for _, g := range names {
			sort.Strings(groups[g])
			var versions []interface{}
			for _, v := range groups[g] {
				versions = append(versions, map[string]interface{}{"groupVersion": g + "/" + v, "version": v})
			}
			list = append(list, map[string]interface{}{"name": g, "versions": versions, "preferredVersion": versions[0]})
		}
		return jsonResponse(req, 200, map[string]interface{}{"kind": "APIGroupList", "apiVersion": "v1", "groups": list})
	case "gv":
		var resources []interface{}
		var keys []string
		byKey := map[string]ResourceInfo{}
		for gvr, rs := range s.res {
			if gvr.Group == pp.gv.Group && gvr.Version == pp.gv.Version {
				keys = append(keys, gvr.Resource)
				byKey[gvr.Resource] = rs.info
			}
		}
		if len(keys) == 0 {
			return jsonResponse(req, 404, statusErr(404, metav1.StatusReasonNotFound, "no such group version"))
		}
		sort.Strings(keys)
		verbs := []interface{}{"create", "delete", "get", "list", "patch", "update", "watch"}
		for _, k := range keys {
			ri := byKey[k]
			main := map[string]interface{}{"name": ri.Resource, "singularName": strings.ToLower(ri.Kind), "namespaced": ri.Namespaced, "kind": ri.Kind, "verbs": verbs}
			if !ri.HasStatus {
				resources = append(resources, main)
				continue
			}
			sub := map[string]interface{}{"name": ri.Resource + "/status", "singularName": "", "namespaced": ri.Namespaced, "kind": ri.Kind, "verbs": []interface{}{"get", "patch", "update"}}
			if s.subFirst {
				resources = append(resources, sub, main)
			} else {
				resources = append(resources, main, sub)
			}
		}
		gvs := pp.gv.Version
		if pp.gv.Group != "" {
			gvs = pp.gv.Group + "/" + pp.gv.Version
		}
		return jsonResponse(req, 200, map[string]interface{}{"kind": "APIResourceList", "apiVersion": "v1", "groupVersion": gvs, "resources": resources})
	}
	return jsonResponse(req, 404, statusErr(404, metav1.StatusReasonNotFound, "not found"))
}

// ---------------------------------------------------------------------------------------------
// operations

type opInput struct {
	actor       string
	ri          *ReqInfo
	query       url.Values
	body        []byte
	contentType string
	bodyObj     interface{} // for side-door calls (already decoded)
}

// do executes one non-watch operation atomically and logs it.
func (s *Server) do(in *opInput) (int, interface{}, *Request) {
	ri := in.ri
	entry := &Request{Seq: ri.Seq, OpSeq: ri.OpSeq, Actor: in.actor, Tag: ri.Tag, GID: ri.GID, Verb: ri.Verb, GVR: ri.GVR, NS: ri.NS, Name: ri.Name, Sub: ri.Sub, Query: flatQuery(in.query)}
	if in.bodyObj != nil {
		entry.Body = in.bodyObj
	} else {
		entry.Body = decodeAny(in.body)
	}
	s.mu.Lock()
	defer s.mu.Unlock()
	code, out := s.doLocked(in, entry)
	entry.Code = code
	if st, ok := out.(*metav1.Status); ok && st.Status == metav1.StatusFailure {
		entry.Reason = string(st.Reason)
	}
	entry.Applied = !reflect.DeepEqual(entry.Pre, entry.Post)
	s.log = append(s.log, entry)
	return code, out, entry
}

func (s *Server) fail(code int, reason metav1.StatusReason, format string, a ...interface{}) (int, interface{}) {
	return code, statusErr(code, reason, fmt.Sprintf(format, a...))
}

func (s *Server) doLocked(in *opInput, entry *Request) (int, interface{}) {
	ri := in.ri
	rs := s.res[ri.GVR]
	if rs == nil {
		return s.fail(404, metav1.StatusReasonNotFound, "the server could not find the requested resource %v", ri.GVR)
	}
	info := rs.info
	if info.Namespaced && ri.NS == "" && ri.Verb != "list" {
		return s.fail(400, metav1.StatusReasonBadRequest, "namespace required for %s", info.Resource)
	}
	if !info.Namespaced && ri.NS != "" {
		return s.fail(404, metav1.StatusReasonNotFound, "%s is cluster-scoped", info.Resource)
	}
	if ri.Sub != "" && !(ri.Sub == "status" && info.HasStatus) {
		return s.fail(404, metav1.StatusReasonNotFound, "no subresource %q on %s", ri.Sub, info.Resource)
	}
	key := objKey(ri.NS, ri.Name)
	gr := schema.GroupResource{Group: info.Group, Resource: info.Resource}
	cur := rs.objs[key]
	if ri.Name != "" {
		entry.Pre = DeepCopy(cur)
		entry.Post = entry.Pre
	}

	switch ri.Verb {
	case "get":
		if cur == nil {
			return 404, statusOf(apierrors.NewNotFound(gr, ri.Name))
		}
		return 200, DeepCopy(cur)

	case "list":
		sel := labels.Everything()
		if ls := in.query.Get("labelSelector"); ls != "" {
			var err error
			sel, err = labels.Parse(ls)
			if err != nil {
				return s.fail(400, metav1.StatusReasonBadRequest, "bad label selector: %v", err)
			}
		}
		items := make([]interface{}, 0, len(rs.objs))
		keys := make([]string, 0, len(rs.objs))
		for k := range rs.objs {
			keys = append(keys, k)
		}
		sort.Strings(keys)
		for _, k := range keys {
			o := rs.objs[k]
			if ri.NS != "" && MetaString(o, "namespace") != ri.NS {
				continue
			}
			if !sel.Matches(labels.Set(Labels(o))) {
				continue
			}
			if fs := in.query.Get("fieldSelector"); fs != "" {
				if strings.HasPrefix(fs, "metadata.name=") && MetaString(o, "name") != strings.TrimPrefix(fs, "metadata.name=") {
					continue
				}
			}
			items = append(items, DeepCopy(o))
		}
		return 200, map[string]interface{}{
			"apiVersion": info.APIVersion(),
			"kind":       info.Kind + "List",
			"metadata":   map[string]interface{}{"resourceVersion": strconv.FormatInt(s.rv, 10)},
			"items":      items,
		}

	case "create":
		if ri.Name != "" || ri.Sub != "" {
			return s.fail(405, metav1.StatusReasonMethodNotAllowed, "create on item")
		}
		obj, st := s.decodeObject(in, info)
		if st != nil {
			return int(st.Code), st
		}
		return s.createLocked(rs, ri.NS, obj, entry)

	case "update":
		if cur == nil {
			return 404, statusOf(apierrors.NewNotFound(gr, ri.Name))
		}
		obj, st := s.decodeObject(in, info)
		if st != nil {
			return int(st.Code), st
		}
		return s.updateLocked(rs, cur, obj, ri.Sub, entry, false)

	case "patch":
		return s.patchLocked(rs, in, cur, entry)

	case "delete":
		if cur == nil {
			return 404, statusOf(apierrors.NewNotFound(gr, ri.Name))
		}
		var opts Obj
		if in.bodyObj != nil {
			opts, _ = in.bodyObj.(Obj)
		} else if len(in.body) > 0 {
			if err := kjson.Unmarshal(in.body, &opts); err != nil {
				return s.fail(400, metav1.StatusReasonBadRequest, "bad delete options: %v", err)
			}
		}
		return s.deleteLocked(rs, cur, opts, entry)
	}
	return s.fail(405, metav1.StatusReasonMethodNotAllowed, "verb %s not supported by the simulator", ri.Verb)
}

func statusOf(err *apierrors.StatusError) *metav1.Status {
	st := err.Status()
	st.TypeMeta = metav1.TypeMeta{Kind: "Status", APIVersion: "v1"}
	return &st
}

func (s *Server) decodeObject(in *opInput, info ResourceInfo) (Obj, *metav1.Status) {
	var obj Obj
	if in.bodyObj != nil {
		o, ok := in.bodyObj.(Obj)
		if !ok {
			return nil, statusErr(400, metav1.StatusReasonBadRequest, "body is not an object")
		}
		obj = DeepCopy(o)
	} else {
		if err := kjson.Unmarshal(in.body, &obj); err != nil || obj == nil {
			return nil, statusErr(400, metav1.StatusReasonBadRequest, fmt.Sprintf("cannot decode body: %v", err))
		}
	}
	if st := validateObject(obj, info); st != nil {
		return nil, st
	}
	return obj, nil
}

// validateObject applies the structural validation every real API server performs on ObjectMeta.
func validateObject(obj Obj, info ResourceInfo) *metav1.Status {
	if av, ok := obj["apiVersion"]; ok {
		if str, _ := av.(string); str != info.APIVersion() {
			return statusErr(400, metav1.StatusReasonBadRequest, fmt.Sprintf("apiVersion %v does not match %s", av, info.APIVersion()))
		}
	}
	if k, ok := obj["kind"]; ok {
		if str, _ := k.(string); str != info.Kind {
			return statusErr(400, metav1.StatusReasonBadRequest, fmt.Sprintf("kind %v does not match %s", k, info.Kind))
		}
	}
	mv, has := obj["metadata"]
	if !has || mv == nil {
		return statusErr(422, metav1.StatusReasonInvalid, "metadata.name: Required value")
	}
	m, ok := mv.(map[string]interface{})
	if !ok {
		return statusErr(400, metav1.StatusReasonBadRequest, "metadata is not an object")
	}
	for _, f := range []string{"name", "namespace", "uid", "resourceVersion", "generateName"} {
		if v, ok := m[f]; ok && v != nil {
			if _, ok := v.(string); !ok {
				return statusErr(400, metav1.StatusReasonBadRequest, "metadata."+f+" must be a string")
			}
		}
	}
	for _, f := range []string{"labels", "annotations"} {
		v, ok := m[f]
		if !ok || v == nil {
			continue
		}
		mm, ok := v.(map[string]interface{})
		if !ok {
			return statusErr(400, metav1.StatusReasonBadRequest, "metadata."+f+" must be a map")
		}
		for k, vv := range mm {
			if _, ok := vv.(string); !ok {
				return statusErr(400, metav1.StatusReasonBadRequest, fmt.Sprintf("metadata.%s[%s] must be a string", f, k))
			}
		}
	}
	if v, ok := m["finalizers"]; ok && v != nil {
		l, ok := v.([]interface{})
		if !ok {
			return statusErr(400, metav1.StatusReasonBadRequest, "metadata.finalizers must be a list")
		}
		for _, it := range l {
			if _, ok := it.(string); !ok {
				return statusErr(400, metav1.StatusReasonBadRequest, "metadata.finalizers items must be strings")
			}
		}
	}
	if v, ok := m["ownerReferences"]; ok && v != nil {
		l, ok := v.([]interface{})
		if !ok {
			return statusErr(400, metav1.StatusReasonBadRequest, "metadata.ownerReferences must be a list")
		}
		controllers := 0
		uids := map[string]bool{}
		for _, it := range l {
			r, ok := it.(map[string]interface{})
			if !ok {
				return statusErr(400, metav1.StatusReasonBadRequest, "ownerReference must be an object")
			}
			for _, f := range []string{"apiVersion", "kind", "name", "uid"} {
				str, _ := r[f].(string)
				if str == "" {
					return statusErr(422, metav1.StatusReasonInvalid, "metadata.ownerReferences."+f+": Invalid value: must not be empty")
				}
			}
			uid := r["uid"].(string)
			if uids[uid] {
				return statusErr(422, metav1.StatusReasonInvalid, "metadata.ownerReferences: Duplicate value uid "+uid)
			}
			uids[uid] = true
			if c, _ := r["controller"].(bool); c {
				controllers++
			}
		}
		if controllers > 1 {
			return statusErr(422, metav1.StatusReasonInvalid, "metadata.ownerReferences: Invalid value: Only one reference can have Controller set to true")
		}
	}
	return nil
}

const logicalCreationTimestamp = "2026-01-01T00:00:00Z"
const logicalDeletionTimestamp = "2026-01-02T00:00:00Z"

func (s *Server) nextRV() string {
	s.rv++
	return strconv.FormatInt(s.rv, 10)
}

func (s *Server) createLocked(rs *resState, ns string, obj Obj, entry *Request) (int, interface{}) {
	info := rs.info
	m := meta(obj)
	name, _ := m["name"].(string)
	if name == "" {
		if gn, _ := m["generateName"].(string); gn != "" {
			s.uid++
			name = fmt.Sprintf("%s%05d", gn, s.uid)
			m["name"] = name
		} else {
			return s.fail(422, metav1.StatusReasonInvalid, "metadata.name: Required value: name or generateName is required")
		}
	}
	bodyNS, _ := m["namespace"].(string)
	if info.Namespaced {
		if bodyNS != "" && bodyNS != ns {
			return s.fail(400, metav1.StatusReasonBadRequest, "the namespace of the provided object does not match the namespace sent on the request")
		}
		m["namespace"] = ns
	} else {
		if bodyNS != "" {
			return s.fail(400, metav1.StatusReasonBadRequest, "namespace set on a cluster-scoped object")
		}
		delete(m, "namespace")
	}
	key := objKey(ns, name)
	entry.Name = name
	entry.NS = ns
	if rs.objs[key] != nil {
		entry.Pre = DeepCopy(rs.objs[key])
		entry.Post = entry.Pre
		return 409, statusOf(apierrors.NewAlreadyExists(schema.GroupResource{Group: info.Group, Resource: info.Resource}, name))
	}
	obj["apiVersion"] = info.APIVersion()
	obj["kind"] = info.Kind
	s.uid++
	m["uid"] = fmt.Sprintf("uid-%d", s.uid)
	m["resourceVersion"] = s.nextRV()
	m["creationTimestamp"] = logicalCreationTimestamp
	delete(m, "deletionTimestamp")
	delete(m, "deletionGracePeriodSeconds")
	delete(m, "selfLink")
	delete(m, "generateName")
	delete(m, "managedFields")
	if !info.NoGeneration {
		m["generation"] = int64(1)
	} else {
		delete(m, "generation")
	}
	if info.HasStatus {
		delete(obj, "status")
	}
	normalizeMeta(m)
	rs.objs[key] = obj
	entry.Pre = nil
	entry.Post = DeepCopy(obj)
	s.emitLocked(rs, "ADDED", obj)
	return 201, DeepCopy(obj)
}

// normalizeMeta drops empty containers the way round-tripping through ObjectMeta does.
func normalizeMeta(m Obj) {
	for _, f := range []string{"labels", "annotations"} {
		if v, ok := m[f]; ok {
			if mm, ok := v.(map[string]interface{}); !ok || len(mm) == 0 {
				delete(m, f)
			}
		}
	}
	for _, f := range []string{"finalizers", "ownerReferences"} {
		if v, ok := m[f]; ok {
			if l, ok := v.([]interface{}); !ok || len(l) == 0 {
				delete(m, f)
			}
		}
	}
}

func contentOutsideMetaStatus(o Obj, statusIsContent bool) Obj {
	c := Obj{}
	for k, v := range o {
		if k == "metadata" || (k == "status" && !statusIsContent) {
			continue
		}
		c[k] = v
	}
	return c
}

// updateLocked implements PUT (and is the tail of every patch). ssa=true skips the optimistic
// lock because server-side apply has none.
func (s *Server) updateLocked(rs *resState, cur, obj Obj, sub string, entry *Request, noTrack bool) (int, interface{}) {
	info := rs.info
	gr := schema.GroupResource{Group: info.Group, Resource: info.Resource}
	m := meta(obj)
	cm := metaRO(cur)
	name, _ := cm["name"].(string)
	ns, _ := cm["namespace"].(string)
	if n, _ := m["name"].(string); n != name {
		return s.fail(400, metav1.StatusReasonBadRequest, "the name of the object (%v) does not match the name on the URL (%s)", m["name"], name)
	}
	if n, _ := m["namespace"].(string); n != "" && n != ns {
		return s.fail(400, metav1.StatusReasonBadRequest, "the namespace of the object does not match the namespace on the URL")
	}
	if rv, _ := m["resourceVersion"].(string); rv != "" && rv != cm["resourceVersion"].(string) {
		return 409, statusOf(apierrors.NewConflict(gr, name, fmt.Errorf("the object has been modified; please apply your changes to the latest version and try again")))
	}
	if uid, _ := m["uid"].(string); uid != "" && uid != cm["uid"].(string) {
		return 409, statusOf(apierrors.NewConflict(gr, name, fmt.Errorf("Precondition failed: UID in precondition: %v, UID in object meta: %v", uid, cm["uid"])))
	}
	var next Obj
	if sub == "status" {
		next = DeepCopy(cur)
		if st, ok := obj["status"]; ok {
			next["status"] = st
		} else {
			delete(next, "status")
		}
	} else {
		next = obj
		nm := meta(next)
		if info.Namespaced {
			nm["namespace"] = ns
		}
		for _, f := range []string{"uid", "creationTimestamp", "deletionTimestamp", "deletionGracePeriodSeconds", "generation", "resourceVersion"} {
			if v, ok := cm[f]; ok {
				nm[f] = v
			} else {
				delete(nm, f)
			}
		}
		delete(nm, "selfLink")
		delete(nm, "managedFields")
		next["apiVersion"] = info.APIVersion()
		next["kind"] = info.Kind
		if info.HasStatus {
			if st, ok := cur["status"]; ok {
				next["status"] = st
			} else {
				delete(next, "status")
			}
		}
		normalizeMeta(nm)
		// A deleting object cannot gain finalizers.
		if cm["deletionTimestamp"] != nil {
			old := map[string]bool{}
			for _, f := range Finalizers(cur) {
				old[f] = true
			}
			for _, f := range Finalizers(next) {
				if !old[f] {
					return s.fail(422, metav1.StatusReasonInvalid, "metadata.finalizers: Forbidden: no new finalizers can be added if the object is being deleted, found new finalizers [%s]", f)
				}
			}
		}
		if !info.NoGeneration && !reflect.DeepEqual(contentOutsideMetaStatus(next, !info.HasStatus), contentOutsideMetaStatus(cur, !info.HasStatus)) {
			g, _ := cm["generation"].(int64)
			nm["generation"] = g + 1
		}
	}
	nm := meta(next)
	nm["resourceVersion"] = cm["resourceVersion"]
	key := objKey(ns, name)
	// the object that would be stored is validated, whatever verb produced it
	if st := validateObject(next, info); st != nil {
		return int(st.Code), st
	}
	if reflect.DeepEqual(next, cur) {
		// etcd3 store: byte-identical update is a no-op, no new resourceVersion, no event.
		return 200, DeepCopy(cur)
	}
	nm["resourceVersion"] = s.nextRV()
	if nm["deletionTimestamp"] != nil && len(Finalizers(next)) == 0 {
		delete(rs.objs, key)
		delete(rs.ssa, key)
		entry.Post = nil
		s.emitLocked(rs, "DELETED", next)
		return 200, DeepCopy(next)
	}
	if !noTrack {
		s.trackUpdateLocked(rs, key, cur, next, entry.Query["fieldManager"])
	}
	rs.objs[key] = next
	entry.Post = DeepCopy(next)
	s.emitLocked(rs, "MODIFIED", next)
	return 200, DeepCopy(next)
}

func (s *Server) deleteLocked(rs *resState, cur Obj, opts Obj, entry *Request) (int, interface{}) {
	info := rs.info
	gr := schema.GroupResource{Group: info.Group, Resource: info.Resource}
	cm := metaRO(cur)
	name, _ := cm["name"].(string)
	ns, _ := cm["namespace"].(string)
	key := objKey(ns, name)
	if opts != nil {
		if pre, ok := opts["preconditions"].(map[string]interface{}); ok {
			if uid, _ := pre["uid"].(string); uid != "" && uid != cm["uid"].(string) {
				return 409, statusOf(apierrors.NewConflict(gr, name, fmt.Errorf("Precondition failed: UID in precondition: %v, UID in object meta: %v", uid, cm["uid"])))
			}
			if rv, _ := pre["resourceVersion"].(string); rv != "" && rv != cm["resourceVersion"].(string) {
				return 409, statusOf(apierrors.NewConflict(gr, name, fmt.Errorf("Precondition failed: ResourceVersion in precondition: %v, ResourceVersion in object meta: %v", rv, cm["resourceVersion"])))
			}
		}
	}
	policy := ""
	if opts != nil {
		policy, _ = opts["propagationPolicy"].(string)
	}
	next := DeepCopy(cur)
	fs := Finalizers(next)
	has := func(f string) bool {
		for _, x := range fs {
			if x == f {
				return true
			}
		}
		return false
	}
	switch policy {
	case "Foreground":
		if !has("foregroundDeletion") {
			fs = append(fs, "foregroundDeletion")
		}
	case "Orphan":
		if !has("orphan") {
			fs = append(fs, "orphan")
		}
	}
	setFinalizers(next, fs)
	if len(fs) > 0 {
		nm := meta(next)
		if nm["deletionTimestamp"] == nil {
			nm["deletionTimestamp"] = logicalDeletionTimestamp
			nm["deletionGracePeriodSeconds"] = int64(0)
		}
		if reflect.DeepEqual(next, cur) {
			return 200, DeepCopy(cur)
		}
		nm["resourceVersion"] = s.nextRV()
		rs.objs[key] = next
		entry.Post = DeepCopy(next)
		s.emitLocked(rs, "MODIFIED", next)
		return 200, DeepCopy(next)
	}
	delete(rs.objs, key)
	delete(rs.ssa, key)
	final := DeepCopy(cur)
	meta(final)["resourceVersion"] = s.nextRV()
	entry.Post = nil
	s.emitLocked(rs, "DELETED", final)
	return 200, &metav1.Status{TypeMeta: metav1.TypeMeta{Kind: "Status", APIVersion: "v1"}, Status: metav1.StatusSuccess, Details: &metav1.StatusDetails{Name: name, Group: info.Group, Kind: info.Resource, UID: ""}}
}

func (s *Server) patchLocked(rs *resState, in *opInput, cur Obj, entry *Request) (int, interface{}) {
	info := rs.info
	ri := in.ri
	gr := schema.GroupResource{Group: info.Group, Resource: info.Resource}
	ct := strings.TrimSpace(strings.Split(in.contentType, ";")[0])
	switch ct {
	case "application/apply-patch+yaml":
		return s.applyPatchLocked(rs, in, cur, entry)
	case "application/json-patch+json", "application/merge-patch+json":
		if cur == nil {
			return 404, statusOf(apierrors.NewNotFound(gr, ri.Name))
		}
		curJSON, err := kjson.Marshal(cur)
		if err != nil {
			return s.fail(500, metav1.StatusReasonInternalError, "marshal: %v", err)
		}
		var outJSON []byte
		if ct == "application/json-patch+json" {
			p, err := jsonpatch.DecodePatch(in.body)
			if err != nil {
				return s.fail(400, metav1.StatusReasonBadRequest, "bad json patch: %v", err)
			}
			outJSON, err = p.Apply(curJSON)
			if err != nil {
				return s.fail(422, metav1.StatusReasonInvalid, "json patch does not apply: %v", err)
			}
		} else {
			outJSON, err = jsonpatch.MergePatch(curJSON, in.body)
			if err != nil {
				return s.fail(400, metav1.StatusReasonBadRequest, "bad merge patch: %v", err)
			}
		}
		var next Obj
		if err := kjson.Unmarshal(outJSON, &next); err != nil {
			return s.fail(422, metav1.StatusReasonInvalid, "patch result is not an object: %v", err)
		}
		if st := validateObject(next, info); st != nil {
			return int(st.Code), st
		}
		// a patch carries no optimistic lock unless it sets resourceVersion itself
		if !patchMentionsRV(in.body) {
			delete(meta(next), "resourceVersion")
		}
		return s.updateLocked(rs, cur, next, ri.Sub, entry, false)
	}
	return s.fail(415, metav1.StatusReason("UnsupportedMediaType"), "patch type %q not supported", ct)
}

func patchMentionsRV(b []byte) bool { return bytes.Contains(b, []byte("resourceVersion")) }

// ---------------------------------------------------------------------------------------------
// watch

func (s *Server) emitLocked(rs *resState, typ string, obj Obj) {
	rv, _ := strconv.ParseInt(MetaString(obj, "resourceVersion"), 10, 64)
	ev := event{typ: typ, obj: DeepCopy(obj), rv: rv}
	rs.history = append(rs.history, ev)
	if rs.held {
		rs.heldBuf = append(rs.heldBuf, ev)
		return
	}
	s.releaseLocked(rs, ev)
}

func (s *Server) releaseLocked(rs *resState, ev event) {
	key := objKey(MetaString(ev.obj, "namespace"), MetaString(ev.obj, "name"))
	if ev.typ == "DELETED" {
		delete(rs.visible, key)
	} else {
		rs.visible[key] = MetaString(ev.obj, "resourceVersion")
	}
	for _, w := range s.watchers {
		if w.gvr != rs.info.GVR() {
			continue
		}
		w.offer(ev)
	}
}

func (w *watcher) offer(ev event) {
	if w.ns != "" && MetaString(ev.obj, "namespace") != w.ns {
		return
	}
	if w.sel != nil && !w.sel.Matches(labels.Set(Labels(ev.obj))) {
		return
	}
	w.mu.Lock()
	if !w.closed {
		w.queue = append(w.queue, ev)
		w.cond.Broadcast()
	}
	w.mu.Unlock()
}

// HoldWatch buffers (hold=true) or releases (hold=false) watch events of a resource; while held
// every informer cache of that resource goes stale.
func (s *Server) HoldWatch(gvr schema.GroupVersionResource, hold bool) {
	s.mu.Lock()
	defer s.mu.Unlock()
	rs := s.res[gvr]
	if rs == nil {
		return
	}
	if hold {
		rs.held = true
		return
	}
	rs.held = false
	buf := rs.heldBuf
	rs.heldBuf = nil
	for _, ev := range buf {
		s.releaseLocked(rs, ev)
	}
}

// DropWatches closes every open watch of the resource; with compact=true a re-watch from an old
// resourceVersion is answered 410 Gone, forcing a relist (the way real tombstones come about).
func (s *Server) DropWatches(gvr schema.GroupVersionResource, compact bool) {
	s.mu.Lock()
	rs := s.res[gvr]
	if rs != nil && compact {
		rs.minRV = s.rv + 1
		s.rv++ // make sure "current" is strictly newer than anything a client has seen
	}
	var ws []*watcher
	for _, w := range s.watchers {
		if w.gvr == gvr {
			ws = append(ws, w)
		}
	}
	s.mu.Unlock()
	for _, w := range ws {
		w.close()
	}
}

func (w *watcher) close() {
	w.mu.Lock()
	w.closed = true
	w.cond.Broadcast()
	w.mu.Unlock()
}

// OpenWatches returns the number of open watch streams for a resource.
func (s *Server) OpenWatches(gvr schema.GroupVersionResource) int {
	s.mu.Lock()
	defer s.mu.Unlock()
	n := 0
	for _, w := range s.watchers {
		if w.gvr == gvr {
			w.mu.Lock()
			if !w.closed {
				n++
			}
			w.mu.Unlock()
		}
	}
	return n
}

// WatchesDrained reports whether every open watch of the resource has an empty send queue.
func (s *Server) WatchesDrained(gvr schema.GroupVersionResource) bool {
	s.mu.Lock()
	defer s.mu.Unlock()
	for _, w := range s.watchers {
		if w.gvr != gvr {
			continue
		}
		w.mu.Lock()
		pending := !w.closed && len(w.queue) > 0
		w.mu.Unlock()
		if pending {
			return false
		}
	}
	return true
}

// Visible returns key -> resourceVersion as released to watchers (what a caught-up cache holds).
func (s *Server) Visible(gvr schema.GroupVersionResource) map[string]string {
	s.mu.Lock()
	defer s.mu.Unlock()
	rs := s.res[gvr]
	out := map[string]string{}
	if rs == nil {
		return out
	}
	for k, v := range rs.visible {
		out[k] = v
	}
	return out
}

type watchBody struct {
	r    *io.PipeReader
	once sync.Once
	fn   func()
}

func (b *watchBody) Read(p []byte) (int, error) { return b.r.Read(p) }
func (b *watchBody) Close() error {
	b.once.Do(b.fn)
	return b.r.Close()
}

func (s *Server) serveWatch(req *http.Request, ri *ReqInfo, q url.Values) (*http.Response, error) {
	s.mu.Lock()
	rs := s.res[ri.GVR]
	if rs == nil {
		s.mu.Unlock()
		return jsonResponse(req, 404, statusErr(404, metav1.StatusReasonNotFound, "no such resource")), nil
	}
	from, _ := strconv.ParseInt(q.Get("resourceVersion"), 10, 64)
	entry := &Request{Seq: ri.Seq, Actor: "mc", Tag: ri.Tag, Verb: "watch", GVR: ri.GVR, NS: ri.NS, Query: flatQuery(q), Code: 200}
	if rs.minRV > 0 && from < rs.minRV {
		entry.Code = 410
		entry.Reason = string(metav1.StatusReasonExpired)
		s.log = append(s.log, entry)
		s.mu.Unlock()
		st := statusErr(410, metav1.StatusReasonExpired, fmt.Sprintf("too old resource version: %d (%d)", from, rs.minRV))
		return jsonResponse(req, 410, st), nil
	}
	var sel labels.Selector
	if ls := q.Get("labelSelector"); ls != "" {
		sel, _ = labels.Parse(ls)
	}
	s.watcherID++
	w := &watcher{id: s.watcherID, gvr: ri.GVR, ns: ri.NS, sel: sel}
	w.cond = sync.NewCond(&w.mu)
	// replay released history newer than "from"
	heldStart := len(rs.history) - len(rs.heldBuf)
	for i, ev := range rs.history {
		if i >= heldStart {
			break
		}
		if ev.rv > from {
			w.offer(ev)
		}
	}
	s.watchers[w.id] = w
	s.watchLog = append(s.watchLog, "open "+ri.GVR.Resource)
	s.log = append(s.log, entry)
	s.mu.Unlock()

	pr, pw := io.Pipe()
	body := &watchBody{r: pr, fn: func() {
		w.close()
		s.mu.Lock()
		delete(s.watchers, w.id)
		s.watchLog = append(s.watchLog, "close "+ri.GVR.Resource)
		s.mu.Unlock()
	}}
	go func() {
		defer pw.Close()
		for {
			w.mu.Lock()
			for len(w.queue) == 0 && !w.closed {
				w.cond.Wait()
			}
			if w.closed {
				w.mu.Unlock()
				return
			}
			ev := w.queue[0]
			w.mu.Unlock()
			data, err := kjson.Marshal(map[string]interface{}{"type": ev.typ, "object": ev.obj})
			if err != nil {
				return
			}
			data = append(data, '\n')
			if _, err := pw.Write(data); err != nil {
				return
			}
			w.mu.Lock()
			if len(w.queue) > 0 {
				w.queue = w.queue[1:]
			}
			w.sent = ev.rv
			w.mu.Unlock()
		}
	}()
	return &http.Response{
		StatusCode: 200,
		Status:     "200 OK",
		Proto:      "HTTP/1.1",
		ProtoMajor: 1,
		ProtoMinor: 1,
		Header:     http.Header{"Content-Type": []string{"application/json"}, "Transfer-Encoding": []string{"chunked"}},
		Body:       body,
		Request:    req,
	}, nil
}
