//go:build verif

package verifsim

import (
	"sync"
	"time"

	"k8s.io/client-go/util/workqueue"
)

// RecQueue is a recording stand-in for the controller's rate-limited work queue. It wraps a real
// client-go work queue (same de-duplication and dirty/processing semantics) and makes time
// logical: AddRateLimited re-adds immediately (the number of requeues is still tracked, as the
// real rate limiter does), AddAfter parks the item until the harness releases it.
type RecQueue struct {
	inner workqueue.TypedInterface[any]

	mu       sync.Mutex
	ops      []QueueOp
	requeues map[any]int
	delayed  []DelayedItem
	inflight int
	current  any
	// HoldRateLimited parks rate-limited re-adds too (instead of re-adding at once); used by the
	// free-running modes so that a permanently failing key does not spin.
	HoldRateLimited bool
}

type QueueOp struct {
	Op    string // Add AddAfter AddRateLimited Forget Get Done
	Key   string
	Delay time.Duration
}

type DelayedItem struct {
	Key   any
	Delay time.Duration
	Rate  bool
}

var _ workqueue.TypedRateLimitingInterface[any] = &RecQueue{}

func NewRecQueue() *RecQueue {
	return &RecQueue{inner: workqueue.NewTyped[any](), requeues: map[any]int{}}
}

func keyString(item any) string {
	if s, ok := item.(string); ok {
		return s
	}
	return "<non-string>"
}

func (q *RecQueue) rec(op string, item any, d time.Duration) {
	q.ops = append(q.ops, QueueOp{Op: op, Key: keyString(item), Delay: d})
}

func (q *RecQueue) Add(item any) {
	q.mu.Lock()
	q.rec("Add", item, 0)
	q.mu.Unlock()
	q.inner.Add(item)
}

func (q *RecQueue) AddAfter(item any, d time.Duration) {
	q.mu.Lock()
	q.rec("AddAfter", item, d)
	q.delayed = append(q.delayed, DelayedItem{Key: item, Delay: d})
	q.mu.Unlock()
}

func (q *RecQueue) AddRateLimited(item any) {
	q.mu.Lock()
	q.rec("AddRateLimited", item, 0)
	q.requeues[item]++
	hold := q.HoldRateLimited
	if hold {
		q.delayed = append(q.delayed, DelayedItem{Key: item, Rate: true})
	}
	q.mu.Unlock()
	if !hold {
		q.inner.Add(item)
	}
}

func (q *RecQueue) Forget(item any) {
	q.mu.Lock()
	q.rec("Forget", item, 0)
	delete(q.requeues, item)
	q.mu.Unlock()
}

func (q *RecQueue) NumRequeues(item any) int {
	q.mu.Lock()
	defer q.mu.Unlock()
	return q.requeues[item]
}

func (q *RecQueue) Len() int { return q.inner.Len() }

func (q *RecQueue) Get() (any, bool) {
	item, shutdown := q.inner.Get()
	if !shutdown {
		q.mu.Lock()
		q.rec("Get", item, 0)
		q.inflight++
		q.current = item
		q.mu.Unlock()
	}
	return item, shutdown
}

func (q *RecQueue) Done(item any) {
	q.inner.Done(item)
	q.mu.Lock()
	q.rec("Done", item, 0)
	q.inflight--
	q.mu.Unlock()
}

func (q *RecQueue) ShutDown()          { q.inner.ShutDown() }
func (q *RecQueue) ShutDownWithDrain() { q.inner.ShutDownWithDrain() }
func (q *RecQueue) ShuttingDown() bool { return q.inner.ShuttingDown() }

// Current returns the key most recently handed to a worker by Get ("" if none).
func (q *RecQueue) Current() string {
	q.mu.Lock()
	defer q.mu.Unlock()
	if q.current == nil {
		return ""
	}
	return keyString(q.current)
}

// Idle reports whether nothing is queued or being processed.
func (q *RecQueue) Idle() bool {
	q.mu.Lock()
	defer q.mu.Unlock()
	return q.inflight == 0 && q.inner.Len() == 0
}

func (q *RecQueue) Mark() int {
	q.mu.Lock()
	defer q.mu.Unlock()
	return len(q.ops)
}

func (q *RecQueue) Since(mark int) []QueueOp {
	q.mu.Lock()
	defer q.mu.Unlock()
	return append([]QueueOp(nil), q.ops[mark:]...)
}

// AddedSince returns the set of keys added (by any Add* call) since mark.
func (q *RecQueue) AddedSince(mark int) map[string]int {
	out := map[string]int{}
	for _, op := range q.Since(mark) {
		switch op.Op {
		case "Add", "AddAfter", "AddRateLimited":
			out[op.Key]++
		}
	}
	return out
}

// Delayed returns the parked items.
func (q *RecQueue) Delayed() []DelayedItem {
	q.mu.Lock()
	defer q.mu.Unlock()
	return append([]DelayedItem(nil), q.delayed...)
}

// ReleaseDelayed moves every parked item into the queue (logical time passes).
func (q *RecQueue) ReleaseDelayed() int {
	q.mu.Lock()
	d := q.delayed
	q.delayed = nil
	q.mu.Unlock()
	for _, it := range d {
		q.inner.Add(it.Key)
	}
	return len(d)
}

// ReleaseDue moves the parked items whose delay is at most max into the queue (logical time passes
// by max); items parked for longer (a periodic resyncAfterSeconds request) stay parked.
func (q *RecQueue) ReleaseDue(max time.Duration) int {
	q.mu.Lock()
	var due, keep []DelayedItem
	for _, it := range q.delayed {
		if it.Delay <= max {
			due = append(due, it)
		} else {
			keep = append(keep, it)
		}
	}
	q.delayed = keep
	q.mu.Unlock()
	for _, it := range due {
		q.inner.Add(it.Key)
	}
	return len(due)
}

// DropDelayed forgets the parked items.
func (q *RecQueue) DropDelayed() {
	q.mu.Lock()
	q.delayed = nil
	q.mu.Unlock()
}
