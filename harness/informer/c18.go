//go:build verif

package informer

import (
	"fmt"
	"math/rand"
	"reflect"
	"sort"
	"strings"
	"sync"
	"sync/atomic"
	"testing"
	"time"

	"github.com/anishathalye/porcupine"
	"k8s.io/apimachinery/pkg/apis/meta/v1/unstructured"
	"k8s.io/apimachinery/pkg/labels"
	"k8s.io/apimachinery/pkg/runtime/schema"
	"k8s.io/client-go/discovery"
	"k8s.io/client-go/tools/cache"

	dynamicclientset "metacontroller/pkg/dynamic/clientset"
	dynamicdiscovery "metacontroller/pkg/dynamic/discovery"
	sim "metacontroller/pkg/verifsim"
)

// C18 - shared informers live while subscribed to; subscribers are isolated.

var c18Resources = []sim.ResourceInfo{sim.WidgetInfo, sim.ConfigMapInfo}

type c18Env struct {
	sim     *sim.Server
	res     *dynamicdiscovery.ResourceMap
	factory *SharedInformerFactory
}

func newC18Env() (*c18Env, error) {
	s := sim.NewCluster()
	dc, err := discovery.NewDiscoveryClientForConfig(s.RESTConfig())
	if err != nil {
		return nil, err
	}
	rm := dynamicdiscovery.NewResourceMap(dc)
	rm.Start(24 * time.Hour)
	deadline := time.Now().Add(20 * time.Second)
	for !rm.HasSynced() {
		if time.Now().After(deadline) {
			return nil, fmt.Errorf("discovery never synced")
		}
		time.Sleep(200 * time.Microsecond)
	}
	cs, err := dynamicclientset.New(s.RESTConfig(), rm)
	if err != nil {
		return nil, err
	}
	return &c18Env{sim: s, res: rm, factory: NewSharedInformerFactory(cs, 24*time.Hour)}, nil
}

func (e *c18Env) close() { e.res.Stop() }

type recEvent struct {
	Kind string // add update delete
	Key  string
	RV   string
	Old  string // resourceVersion of the old object for updates
}

type recHandler struct {
	id      string
	mu      sync.Mutex
	events  []recEvent
	removed bool
	late    []recEvent // events received after RemoveEventHandlers returned
	resync  bool       // added with its own resync period (has a timer of its own)
	judged  bool       // removed through RemoveEventHandlers: must stay silent from then on
}

func (h *recHandler) rec(ev recEvent) {
	h.mu.Lock()
	if h.removed {
		h.late = append(h.late, ev)
	} else {
		h.events = append(h.events, ev)
	}
	h.mu.Unlock()
}

func keyOf(o interface{}) (string, string) {
	if t, ok := o.(cache.DeletedFinalStateUnknown); ok {
		o = t.Obj
	}
	u, ok := o.(*unstructured.Unstructured)
	if !ok {
		return "?", ""
	}
	k := u.GetName()
	if u.GetNamespace() != "" {
		k = u.GetNamespace() + "/" + k
	}
	return k, u.GetResourceVersion()
}

func (h *recHandler) handler() cache.ResourceEventHandler {
	return cache.ResourceEventHandlerFuncs{
		AddFunc: func(o interface{}) { k, rv := keyOf(o); h.rec(recEvent{Kind: "add", Key: k, RV: rv}) },
		UpdateFunc: func(old, cur interface{}) {
			k, rv := keyOf(cur)
			_, orv := keyOf(old)
			h.rec(recEvent{Kind: "update", Key: k, RV: rv, Old: orv})
		},
		DeleteFunc: func(o interface{}) { k, rv := keyOf(o); h.rec(recEvent{Kind: "delete", Key: k, RV: rv}) },
	}
}

// shadow derives name -> resourceVersion from the stream.
func (h *recHandler) shadow() map[string]string {
	h.mu.Lock()
	defer h.mu.Unlock()
	m := map[string]string{}
	for _, e := range h.events {
		if e.Kind == "delete" {
			delete(m, e.Key)
		} else {
			m[e.Key] = e.RV
		}
	}
	return m
}

func (h *recHandler) changes() []recEvent {
	h.mu.Lock()
	defer h.mu.Unlock()
	var out []recEvent
	for _, e := range h.events {
		if e.Kind == "update" && e.Old == e.RV {
			continue // replay / resync
		}
		out = append(out, e)
	}
	return out
}

type c18Op struct {
	Op  string `json:"op"` // sub addh addhr rmh close create update delete
	Sub int    `json:"sub"`
	Res int    `json:"res"`
}

func (o c18Op) String() string { return fmt.Sprintf("%s(s%d,r%d)", o.Op, o.Sub, o.Res) }

type c18Slot struct {
	handle   *ResourceInformer
	handlers []*recHandler
	// expected changes each live handler must have seen since it was added
	expect map[*recHandler][]recEvent
}

// runC18Sequence executes one operation sequence and judges after every step.
func runC18Sequence(rep *sim.Reporter, id string, nsub, nres int, ops []c18Op) (ok bool, applied int) {
	e, err := newC18Env()
	if err != nil {
		rep.Inconclusive("C18", id, err.Error())
		return false, 0
	}
	defer e.close()
	slots := make([][]*c18Slot, nsub)
	for i := range slots {
		slots[i] = make([]*c18Slot, nres)
		for j := range slots[i] {
			slots[i][j] = &c18Slot{expect: map[*recHandler][]recEvent{}}
		}
	}
	objSeq := 0
	anyResync := false
	var everAdded []*recHandler
	alive := make([][]string, nres) // object names per resource
	var opDesc []string
	ok = true
	viol := func(sig, detail string) {
		ok = false
		rep.Violation("C18", id, sig, detail, map[string]interface{}{"ops": opDesc})
	}
	subsOpen := func(r int) int {
		n := 0
		for s := 0; s < nsub; s++ {
			if slots[s][r].handle != nil {
				n++
			}
		}
		return n
	}
	// settle: every live handler's shadow equals the released store state
	settle := func() bool {
		deadline := time.Now().Add(15 * time.Second)
		for {
			allOK := true
			var lagging, caught []string
			for r := 0; r < nres; r++ {
				gvr := c18Resources[r].GVR()
				want := e.sim.Visible(gvr)
				for s := 0; s < nsub; s++ {
					for _, h := range slots[s][r].handlers {
						if h.removed {
							continue
						}
						if reflect.DeepEqual(h.shadow(), want) {
							caught = append(caught, h.id)
						} else {
							allOK = false
							lagging = append(lagging, h.id)
						}
					}
				}
				// watch bookkeeping
				if n := subsOpen(r); n > 0 && e.sim.OpenWatches(gvr) != 1 {
					allOK = false
				} else if n == 0 && e.sim.OpenWatches(gvr) != 0 {
					allOK = false
				}
			}
			if allOK {
				return true
			}
			if time.Now().After(deadline) {
				for r := 0; r < nres; r++ {
					gvr := c18Resources[r].GVR()
					n, w := subsOpen(r), e.sim.OpenWatches(gvr)
					if n > 0 && w != 1 {
						viol(fmt.Sprintf("watch-count:subscribed:%d-watches", w), fmt.Sprintf("%d subscription(s) open for %s but the API server sees %d open watch streams (want exactly 1)", n, gvr.Resource, w))
					}
					if n == 0 && w != 0 {
						viol("informer-not-stopped-after-last-close", fmt.Sprintf("no subscription is open for %s but the API server still sees %d open watch stream(s)", gvr.Resource, w))
					}
				}
				if len(lagging) > 0 {
					viol("handler-missed-events", fmt.Sprintf("handlers %v never reached the released state of the store (handlers that did: %v)", lagging, caught))
				}
				return false
			}
			time.Sleep(200 * time.Microsecond)
		}
	}
	for _, op := range ops {
		slot := slots[op.Sub%nsub][op.Res%nres]
		r := op.Res % nres
		info := c18Resources[r]
		gvr := info.GVR()
		switch op.Op {
		case "sub":
			if slot.handle != nil {
				continue
			}
			h, err := e.factory.Resource(info.APIVersion(), info.Resource)
			if err != nil {
				viol("subscribe-failed", err.Error())
				return ok, applied
			}
			slot.handle = h
		case "addh", "addhr":
			if slot.handle == nil {
				continue
			}
			rh := &recHandler{id: fmt.Sprintf("s%d.r%d.h%d", op.Sub%nsub, r, len(slot.handlers))}
			snapshot := e.sim.Visible(gvr)
			synced := slot.handle.Informer().HasSynced()
			if op.Op == "addhr" {
				rh.resync = true
				anyResync = true
				slot.handle.Informer().AddEventHandlerWithResyncPeriod(rh.handler(), 40*time.Millisecond)
			} else {
				slot.handle.Informer().AddEventHandler(rh.handler())
			}
			slot.handlers = append(slot.handlers, rh)
			everAdded = append(everAdded, rh)
			// replay at add time: if the cache was synced, the handler must have been shown
			// everything already cached by the time AddEventHandler returns
			if synced && len(snapshot) > 0 {
				sh := rh.shadow()
				for k := range snapshot {
					if _, has := sh[k]; !has {
						viol("no-replay-at-add", fmt.Sprintf("handler %s was added to a synced informer holding %v but was not shown %s when AddEventHandler returned", rh.id, snapshot, k))
						break
					}
				}
			}
		case "rmh":
			if slot.handle == nil {
				continue
			}
			slot.handle.Informer().RemoveEventHandlers()
			waitTimers := false
			for _, h := range slot.handlers {
				h.mu.Lock()
				h.removed = true
				h.judged = true
				waitTimers = waitTimers || h.resync
				h.mu.Unlock()
			}
			if waitTimers {
				// a handler with its own resync period has a timer of its own; give a timer that
				// was not stopped the time to show itself (2.5 periods)
				time.Sleep(100 * time.Millisecond)
			}
		case "close":
			if slot.handle == nil {
				continue
			}
			// a controller removes its handlers before closing; closing alone must not affect others
			slot.handle.Close()
			slot.handle = nil
			for _, h := range slot.handlers {
				// handlers of a closed subscription that were not removed still hang on the shared
				// informer while others keep it open; they are not judged further
				h.mu.Lock()
				h.removed = h.removed || subsOpen(r) == 0
				h.mu.Unlock()
			}
			if subsOpen(r) > 0 {
				// keep judging them only if still registered: mark as detached to avoid demanding
				for _, h := range slot.handlers {
					h.mu.Lock()
					if !h.removed {
						h.removed = true // not judged any more (legal sequences remove first)
						h.late = nil
					}
					h.mu.Unlock()
				}
			}
			slot.handlers = nil
		case "create":
			objSeq++
			name := fmt.Sprintf("o%d", objSeq)
			o := sim.NewObject(info, "ns", name)
			o["spec"] = sim.Obj{"n": int64(objSeq)}
			e.sim.MustCreate(gvr, o)
			alive[r] = append(alive[r], name)
		case "update":
			if len(alive[r]) == 0 {
				continue
			}
			objSeq++
			n := objSeq
			e.sim.ExtMutate(gvr, "ns", alive[r][n%len(alive[r])], func(o sim.Obj) { sim.SetNested(o, int64(n), "spec", "n") })
		case "delete":
			if len(alive[r]) == 0 {
				continue
			}
			e.sim.ExtDelete(gvr, "ns", alive[r][0], "")
			alive[r] = alive[r][1:]
		}
		applied++
		opDesc = append(opDesc, op.String())
		if !settle() {
			return ok, applied
		}
		// nothing arrives after RemoveEventHandlers returned
		for s := 0; s < nsub; s++ {
			for rr := 0; rr < nres; rr++ {
				for _, h := range slots[s][rr].handlers {
					h.mu.Lock()
					late := len(h.late)
					h.mu.Unlock()
					if late > 0 {
						viol("event-after-remove", fmt.Sprintf("handler %s received %d event(s) after its subscription's RemoveEventHandlers returned", h.id, late))
					}
				}
			}
		}
		// per-handler streams: changes are in resourceVersion order per object, no duplicates
		for s := 0; s < nsub; s++ {
			for rr := 0; rr < nres; rr++ {
				for _, h := range slots[s][rr].handlers {
					last := map[string]int64{}
					for _, ev := range h.changes() {
						var rv int64
						fmt.Sscan(ev.RV, &rv)
						if prev, seen := last[ev.Key]; seen && rv < prev {
							viol("events-reordered", fmt.Sprintf("handler %s saw %s at resourceVersion %d after %d", h.id, ev.Key, rv, prev))
						} else if seen && rv == prev && ev.Kind != "delete" {
							viol("event-duplicated", fmt.Sprintf("handler %s saw the change of %s to resourceVersion %d twice", h.id, ev.Key, rv))
						}
						last[ev.Key] = rv
					}
				}
			}
		}
		// the cache of every open subscription tracks the store
		for s := 0; s < nsub; s++ {
			for rr := 0; rr < nres; rr++ {
				sl := slots[s][rr]
				if sl.handle == nil {
					continue
				}
				want := e.sim.Visible(c18Resources[rr].GVR())
				deadline := time.Now().Add(15 * time.Second)
				for {
					have := map[string]string{}
					objs, _ := sl.handle.Lister().List(labels.Everything())
					for _, o := range objs {
						have[o.GetNamespace()+"/"+o.GetName()] = o.GetResourceVersion()
					}
					if reflect.DeepEqual(have, want) {
						break
					}
					if time.Now().After(deadline) {
						viol("cache-not-tracking-store", fmt.Sprintf("subscription s%d.r%d: cache %v, store %v", s, rr, have, want))
						return ok, applied
					}
					time.Sleep(200 * time.Microsecond)
				}
			}
		}
	}
	// tidy up so that goroutines end
	for s := 0; s < nsub; s++ {
		for r := 0; r < nres; r++ {
			if sl := slots[s][r]; sl.handle != nil {
				sl.handle.Informer().RemoveEventHandlers()
				for _, h := range sl.handlers {
					h.mu.Lock()
					h.removed = true
					h.judged = true
					h.mu.Unlock()
				}
				sl.handle.Close()
				sl.handle = nil
			}
		}
	}
	// every handler that was removed through RemoveEventHandlers stayed silent to the end, also
	// after its subscription (and the informer) was closed
	if anyResync {
		time.Sleep(100 * time.Millisecond)
	}
	for _, h := range everAdded {
		h.mu.Lock()
		late, judged := len(h.late), h.judged
		h.mu.Unlock()
		if judged && late > 0 {
			viol("event-after-remove", fmt.Sprintf("handler %s received %d event(s) after its subscription's RemoveEventHandlers returned", h.id, late))
		}
	}
	for r := 0; r < nres; r++ {
		deadline := time.Now().Add(10 * time.Second)
		for e.sim.OpenWatches(c18Resources[r].GVR()) != 0 {
			if time.Now().After(deadline) {
				viol("informer-not-stopped-after-last-close", fmt.Sprintf("after closing everything %s still has an open watch", c18Resources[r].Resource))
				break
			}
			time.Sleep(200 * time.Microsecond)
		}
	}
	e.factory.mutex.Lock()
	left := len(e.factory.sharedInformers) + len(e.factory.refCount)
	e.factory.mutex.Unlock()
	if left != 0 {
		viol("factory-not-empty-after-close", fmt.Sprintf("after closing every subscription the factory still tracks %d entries", left))
	}
	return ok, applied
}

func TestVerif_C18_Sequences(t *testing.T) {
	rep := sim.R()
	opNames := []string{"sub", "addh", "rmh", "close", "create", "update", "delete"}
	// exhaustive over legal sequences (2 subscribers, 1 resource): an abstract state makes sure
	// every operation is applicable (no double subscribe, no handler on a closed subscription, no
	// update of a missing object); longer / wider ones are drawn at random below
	maxLen := sim.Pick(6, 8)
	type absState struct {
		sub  [2]int // 0 closed, 1 open, 2 open with handlers, 3 open with handlers removed
		objs int
	}
	var final [][]c18Op
	var rec func(prefix []c18Op, st absState)
	rec = func(prefix []c18Op, st absState) {
		if len(prefix) == maxLen {
			final = append(final, append([]c18Op(nil), prefix...))
			return
		}
		extended := false
		for s := 0; s < 2; s++ {
			switch st.sub[s] {
			case 0:
				n := st
				n.sub[s] = 1
				rec(append(prefix, c18Op{Op: "sub", Sub: s}), n)
				extended = true
			default:
				if st.sub[s] != 2 || len(prefix) < maxLen-1 {
					n := st
					n.sub[s] = 2
					rec(append(prefix, c18Op{Op: "addh", Sub: s}), n)
					if sim.Thorough() && s == 0 {
						// the first subscriber also adds handlers with a resync period of their own
						rec(append(prefix, c18Op{Op: "addhr", Sub: s}), n)
					}
				}
				if st.sub[s] == 2 {
					n := st
					n.sub[s] = 3
					rec(append(prefix, c18Op{Op: "rmh", Sub: s}), n)
				}
				if st.sub[s] != 2 { // legal use: handlers are removed before closing
					n := st
					n.sub[s] = 0
					rec(append(prefix, c18Op{Op: "close", Sub: s}), n)
				}
				extended = true
			}
		}
		// store traffic only matters while somebody could observe it
		if st.sub[0] > 0 || st.sub[1] > 0 {
			n := st
			n.objs++
			rec(append(prefix, c18Op{Op: "create"}), n)
			if st.objs > 0 {
				rec(append(prefix, c18Op{Op: "update"}), st)
				n2 := st
				n2.objs--
				rec(append(prefix, c18Op{Op: "delete"}), n2)
			}
		}
		_ = extended
	}
	rec(nil, absState{})
	stride := sim.Pick(len(final)/1500+1, len(final)/60000+1)
	offset := int(sim.Seed()) % stride
	sem := make(chan struct{}, 48)
	var wg sync.WaitGroup
	var ran, totalOps int64
	for i, sq := range final {
		if i%stride != offset {
			continue
		}
		id := fmt.Sprintf("c18-seq-%d", i)
		if !sim.WantCase(id) {
			continue
		}
		wg.Add(1)
		sem <- struct{}{}
		go func(id string, sq []c18Op) {
			defer wg.Done()
			defer func() { <-sem }()
			rep.Begin("C18", id)
			var applied int
			if stack, p := sim.Guard(func() { _, applied = runC18Sequence(rep, id, 2, 1, sq) }); p {
				rep.Violation("C18", id, "panic:"+sim.PanicSite(stack), "the informer factory panicked: "+stack, map[string]interface{}{"ops": fmt.Sprint(sq)})
			}
			atomic.AddInt64(&ran, 1)
			atomic.AddInt64(&totalOps, int64(applied))
			var names []string
			for _, o := range sq {
				names = append(names, o.String())
			}
			rep.Case("C18", id, applied > 1, strings.Join(names, " "), map[string]interface{}{"ops": names, "applied": applied})
		}(id, sq)
	}
	wg.Wait()
	rep.Note("C18", fmt.Sprintf("legal sequences of length %d over 2 subscribers x 1 resource: %d, stride %d -> %d executed", maxLen, len(final), stride, ran))
	// random longer sequences over 3 subscribers x 2 resources, with per-handler resync periods
	rng := sim.Rand("C18")
	all := append(append([]string{}, opNames...), "addhr")
	n := sim.Pick(150, 3000)
	for i := 0; i < n; i++ {
		var sq []c18Op
		for k := 0; k < 6+rng.Intn(10); k++ {
			sq = append(sq, c18Op{Op: all[rng.Intn(len(all))], Sub: rng.Intn(3), Res: rng.Intn(2)})
		}
		id := fmt.Sprintf("c18-rand-%d", i)
		if !sim.WantCase(id) {
			continue
		}
		wg.Add(1)
		sem <- struct{}{}
		go func(id string, sq []c18Op) {
			defer wg.Done()
			defer func() { <-sem }()
			rep.Begin("C18", id)
			var applied int
			if stack, p := sim.Guard(func() { _, applied = runC18Sequence(rep, id, 3, 2, sq) }); p {
				rep.Violation("C18", id, "panic:"+sim.PanicSite(stack), "the informer factory panicked: "+stack, map[string]interface{}{"ops": fmt.Sprint(sq)})
			}
			atomic.AddInt64(&totalOps, int64(applied))
			var names []string
			for _, o := range sq {
				names = append(names, o.String())
			}
			rep.Case("C18", id, applied > 1, strings.Join(names, " "), map[string]interface{}{"ops": names, "applied": applied})
		}(id, sq)
	}
	wg.Wait()
	rep.Counter("C18", "operations_applied_and_judged", totalOps)
}

// ---------------------------------------------------------------------------------------------
// concurrent part: subscribe/close histories checked for linearizability with porcupine

type rcInput struct {
	Op  string // sub close
	Res int
}
type rcOutput struct {
	ID string // identity of the underlying shared informer (subscribe only)
}
type rcState struct {
	Count int
	ID    string
}

func TestVerif_C18_Concurrent(t *testing.T) {
	rep := sim.R()
	rounds := sim.Pick(30, 400)
	rng := sim.Rand("C18-concurrent")
	for round := 0; round < rounds; round++ {
		id := fmt.Sprintf("c18-conc-%d", round)
		if !sim.WantCase(id) {
			continue
		}
		rep.Begin("C18", id)
		seed := rng.Int63()
		runC18Concurrent(rep, id, seed)
	}
}

func runC18Concurrent(rep *sim.Reporter, id string, seed int64) {
	e, err := newC18Env()
	if err != nil {
		rep.Inconclusive("C18", id, err.Error())
		return
	}
	defer e.close()
	nworkers := 3 + int(seed%4)
	var clock int64
	var mu sync.Mutex
	var history []porcupine.Operation
	var wg sync.WaitGroup
	ids := sync.Map{}
	var idSeq int64
	idOf := func(sri *sharedResourceInformer) string {
		if v, ok := ids.Load(sri); ok {
			return v.(string)
		}
		v, _ := ids.LoadOrStore(sri, fmt.Sprintf("inf%d", atomic.AddInt64(&idSeq, 1)))
		return v.(string)
	}
	// a little store traffic so that informers have something to do
	for i := 0; i < 3; i++ {
		for _, ri := range c18Resources {
			o := sim.NewObject(ri, "ns", fmt.Sprintf("pre%d", i))
			e.sim.MustCreate(ri.GVR(), o)
		}
	}
	for wk := 0; wk < nworkers; wk++ {
		wg.Add(1)
		wk := wk
		go func() {
			defer wg.Done()
			rng := rand.New(rand.NewSource(seed + int64(wk)*7919))
			var open [2][]*ResourceInformer
			for step := 0; step < 12; step++ {
				r := rng.Intn(2)
				info := c18Resources[r]
				if len(open[r]) > 0 && rng.Intn(2) == 0 {
					h := open[r][len(open[r])-1]
					open[r] = open[r][:len(open[r])-1]
					h.Informer().RemoveEventHandlers()
					call := atomic.AddInt64(&clock, 1)
					h.Close()
					ret := atomic.AddInt64(&clock, 1)
					mu.Lock()
					history = append(history, porcupine.Operation{ClientId: wk, Input: rcInput{"close", r}, Call: call, Output: rcOutput{}, Return: ret})
					mu.Unlock()
				} else {
					call := atomic.AddInt64(&clock, 1)
					h, err := e.factory.Resource(info.APIVersion(), info.Resource)
					ret := atomic.AddInt64(&clock, 1)
					if err != nil {
						continue
					}
					h.Informer().AddEventHandler(cache.ResourceEventHandlerFuncs{AddFunc: func(interface{}) {}, UpdateFunc: func(_, _ interface{}) {}})
					open[r] = append(open[r], h)
					mu.Lock()
					history = append(history, porcupine.Operation{ClientId: wk, Input: rcInput{"sub", r}, Call: call, Output: rcOutput{ID: idOf(h.sharedResourceInformer)}, Return: ret})
					mu.Unlock()
				}
				if rng.Intn(3) == 0 {
					e.sim.ExtMutate(info.GVR(), "ns", "pre0", func(o sim.Obj) { sim.SetNested(o, int64(step), "spec", "n") })
				}
			}
			for r := range open {
				for _, h := range open[r] {
					h.Informer().RemoveEventHandlers()
					call := atomic.AddInt64(&clock, 1)
					h.Close()
					ret := atomic.AddInt64(&clock, 1)
					mu.Lock()
					history = append(history, porcupine.Operation{ClientId: wk, Input: rcInput{"close", r}, Call: call, Output: rcOutput{}, Return: ret})
					mu.Unlock()
				}
			}
		}()
	}
	wg.Wait()
	model := porcupine.Model{
		Partition: func(h []porcupine.Operation) [][]porcupine.Operation {
			parts := map[int][]porcupine.Operation{}
			for _, op := range h {
				parts[op.Input.(rcInput).Res] = append(parts[op.Input.(rcInput).Res], op)
			}
			var out [][]porcupine.Operation
			for _, p := range parts {
				out = append(out, p)
			}
			return out
		},
		Init: func() interface{} { return rcState{} },
		Step: func(state, input, output interface{}) (bool, interface{}) {
			st := state.(rcState)
			in := input.(rcInput)
			if in.Op == "close" {
				st.Count--
				if st.Count == 0 {
					st.ID = ""
				}
				return st.Count >= 0, st
			}
			out := output.(rcOutput)
			if st.Count > 0 {
				if out.ID != st.ID {
					return false, st
				}
				st.Count++
				return true, st
			}
			// a fresh informer: its identity must be new ("used:" prefix marks retired ids)
			st.Count = 1
			st.ID = out.ID
			return true, st
		},
		Equal: func(a, b interface{}) bool { return a.(rcState) == b.(rcState) },
		DescribeOperation: func(input, output interface{}) string {
			return fmt.Sprintf("%v -> %v", input, output)
		},
	}
	res := porcupine.CheckOperationsTimeout(model, history, 60*time.Second)
	switch res {
	case porcupine.Illegal:
		var lines []string
		sort.Slice(history, func(i, j int) bool { return history[i].Call < history[j].Call })
		for _, op := range history {
			lines = append(lines, fmt.Sprintf("[%d,%d] c%d %v -> %v", op.Call, op.Return, op.ClientId, op.Input, op.Output))
		}
		rep.Violation("C18", id, "refcount-history-not-linearizable", "the recorded history of Subscribe (-> identity of the shared informer) and Close is not linearizable against the sequential model 'one informer per resource while the count is positive'", map[string]interface{}{"seed": seed, "history": lines})
	case porcupine.Unknown:
		rep.Inconclusive("C18", id, "porcupine timed out")
		return
	}
	// a fresh id must never be an id that was retired earlier (checked outside the model: ids are unique per pointer)
	// at quiescence: nothing left
	deadline := time.Now().Add(15 * time.Second)
	for _, ri := range c18Resources {
		for e.sim.OpenWatches(ri.GVR()) != 0 {
			if time.Now().After(deadline) {
				rep.Violation("C18", id, "informer-not-stopped-after-last-close", fmt.Sprintf("all subscriptions closed, %s still has %d open watch stream(s)", ri.Resource, e.sim.OpenWatches(ri.GVR())), map[string]interface{}{"seed": seed})
				break
			}
			time.Sleep(200 * time.Microsecond)
		}
	}
	e.factory.mutex.Lock()
	left := len(e.factory.sharedInformers) + len(e.factory.refCount)
	e.factory.mutex.Unlock()
	if left != 0 {
		rep.Violation("C18", id, "factory-not-empty-after-close", fmt.Sprintf("factory still tracks %d entries", left), map[string]interface{}{"seed": seed})
	}
	rep.Counter("C18", "porcupine_histories_checked", 1)
	rep.Counter("C18", "porcupine_operations", int64(len(history)))
	rep.Case("C18", id, len(history) > 4, fmt.Sprintf("concurrent/%d/%d", seed, len(history)), map[string]interface{}{"seed": seed, "workers": nworkers, "operations": len(history), "verdict": fmt.Sprint(res)})
}

var _ = schema.GroupVersionResource{}

// Handlers with their own resync period: after RemoveEventHandlers (and after Close) nothing more
// arrives, whatever else stays subscribed. Deterministic small sequences through the same executor.
func TestVerif_C18_ResyncTimers(t *testing.T) {
	rep := sim.R()
	n := 0
	for _, other := range []string{"none", "subscribed", "with-handler"} {
		for _, objs := range []int{1, 3} {
			for _, handlers := range []int{1, 2} {
				for _, tail := range []string{"rmh", "rmh-close", "rmh-close-resub"} {
					var ops []c18Op
					ops = append(ops, c18Op{Op: "sub", Sub: 0})
					if other != "none" {
						ops = append(ops, c18Op{Op: "sub", Sub: 1})
					}
					if other == "with-handler" {
						ops = append(ops, c18Op{Op: "addh", Sub: 1})
					}
					for i := 0; i < objs; i++ {
						ops = append(ops, c18Op{Op: "create"})
					}
					for i := 0; i < handlers; i++ {
						ops = append(ops, c18Op{Op: "addhr", Sub: 0})
					}
					ops = append(ops, c18Op{Op: "update"}, c18Op{Op: "rmh", Sub: 0})
					if tail != "rmh" {
						ops = append(ops, c18Op{Op: "close", Sub: 0})
					}
					if tail == "rmh-close-resub" {
						ops = append(ops, c18Op{Op: "sub", Sub: 0}, c18Op{Op: "addhr", Sub: 0}, c18Op{Op: "update"})
					}
					id := fmt.Sprintf("c18-timers-%s-o%d-h%d-%s", other, objs, handlers, tail)
					if !sim.WantCase(id) {
						continue
					}
					n++
					t.Run(id, func(t *testing.T) {
						t.Parallel()
						rep.Begin("C18", id)
						var ok bool
						var applied int
						if stack, p := sim.Guard(func() { ok, applied = runC18Sequence(rep, id, 2, 1, ops) }); p {
							rep.Violation("C18", id, "panic:"+sim.PanicSite(stack), "the informer factory panicked: "+stack, map[string]interface{}{"ops": fmt.Sprint(ops)})
						}
						rep.Case("C18", id, applied == len(ops), id, map[string]interface{}{"ops": fmt.Sprint(ops), "ok": ok})
					})
				}
			}
		}
	}
	rep.Note("C18", fmt.Sprintf("resync-timer sequences: %d", n))
}

// A handler added while events are flowing: the replay ("everything already cached when it is added")
// and the registration ("every later event") leave no gap. The new handler's first replay callback
// is held until an object has been created and another deleted behind it (the informer's store
// already shows both changes); afterwards the handler must know exactly the objects that exist.
func TestVerif_C18_AddDuringEvents(t *testing.T) {
	rep := sim.R()
	for _, cached := range []int{2, 4} {
		for _, resync := range []bool{false, true} {
			for _, change := range []string{"create", "delete", "create+delete", "update"} {
				cached, resync, change := cached, resync, change
				id := fmt.Sprintf("c18-add-during-events-o%d-resync%v-%s", cached, resync, change)
				if !sim.WantCase(id) {
					continue
				}
				t.Run(id, func(t *testing.T) {
					t.Parallel()
					rep.Begin("C18", id)
					runC18AddDuringEvents(rep, id, cached, resync, change)
				})
			}
		}
	}
}

func runC18AddDuringEvents(rep *sim.Reporter, id string, cached int, resync bool, change string) {
	e, err := newC18Env()
	if err != nil {
		rep.Inconclusive("C18", id, err.Error())
		return
	}
	defer e.close()
	info := sim.WidgetInfo
	gvr := info.GVR()
	for i := 0; i < cached; i++ {
		o := sim.NewObject(info, "ns", fmt.Sprintf("o%d", i))
		o["spec"] = sim.Obj{"n": int64(i)}
		e.sim.MustCreate(gvr, o)
	}
	a, err := e.factory.Resource(info.APIVersion(), info.Resource)
	if err != nil {
		rep.Inconclusive("C18", id, err.Error())
		return
	}
	defer a.Close()
	first := &recHandler{id: "first"}
	a.Informer().AddEventHandler(first.handler())
	waitFor := func(cond func() bool) bool {
		deadline := time.Now().Add(20 * time.Second)
		for !cond() {
			if time.Now().After(deadline) {
				return false
			}
			time.Sleep(200 * time.Microsecond)
		}
		return true
	}
	listed := func() map[string]bool {
		m := map[string]bool{}
		l, _ := a.Lister().List(labels.Everything())
		for _, o := range l {
			m[o.GetName()] = true
		}
		return m
	}
	if !waitFor(func() bool { return a.Informer().HasSynced() && len(listed()) == cached }) {
		rep.Inconclusive("C18", id, "informer never synced")
		return
	}
	b, err := e.factory.Resource(info.APIVersion(), info.Resource)
	if err != nil {
		rep.Inconclusive("C18", id, err.Error())
		return
	}
	defer b.Close()
	second := &recHandler{id: "second"}
	entered, release := make(chan struct{}), make(chan struct{})
	var once sync.Once
	inner := second.handler()
	held := cache.ResourceEventHandlerFuncs{
		AddFunc: func(o interface{}) {
			once.Do(func() { close(entered); <-release })
			inner.OnAdd(o, false)
		},
		UpdateFunc: func(old, cur interface{}) {
			once.Do(func() { close(entered); <-release })
			inner.OnUpdate(old, cur)
		},
		DeleteFunc: func(o interface{}) { inner.OnDelete(o) },
	}
	done := make(chan struct{})
	go func() {
		if resync {
			b.Informer().AddEventHandlerWithResyncPeriod(held, time.Hour)
		} else {
			b.Informer().AddEventHandler(held)
		}
		close(done)
	}()
	select {
	case <-entered:
	case <-time.After(20 * time.Second):
		rep.Inconclusive("C18", id, "the replay to the new handler never began")
		close(release)
		return
	}
	// behind the held replay: the world changes, and the informer's own store follows
	wantNew, wantGone := "", ""
	if strings.Contains(change, "create") {
		wantNew = "newcomer"
		o := sim.NewObject(info, "ns", wantNew)
		o["spec"] = sim.Obj{"n": int64(99)}
		e.sim.MustCreate(gvr, o)
	}
	if strings.Contains(change, "delete") {
		wantGone = fmt.Sprintf("o%d", cached-1)
		e.sim.ExtDelete(gvr, "ns", wantGone, "")
	}
	if change == "update" {
		e.sim.ExtMutate(gvr, "ns", "o0", func(o sim.Obj) { sim.SetNested(o, int64(1234), "spec", "n") })
	}
	wantRV := ""
	if cur := e.sim.Peek(gvr, "ns", "o0"); cur != nil {
		wantRV = sim.MetaString(cur, "resourceVersion")
	}
	storeFollowed := waitFor(func() bool {
		l := listed()
		if wantNew != "" && !l[wantNew] {
			return false
		}
		if wantGone != "" && l[wantGone] {
			return false
		}
		if change == "update" {
			o, err := a.Lister().Namespace("ns").Get("o0")
			return err == nil && o.GetResourceVersion() == wantRV
		}
		return true
	})
	close(release)
	select {
	case <-done:
	case <-time.After(20 * time.Second):
		rep.Inconclusive("C18", id, "AddEventHandler never returned")
		return
	}
	if !storeFollowed {
		rep.Inconclusive("C18", id, "the informer's store did not follow the change while the replay was held")
		return
	}
	// let the dispatch finish: the first handler and the second agree with the store in the end
	want := e.sim.Visible(gvr) // key -> resourceVersion, as delivered to watchers
	agree := func(h *recHandler) bool { return reflect.DeepEqual(h.shadow(), want) }
	waitFor(func() bool { return agree(first) && agree(second) })
	wit := map[string]interface{}{"cached": cached, "ownResyncPeriod": resync, "change": change, "store": want, "second": second.shadow(), "first": first.shadow()}
	if !agree(first) {
		rep.Inconclusive("C18", id, fmt.Sprintf("the handler that was registered all along does not agree with the store: %v vs %v", first.shadow(), want))
		return
	}
	if !agree(second) {
		got := second.shadow()
		var missing, stale []string
		for k, rv := range want {
			if grv, ok := got[k]; !ok {
				missing = append(missing, k)
			} else if grv != rv {
				stale = append(stale, k)
			}
		}
		for k := range got {
			if _, ok := want[k]; !ok {
				stale = append(stale, k+"(deleted)")
			}
		}
		sort.Strings(missing)
		sort.Strings(stale)
		sig := "handler-added-during-events:missed-"
		switch {
		case len(missing) > 0:
			sig += "add"
		default:
			sig += "change"
		}
		rep.Violation("C18", id, sig, fmt.Sprintf("a handler added while the cache was changing ended up not knowing %v and holding stale state for %v (replay and registration left a gap)", missing, stale), wit)
	}
	rep.Case("C18", id, true, id, wit)
}
