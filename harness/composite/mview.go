//go:build verif

package composite

import (
	"fmt"
	"sort"
	"strings"

	"k8s.io/apimachinery/pkg/labels"

	sim "metacontroller/pkg/verifsim"
)

// M-VIEW: the C03 oracle as an always-on monitor. When a sync or finalize call arrives at the hook
// the store is read (nothing else runs in stepped mode) and the `children` map of the request is
// compared with what the parent owns right now: the objects of the declared child resources, in
// the parent's scope, whose controller reference carries the parent's UID and whose labels match
// its selector - one group per declared resource, keyed by name, or namespace/name exactly when
// the parent is cluster-scoped and the child namespaced. (Rolling strategies send the calls of the
// older revisions with a patched parent; the view is the same for all of them.)
func (w *world) observeHookCall(call *sim.HookCall) {
	if call.Path != "sync" && call.Path != "finalize" {
		return
	}
	parent, _ := call.Req["parent"].(map[string]interface{})
	if parent == nil {
		return
	}
	puid, pns := sim.UID(parent), sim.NS(parent)
	live := w.sim.Peek(w.parentGVR(), pns, sim.Name(parent))
	if live == nil || sim.UID(live) != puid {
		return // the parent was replaced behind the cache: not a situation this monitor judges
	}
	sel := w.selectorFor(live)
	if w.cfg.GenerateSelector {
		sel = labels.SelectorFromSet(labels.Set{"controller-uid": puid})
	}
	if sel == nil {
		return
	}
	clusterParent := !w.cfg.Parent.Namespaced
	want := map[string][]string{}
	for _, c := range w.cfg.Children {
		hk := sim.HookKey(c.Info)
		want[hk] = []string{}
		for _, o := range w.sim.PeekAll(c.Info.GVR()) {
			ctl := sim.ControllerOf(o)
			if ctl == nil || ctl.UID != puid || !sel.Matches(labels.Set(sim.Labels(o))) {
				continue
			}
			if !clusterParent && sim.NS(o) != pns {
				continue // a namespaced parent is shown its own namespace only (cluster-scoped objects are not)
			}
			k := sim.Name(o)
			if clusterParent && c.Info.Namespaced {
				k = sim.NS(o) + "/" + k
			}
			want[hk] = append(want[hk], k+"#"+sim.UID(o))
		}
	}
	got := map[string][]string{}
	children, _ := call.Req["children"].(map[string]interface{})
	for hk, g := range children {
		got[hk] = []string{}
		gm, _ := g.(map[string]interface{})
		for k, o := range gm {
			om, _ := o.(map[string]interface{})
			got[hk] = append(got[hk], k+"#"+sim.UID(om))
		}
	}
	flat := func(m map[string][]string) string {
		var out []string
		for hk, l := range m {
			sort.Strings(l)
			out = append(out, hk+"{"+strings.Join(l, ",")+"}")
		}
		sort.Strings(out)
		return strings.Join(out, " ")
	}
	w.viewsJudged++
	if a, b := flat(got), flat(want); a != b {
		sim.R().Violation("C03", w.reportID(), "mview:children-map-differs:"+call.Path, fmt.Sprintf("the children map sent to the %s hook differs from what the parent owns when the call arrives:\n  sent:  %s\n  owned: %s", call.Path, a, b), map[string]interface{}{"sync": call.Tag})
	}
}

// observeHookCallOverlapping is the part of M-VIEW that stays sound while syncs of several parents
// overlap: an object in the children map of a sync/finalize request must not, in the store at the
// moment the call arrives, carry the controller reference of somebody other than the parent the
// request is about (a parent never loses a child to another one without a write of its own, so a
// child that is another's now was another's when this sync claimed it).
func (w *world) observeHookCallOverlapping(call *sim.HookCall) {
	if call.Path != "sync" && call.Path != "finalize" {
		return
	}
	parent, _ := call.Req["parent"].(map[string]interface{})
	if parent == nil {
		return
	}
	puid, pns := sim.UID(parent), sim.NS(parent)
	children, _ := call.Req["children"].(map[string]interface{})
	for _, c := range w.cfg.Children {
		gm, _ := children[sim.HookKey(c.Info)].(map[string]interface{})
		for k, o := range gm {
			om, _ := o.(map[string]interface{})
			if om == nil {
				continue
			}
			ns := sim.NS(om)
			if ns == "" && c.Info.Namespaced {
				ns = pns
			}
			live := w.sim.Peek(c.Info.GVR(), ns, sim.Name(om))
			if live == nil || sim.UID(live) != sim.UID(om) {
				continue
			}
			sim.R().Counter("C03", "overlapping_views_judged", 1)
			if ctl := sim.ControllerOf(live); ctl != nil && ctl.UID != puid {
				sim.R().Violation("C03", w.reportID(), "mview:child-of-another-parent:"+call.Path, fmt.Sprintf("the %s hook of parent %s (uid %s) was sent %s %s, which the store says is controlled by %s %s (uid %s)", call.Path, sim.Name(parent), puid, sim.HookKey(c.Info), k, ctl.Kind, ctl.Name, ctl.UID), map[string]interface{}{"sync": call.Tag})
			}
		}
	}
}
