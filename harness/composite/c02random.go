//go:build verif

package composite

import (
	"fmt"
	"math/rand"
	"strings"
	"testing"

	"k8s.io/apimachinery/pkg/runtime/schema"

	sim "metacontroller/pkg/verifsim"
)

// C02, random part: the hostile outside writer of c02.go let loose on the scenarios of the C01
// generator (all strategies, both apply modes, cluster-scoped parents, several kinds, pre-existing
// look-alikes). In every phase one or two hostile actions (delete, delete-and-recreate as a
// matching / non-matching / foreign-owned successor, give the object to another controller, strip
// its owner) hit an object of a child resource: either with the child watch held back before the
// syncs (arbitrarily stale cache) or just before the k-th request. M-OWN judges every request.

type c02rAction struct {
	Phase    int    `json:"phase"`
	Position int    `json:"position"` // 0 = before the syncs with the watch held
	Action   string `json:"action"`
	Target   string `json:"target"`
}

func TestVerif_C02_RandomHostile(t *testing.T) {
	n := sim.Pick(120, 8000)
	rng := sim.Rand("C02-random")
	for i := 0; i < n; i++ {
		scSeed, hSeed := rng.Int63(), rng.Int63()
		id := fmt.Sprintf("c02r%d", i)
		if !sim.WantCase(id) {
			continue
		}
		t.Run(id, func(t *testing.T) {
			t.Parallel()
			runC02Random(t, id, scSeed, hSeed)
		})
	}
}

func runC02Random(t *testing.T, id string, scSeed, hSeed int64) {
	rep := sim.R()
	rep.Begin("C02", id)
	sc := genScenario(rand.New(rand.NewSource(scSeed)), id)
	r, err := startScenario(sc)
	if err != nil {
		inconclusive(t, "C02", id, fmt.Errorf("start: %v", err))
		return
	}
	defer r.close()
	r.w.caseID = id
	r.w.noViewMonitor = true // an outside writer acts behind a stale cache: the view is stale by construction
	defer r.w.flushCounters("C02")
	s := r.w.sim
	hrng := rand.New(rand.NewSource(hSeed))
	okey := func(gvr schema.GroupVersionResource, ns, name string) string { return gvr.Resource + "|" + ns + "|" + name }
	changedOwner, replaced := map[string]bool{}, map[string]bool{}
	foreignOwner := sim.Obj{"apiVersion": "apps/v1", "kind": "ReplicaSet", "metadata": sim.Obj{"name": "rs", "uid": "rs-" + sc.ID}}
	strip := func(sig string) string { // "<what>:<resource>" -> "<what>:<any>"
		if i := strings.LastIndex(sig, ":"); i >= 0 {
			return sig[:i] + ":<any>"
		}
		return sig
	}
	r.w.ownSig = func(f sim.Finding) string {
		if f.Req == nil {
			return f.Sig
		}
		k := okey(f.Req.GVR, f.Req.NS, f.Req.Name)
		if f.Req.Verb == "delete" && changedOwner[k] {
			return "delete-of-uncontrolled:owner-changed-after-observation"
		}
		if changedOwner[k] {
			return strip(f.Sig) + ":owner-changed-after-observation"
		}
		if replaced[k] {
			return strip(f.Sig) + ":replaced-after-observation"
		}
		return f.Sig
	}
	var done []c02rAction
	childGVRs := r.childGVRs()
	// act performs one hostile action on (gvr, ns, name), or on a random object of a child resource
	act := func(phase, pos int, gvr schema.GroupVersionResource, ns, name string) {
		if name == "" || s.Peek(gvr, ns, name) == nil {
			var cands []sim.Obj
			var cg []schema.GroupVersionResource
			for _, ri := range childGVRs {
				for _, o := range s.PeekAll(ri.GVR()) {
					cands = append(cands, o)
					cg = append(cg, ri.GVR())
				}
			}
			if len(cands) == 0 {
				return
			}
			i := hrng.Intn(len(cands))
			gvr, ns, name = cg[i], sim.NS(cands[i]), sim.Name(cands[i])
		}
		action := c02Actions[hrng.Intn(len(c02Actions))]
		k := okey(gvr, ns, name)
		switch action {
		case "delete":
			s.ExtDelete(gvr, ns, name, "")
		case "recreate-orphan", "recreate-nomatch", "recreate-foreign":
			old := s.Peek(gvr, ns, name)
			if old == nil || len(sim.Finalizers(old)) > 0 {
				return
			}
			if s.ExtDelete(gvr, ns, name, "") != nil {
				return
			}
			n := sim.Obj{"apiVersion": old["apiVersion"], "kind": old["kind"], "metadata": sim.Obj{"name": name}}
			if ns != "" {
				sim.SetNested(n, ns, "metadata", "namespace")
			}
			sim.SetLabels(n, sim.Labels(old))
			if action == "recreate-nomatch" {
				sim.SetLabels(n, map[string]string{"app": "somebody-else"})
			}
			if old["kind"] == "ConfigMap" {
				n["data"] = sim.Obj{"value": "successor"}
			} else {
				n["spec"] = sim.Obj{"value": "successor"}
			}
			if action == "recreate-foreign" {
				sim.AddOwner(n, foreignOwner, true)
			}
			if _, err := s.ExtCreate(gvr, n); err != nil {
				return
			}
			replaced[k] = true
		case "give-away":
			if _, err := s.ExtMutate(gvr, ns, name, func(o sim.Obj) {
				delete(o["metadata"].(map[string]interface{}), "ownerReferences")
				sim.AddOwner(o, foreignOwner, true)
			}); err != nil {
				return
			}
			changedOwner[k] = true
		case "disown":
			if _, err := s.ExtMutate(gvr, ns, name, func(o sim.Obj) { delete(o["metadata"].(map[string]interface{}), "ownerReferences") }); err != nil {
				return
			}
			changedOwner[k] = true
		}
		done = append(done, c02rAction{phase, pos, action, gvr.Resource + " " + ns + "/" + name})
	}
	isChild := func(g schema.GroupVersionResource) bool {
		for _, ri := range childGVRs {
			if ri.GVR() == g {
				return true
			}
		}
		return false
	}
	phases := 1 + len(sc.Edits)
	for phase := 0; phase < phases; phase++ {
		if phase > 0 && !r.applyEdit(sc.Edits[phase-1]) {
			continue
		}
		if !r.w.quiesce() {
			inconclusive(t, "C02", id, r.w.watchdog)
			return
		}
		held := false
		positions := map[int]bool{}
		for k := 0; k < 1+hrng.Intn(2); k++ {
			positions[hrng.Intn(14)] = true
		}
		if positions[0] {
			// arbitrarily stale cache: the writer acts while the child watches are held back
			for _, ri := range childGVRs {
				s.HoldWatch(ri.GVR(), true)
			}
			held = true
			act(phase, 0, schema.GroupVersionResource{}, "", "")
		}
		nreq := 0
		s.SetGate(func(ri *sim.ReqInfo) {
			if ri.OpSeq == 0 || ri.Tag == "" {
				return
			}
			nreq++
			if positions[nreq] {
				if isChild(ri.GVR) && ri.Name != "" {
					act(phase, nreq, ri.GVR, ri.NS, ri.Name)
				} else {
					act(phase, nreq, schema.GroupVersionResource{}, "", "")
				}
			}
		})
		// first round under the hostile schedule, then let everything settle
		for round := 0; round < r.roundBound(); round++ {
			syncs, ok := r.w.round()
			if !ok {
				inconclusive(t, "C02", id, r.w.watchdog)
				return
			}
			r.syncs = append(r.syncs, syncs...)
			if round == 0 {
				s.SetGate(nil)
				if held {
					for _, ri := range childGVRs {
						s.HoldWatch(ri.GVR(), false)
					}
					held = false
				}
			}
			if len(syncs) == 0 {
				if r.envStep() {
					continue
				}
				if !r.w.quiesce() {
					inconclusive(t, "C02", id, r.w.watchdog)
					return
				}
				if r.w.q.Len() == 0 {
					break
				}
			}
		}
		s.SetGate(nil)
	}
	rep.Counter("C02", "random_hostile_actions", int64(len(done)))
	rep.Case("C02", id, len(done) > 0, "random/"+sc.shapeKey()+"/"+sim.Hash(done)[:6], map[string]interface{}{"scenario": sc, "actions": done, "syncs": len(r.syncs)})
}
