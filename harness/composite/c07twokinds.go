//go:build verif

package composite

import (
	"fmt"
	"testing"

	sim "metacontroller/pkg/verifsim"
)

// C07 with two rolling child kinds whose children share names (Widget a,b + ConfigMap a,b): the
// bookkeeping of which child belongs to which parent revision is per kind AND name. Judged from the
// store alone, with the revision stamps the hook program copies into every child: a sync moves at
// most one child from an older revision to the latest one, and that child is the first in hook
// order among those still to move. Under a fair environment the rollout also completes (C08).

type twoKindsCfg struct {
	MethodA    string `json:"methodWidget"`
	MethodB    string `json:"methodConfigMap"`
	N          int    `json:"namesShared"`
	FieldPaths bool   `json:"customFieldPaths"`
	Interleave bool   `json:"hookOrderInterleaved"`
	GenSel     bool   `json:"generateSelector"`
}

func (c twoKindsCfg) id() string {
	return fmt.Sprintf("c07-twokinds-%s-%s-n%d-fp%v-il%v-gs%v", lower(c.MethodA), lower(c.MethodB), c.N, c.FieldPaths, c.Interleave, c.GenSel)
}

func TestVerif_C07_TwoKindsSameNames(t *testing.T) {
	for _, ma := range []string{"RollingInPlace", "RollingRecreate"} {
		for _, mb := range []string{"RollingInPlace", "RollingRecreate"} {
			for _, n := range []int{2, 3} {
				for _, fp := range []bool{false, true} {
					for _, il := range []bool{false, true} {
						for _, gs := range []bool{false, true} {
							if !sim.Thorough() && (n == 3) != (il == gs) {
								continue
							}
							c := twoKindsCfg{MethodA: ma, MethodB: mb, N: n, FieldPaths: fp, Interleave: il, GenSel: gs}
							if !sim.WantCase(c.id()) {
								continue
							}
							t.Run(c.id(), func(t *testing.T) {
								t.Parallel()
								runTwoKinds(t, c)
							})
						}
					}
				}
			}
		}
	}
}

func runTwoKinds(t *testing.T, c twoKindsCfg) {
	rep := sim.R()
	id := c.id()
	rep.Begin("C07", id)
	uid := uniqueID("tk")
	sc := &scenario{ID: uid, GenerateSelector: c.GenSel,
		Kinds: []kindCfg{{Kind: "Widget", Method: c.MethodA}, {Kind: "ConfigMap", Method: c.MethodB}}}
	if c.FieldPaths {
		sc.FieldPaths = []string{"spec.template"}
	}
	add := func(kind string, i int) {
		sc.Kids = append(sc.Kids, kidCfg{Kind: kind, Name: fmt.Sprintf("n%d-%s", i, uid), Value: "v1"})
	}
	if c.Interleave {
		for i := 0; i < c.N; i++ {
			add("Widget", i)
			add("ConfigMap", i)
		}
	} else {
		for i := 0; i < c.N; i++ {
			add("Widget", i)
		}
		for i := 0; i < c.N; i++ {
			add("ConfigMap", i)
		}
	}
	r := prepareScenario(sc)
	defer r.close()
	w := r.w
	w.caseID = id
	if err := w.start(); err != nil {
		inconclusive(t, "C07", id, err)
		return
	}
	defer w.flushCounters("C07")
	stampOf := func(k kidCfg) string {
		o := w.sim.Peek(kindInfo(k.Kind).GVR(), sc.childNS(k), k.Name)
		if o == nil || sim.IsDeleting(o) {
			return ""
		}
		field := "spec"
		if k.Kind == "ConfigMap" {
			field = "data"
		}
		return sim.NestedString(o, field, "rev")
	}
	stamps := func() []string {
		out := make([]string, len(sc.Kids))
		for i, k := range sc.Kids {
			out[i] = stampOf(k)
		}
		return out
	}
	viol := func(prop, sig, detail string, sr *syncResult, before, after []string) {
		wit := map[string]interface{}{"cfg": c, "kids": sc.Kids, "stampsBefore": before, "stampsAfter": after}
		if sr != nil {
			wit["requests"] = sim.DescribeLog(sr.Requests, false)
			wit["hooks"] = describeHooks(sr.Hooks)
		}
		rep.Violation(prop, id, sig, detail, wit)
	}
	// one judged sync of the parent; returns false on a watchdog
	judged, movesSeen := 0, 0
	syncOnce := func(latest string) (bool, bool) {
		if !w.quiesce() {
			return false, false
		}
		w.q.Add(sc.parentKey())
		any := false
		for n := w.q.Len(); n > 0; n-- {
			before := stamps()
			sr := w.step()
			if sr == nil {
				break
			}
			any = true
			if !w.quiesce() {
				return false, false
			}
			after := stamps()
			judged++
			if latest == "" {
				continue
			}
			var moved []int
			first := -1
			for i := range sc.Kids {
				if before[i] != "" && before[i] != latest {
					if first < 0 {
						first = i
					}
					if after[i] == latest || after[i] == "" {
						moved = append(moved, i)
					}
				}
			}
			movesSeen += len(moved)
			if len(moved) > 1 {
				viol("C07", "two-kinds:more-than-one-move", fmt.Sprintf("one sync moved %d children (positions %v in hook order) from an older revision to %s", len(moved), moved, latest), sr, before, after)
			} else if len(moved) == 1 && moved[0] != first {
				viol("C07", "two-kinds:move-out-of-hook-order", fmt.Sprintf("the sync moved the child at position %d of the hook's list while the child at position %d was still at an older revision", moved[0], first), sr, before, after)
			}
		}
		return any, true
	}
	for i := 0; i < 2*len(sc.Kids)+6; i++ {
		if _, ok := syncOnce(""); !ok {
			inconclusive(t, "C07", id, w.watchdog)
			return
		}
	}
	for i, s := range stamps() {
		if s != "r1" {
			rep.Case("C07", id, false, id, map[string]interface{}{"cfg": c, "note": fmt.Sprintf("initial creation incomplete: child %d has stamp %q", i, s)})
			return
		}
	}
	// the revisioned field changes
	r.rev = "r2"
	w.sim.ExtMutate(sc.parentInfo().GVR(), sc.ns(), sc.parentName(), func(o sim.Obj) {
		o["spec"] = sc.parentObject(r.kids, r.rev, r.extra)["spec"]
	})
	bound := 4*len(sc.Kids) + 8
	done := false
	for i := 0; i < bound && !done; i++ {
		if _, ok := syncOnce("r2"); !ok {
			inconclusive(t, "C07", id, w.watchdog)
			return
		}
		done = true
		for _, s := range stamps() {
			if s != "r2" {
				done = false
			}
		}
	}
	if !done {
		viol("C08", "two-kinds:rollout-not-complete", fmt.Sprintf("after %d syncs (4n+8) not every child carries the latest revision", bound), nil, nil, stamps())
	}
	rep.Counter("C07", "syncs_judged", int64(judged))
	rep.Counter("C07", "moves_observed", int64(movesSeen))
	rep.Case("C07", id, movesSeen > 0, id, map[string]interface{}{"cfg": c, "syncs": judged, "moves": movesSeen, "completed": done})
}
