//go:build verif

package composite

import (
	"encoding/json"
	"fmt"
	"reflect"

	sim "metacontroller/pkg/verifsim"
)

// M-STATUS: the C11 oracle as an always-on monitor, a pure function of one sync's hook calls and
// requests. It judges every accepted write to the parent made during the sync:
//   - a write through the main endpoint changes nothing but metadata.finalizers;
//   - a write through the status endpoint changes nothing but status, its observedGeneration is the
//     generation of the parent that was sent to the hook, and (when the sync made exactly one hook
//     call, so that there is no doubt whose answer it is) the rest of the status is what that hook
//     call answered - leaving aside the `Updated` condition, which metacontroller maintains itself
//     under a rolling strategy.
// Requests that were refused, and syncs without a usable hook answer, are not judged.
func (w *world) judgeParentWrites(res *syncResult) {
	if res.Cached == nil {
		return
	}
	pgvr := w.parentGVR()
	ns, name := splitKey(res.Key)
	var calls []*sim.HookCall
	for _, h := range res.Hooks {
		if (h.Path == "sync" || h.Path == "finalize") && h.Status == 200 && h.Err == "" {
			calls = append(calls, h)
		}
	}
	viol := func(sig, detail string, q *sim.Request) {
		sim.R().Violation("C11", w.reportID(), "mstatus:"+sig, detail+"\n  request: "+q.String(), map[string]interface{}{"sync": res.Tag, "log": sim.DescribeLog(res.Requests, false), "hooks": describeHooks(res.Hooks)})
	}
	strip := func(o sim.Obj, fields ...string) sim.Obj {
		c := sim.DeepCopy(o)
		if m, ok := c["metadata"].(map[string]interface{}); ok {
			delete(m, "resourceVersion")
			delete(m, "managedFields")
			delete(m, "generation")
			for _, f := range fields {
				delete(m, f)
			}
		}
		return c
	}
	withoutUpdated := func(st map[string]interface{}) map[string]interface{} {
		out := map[string]interface{}{}
		for k, v := range st {
			out[k] = v
		}
		delete(out, "observedGeneration")
		if l, ok := out["conditions"].([]interface{}); ok {
			var keep []interface{}
			for _, c := range l {
				if cm, ok := c.(map[string]interface{}); ok && cm["type"] == "Updated" {
					continue
				}
				keep = append(keep, c)
			}
			if len(keep) == 0 {
				delete(out, "conditions")
			} else {
				out["conditions"] = keep
			}
		}
		return out
	}
	for _, q := range res.Requests {
		if q.Actor != "mc" || q.GVR != pgvr || q.NS != ns || q.Name != name || q.Verb != "update" || !q.OK() || !q.Applied || q.Pre == nil || q.Post == nil {
			continue
		}
		w.statusJudged++
		if q.Sub == "" {
			a, b := strip(q.Pre, "finalizers"), strip(q.Post, "finalizers")
			if !reflect.DeepEqual(a, b) {
				viol("main-endpoint-write-changed-more-than-finalizers", fmt.Sprintf("a write to the parent through the main endpoint changed more than metadata.finalizers:\n  pre  %v\n  post %v", a, b), q)
			}
			continue
		}
		if q.Sub != "status" {
			continue
		}
		a, b := strip(q.Pre), strip(q.Post)
		delete(a, "status")
		delete(b, "status")
		if !reflect.DeepEqual(a, b) {
			viol("status-write-changed-more", fmt.Sprintf("the status write changed something other than status:\n  pre  %v\n  post %v", a, b), q)
		}
		if len(calls) == 0 {
			continue
		}
		post, _ := q.Post["status"].(map[string]interface{})
		// observedGeneration: the generation of a parent that was sent to a hook in this sync
		og, hasOG := post["observedGeneration"]
		okGen := false
		var sent []interface{}
		for _, h := range calls {
			g, _ := sim.Nested(h.Req, "parent", "metadata", "generation")
			sent = append(sent, g)
			if hasOG && fmt.Sprint(g) == fmt.Sprint(og) {
				okGen = true
			}
		}
		if !okGen {
			viol("observed-generation-not-the-one-sent-to-the-hook", fmt.Sprintf("status.observedGeneration written is %v; the parent generation(s) sent to the hook in this sync: %v", og, sent), q)
		}
		if len(calls) != 1 {
			continue
		}
		var resp map[string]interface{}
		if json.Unmarshal(calls[0].RespRaw, &resp) != nil {
			continue
		}
		hookStatus, _ := resp["status"].(map[string]interface{})
		want, got := withoutUpdated(hookStatus), withoutUpdated(post)
		if !reflect.DeepEqual(normalizeJSON(want), normalizeJSON(got)) {
			viol("status-not-what-the-hook-answered", fmt.Sprintf("the status written (without observedGeneration and the Updated condition) is %v; the hook answered %v", got, want), q)
		}
	}
}

// normalizeJSON round-trips a value through JSON so that numeric types compare equal.
func normalizeJSON(v interface{}) interface{} {
	b, err := json.Marshal(v)
	if err != nil {
		return v
	}
	var out interface{}
	if json.Unmarshal(b, &out) != nil {
		return v
	}
	return out
}
