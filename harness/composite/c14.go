//go:build verif

package composite

import (
	"fmt"
	"sort"
	"strings"
	"testing"

	"k8s.io/apimachinery/pkg/apis/meta/v1/unstructured"
	"k8s.io/client-go/tools/cache"

	sim "metacontroller/pkg/verifsim"
)

// C14 - every change that can alter a parent's reconciliation enqueues that parent.
// A real controller with real informers, workers never started; events are delivered end-to-end
// through the simulator's watch (and, for resync replays and tombstones, also by calling the
// registered handler functions directly); after each event the recording queue must hold exactly
// the expected keys.

type c14Cfg struct {
	Cluster      bool `json:"clusterParent"`
	GenSel       bool `json:"generateSelector"`
	IgnoreStatus bool `json:"ignoreStatusChanges"`
	Finalize     bool `json:"finalizeHook"`
	// NsChild: the cluster-scoped parent has namespaced children (owner references from a
	// namespaced object to a cluster-scoped owner are legal)
	NsChild bool `json:"namespacedChildOfClusterParent,omitempty"`
}

func (c c14Cfg) id() string {
	id := fmt.Sprintf("c14-cl%v-gs%v-is%v-fin%v", c.Cluster, c.GenSel, c.IgnoreStatus, c.Finalize)
	if c.NsChild {
		id += "-nschild"
	}
	return id
}

type c14World struct {
	cfg  c14Cfg
	r    *scenarioRun
	uid  string
	pa   sim.Obj
	pb   sim.Obj
	pn   sim.Obj
	pf   sim.Obj
	rep  *sim.Reporter
	id   string
	nev  int
	okev int
}

func (cw *c14World) key(p sim.Obj) string { return sim.Key(p) }

// expect performs the action and compares the keys added to the queue with want.
func (cw *c14World) expect(event string, want []string, action func()) {
	w := cw.r.w
	if !w.quiesce() {
		return
	}
	// drain whatever is queued from earlier events
	for w.q.Len() > 0 {
		k, _ := w.q.Get()
		w.q.Forget(k)
		w.q.Done(k)
	}
	mark := w.q.Mark()
	action()
	if !w.quiesce() {
		return
	}
	got := w.q.AddedSince(mark)
	var gotKeys []string
	for k := range got {
		gotKeys = append(gotKeys, k)
	}
	sort.Strings(gotKeys)
	sort.Strings(want)
	cw.nev++
	if strings.Join(gotKeys, ",") != strings.Join(want, ",") {
		var missing, extra []string
		ws := map[string]bool{}
		for _, k := range want {
			ws[k] = true
			if got[k] == 0 {
				missing = append(missing, k)
			}
		}
		for _, k := range gotKeys {
			if !ws[k] {
				extra = append(extra, k)
			}
		}
		kind := "missing"
		if len(missing) == 0 {
			kind = "extra"
		}
		cw.rep.Violation("C14", cw.id, kind+":"+event, fmt.Sprintf("event %q: queue received %v, expected exactly %v (missing %v, unexpected %v)", event, gotKeys, want, missing, extra), map[string]interface{}{"cfg": cw.cfg, "event": event})
		return
	}
	cw.okev++
}

func TestVerif_C14_Events(t *testing.T) {
	for _, cl := range []bool{false, true} {
		for _, gs := range []bool{false, true} {
			for _, is := range []bool{false, true} {
				for _, fin := range []bool{false, true} {
					for _, nsChild := range []bool{false, true} {
						if nsChild && !cl {
							continue
						}
						c := c14Cfg{cl, gs, is, fin, nsChild}
						if !sim.WantCase(c.id()) {
							continue
						}
						t.Run(c.id(), func(t *testing.T) {
							t.Parallel()
							runC14(t, c)
						})
					}
				}
			}
		}
	}
}

func runC14(t *testing.T, c c14Cfg) {
	rep := sim.R()
	id := c.id()
	rep.Begin("C14", id)
	uid := uniqueID("q")
	childKind := "Widget"
	if c.Cluster && !c.NsChild {
		childKind = "ClusterWidget"
	}
	sc := &scenario{ID: uid, ClusterParent: c.Cluster, GenerateSelector: c.GenSel, Finalize: c.Finalize, ParentSelector: true,
		Kinds: []kindCfg{{Kind: childKind, Method: "InPlace"}}}
	r := prepareScenario(sc)
	defer r.close()
	w := r.w
	w.caseID = id
	w.cfg.IgnoreStatus = c.IgnoreStatus
	w.cfg.CustomizeHook = true
	w.cc = w.cfg.compositeController(w.hooks)
	s := w.sim
	pinfo := sc.parentInfo()
	pgvr := pinfo.GVR()
	cinfo := kindInfo(childKind)
	cgvr := cinfo.GVR()
	finName := "metacontroller.io/compositecontroller-" + uid
	// customize: every parent selects secrets labelled rel=<parent name> and the Zone "z-<uid>"
	w.hooks.HandleJSON("customize", func(req sim.Obj) sim.Obj {
		p, _ := req["parent"].(map[string]interface{})
		return sim.Obj{"relatedResources": []interface{}{
			sim.Obj{"apiVersion": "v1", "resource": "secrets", "labelSelector": sim.Obj{"matchLabels": sim.Obj{"rel": sim.Name(p)}}},
			sim.Obj{"apiVersion": "rel.dev/v1", "resource": "zones", "names": []interface{}{"z-" + uid}},
		}}
	})
	mkParent := func(name string, managed bool, app string, fin bool) sim.Obj {
		p := sim.NewObject(pinfo, sc.ns(), name)
		if managed {
			sim.SetLabels(p, map[string]string{"managed-by": uid})
		}
		p["spec"] = sim.Obj{"selector": sim.Obj{"matchLabels": sim.Obj{"app": app}}, "kids": []interface{}{}}
		if fin {
			sim.SetNested(p, []interface{}{finName}, "metadata", "finalizers")
		}
		return p
	}
	// the scenario's own parent is PA
	s.ExtMutate(pgvr, sc.ns(), sc.parentName(), func(o sim.Obj) {
		sim.SetNested(o, sim.Obj{"matchLabels": sim.Obj{"app": "a-" + uid}}, "spec", "selector")
		sim.SetNested(o, []interface{}{}, "spec", "kids")
		if c.Finalize {
			sim.SetNested(o, []interface{}{finName}, "metadata", "finalizers")
		}
	})
	cw := &c14World{cfg: c, r: r, uid: uid, rep: rep, id: id}
	cw.pa = s.Peek(pgvr, sc.ns(), sc.parentName())
	cw.pb = s.MustCreate(pgvr, mkParent("pb-"+uid, true, "a-"+uid, c.Finalize))
	cw.pn = s.MustCreate(pgvr, mkParent("pn-"+uid, false, "a-"+uid, false))
	pfo := mkParent("pf-"+uid, false, "f-"+uid, true)
	sim.SetNested(pfo, "hold", "spec", "finalize") // its finalization does not finish during the test
	cw.pf = s.MustCreate(pgvr, pfo)
	// a managed sibling whose selector is unusable: it can never be synced, and it must not keep
	// its healthy neighbours from hearing about orphans
	pxo := mkParent("px-"+uid, true, "a-"+uid, false)
	sim.SetNested(pxo, sim.Obj{"matchExpressions": []interface{}{sim.Obj{"key": "app", "operator": "NoSuchOperator", "values": []interface{}{"x"}}}}, "spec", "selector")
	s.MustCreate(pgvr, pxo)
	// a managed sibling whose selector is satisfied by objects WITHOUT a label (DoesNotExist): an
	// orphan with no labels at all matches it
	peo := mkParent("pe-"+uid, true, "a-"+uid, false)
	sim.SetNested(peo, sim.Obj{"matchExpressions": []interface{}{sim.Obj{"key": "app", "operator": "DoesNotExist"}}}, "spec", "selector")
	pe := s.MustCreate(pgvr, peo)
	r.parent = cw.pa
	if err := w.start(); err != nil {
		inconclusive(t, "C14", id, err)
		return
	}
	defer w.flushCounters("C14")
	// a first sync of every managed parent so that the customize answers are cached and the
	// related informers exist (the documented way related objects get watched)
	// (with ignoreStatusChanges the add-time replay of an already synced informer presents the
	// cached parents as no-change updates, which are dropped by design; enqueue them explicitly)
	for _, p := range s.PeekAll(pgvr) {
		w.q.Add(sim.Key(p))
	}
	for i := 0; i < 6; i++ {
		if _, ok := w.round(); !ok {
			inconclusive(t, "C14", id, w.watchdog)
			return
		}
	}
	w.env.Track("v1", "secrets")
	w.env.Track("rel.dev/v1", "zones")
	cw.pa = s.Peek(pgvr, sc.ns(), sc.parentName())
	cw.pb = s.Peek(pgvr, sc.ns(), "pb-"+uid)
	cw.pf = s.Peek(pgvr, sc.ns(), "pf-"+uid)
	ka, kb, kf := cw.key(cw.pa), cw.key(cw.pb), cw.key(cw.pf)
	// without a finalize hook the leftover finalizer of PF has (rightly) been removed by now
	wantF := []string{}
	if sim.HasFinalizer(cw.pf, finName) {
		wantF = []string{kf}
	}
	cns := sc.childNS(kidCfg{Kind: childKind})
	matchA := map[string]string{"app": "a-" + uid}
	orphanWant := []string{ka, kb}
	if c.GenSel {
		matchA = map[string]string{"controller-uid": sim.UID(cw.pa)}
		orphanWant = []string{ka}
	}
	child := func(name string, labels map[string]string) sim.Obj {
		o := sim.NewObject(cinfo, cns, name+"-"+uid)
		sim.SetLabels(o, labels)
		o["spec"] = sim.Obj{"value": "x"}
		return o
	}
	touch := func(gvr sim.ResourceInfo, ns, name string) func() {
		return func() {
			s.ExtMutate(gvr.GVR(), ns, name, func(o sim.Obj) {
				sp, _ := o["spec"].(map[string]interface{})
				if sp == nil {
					sp = sim.Obj{}
					o["spec"] = sp
				}
				n, _ := sp["n"].(int64)
				sp["n"] = n + 1
			})
		}
	}
	none := []string{}

	// ---------------- parent events
	cw.expect("parent-update-spec(matching)", []string{ka}, touch(pinfo, sc.ns(), sim.Name(cw.pa)))
	cw.expect("parent-update-spec(non-matching)", none, touch(pinfo, sc.ns(), "pn-"+uid))
	cw.expect("parent-update-spec(non-matching,finalizer="+fmt.Sprint(len(wantF) > 0)+")", wantF, touch(pinfo, sc.ns(), "pf-"+uid))
	// a parent that does not match but carries the controller's finalizer is queued whether or not
	// a finalize hook is configured (without one, the sync is what removes the leftover); these
	// events are only delivered, never processed, so the finalizer stays for all three
	plKey := objKeyOf(sc.ns(), "pl-"+uid)
	cw.expect("parent-add(non-matching,carries finalizer)", []string{plKey}, func() { s.MustCreate(pgvr, mkParent("pl-"+uid, false, "f-"+uid, true)) })
	cw.expect("parent-update-spec(non-matching,carries finalizer)", []string{plKey}, touch(pinfo, sc.ns(), "pl-"+uid))
	cw.expect("parent-delete(non-matching,carries finalizer)", []string{plKey}, func() { s.ExtDelete(pgvr, sc.ns(), "pl-"+uid, "") })
	statusOnly := func() {
		p := s.Peek(pgvr, sc.ns(), sim.Name(cw.pa))
		st, _ := p["status"].(map[string]interface{})
		if st == nil {
			st = sim.Obj{}
		}
		n, _ := st["tick"].(int64)
		st["tick"] = n + 1
		p["status"] = st
		delete(p["metadata"].(map[string]interface{}), "resourceVersion")
		s.ExtUpdateStatus(pgvr, p)
	}
	if c.IgnoreStatus {
		cw.expect("parent-update-status-only(ignoreStatusChanges)", none, statusOnly)
	} else {
		cw.expect("parent-update-status-only", []string{ka}, statusOnly)
	}
	cw.expect("parent-update-annotation", []string{ka}, func() {
		s.ExtMutate(pgvr, sc.ns(), sim.Name(cw.pa), func(o sim.Obj) { sim.SetNested(o, "1", "metadata", "annotations", "x") })
	})
	cw.expect("parent-update-label", []string{ka}, func() {
		s.ExtMutate(pgvr, sc.ns(), sim.Name(cw.pa), func(o sim.Obj) { sim.SetNested(o, "1", "metadata", "labels", "extra") })
	})
	cw.expect("parent-add(matching)", []string{objKeyOf(sc.ns(), "pc-"+uid)}, func() { s.MustCreate(pgvr, mkParent("pc-"+uid, true, "c-"+uid, false)) })
	cw.expect("parent-add(non-matching)", none, func() { s.MustCreate(pgvr, mkParent("pz-"+uid, false, "z-"+uid, false)) })
	cw.expect("parent-delete(non-matching)", none, func() { s.ExtDelete(pgvr, sc.ns(), "pz-"+uid, "") })
	cw.expect("parent-relabel-to-match", []string{objKeyOf(sc.ns(), "pn-"+uid)}, func() {
		s.ExtMutate(pgvr, sc.ns(), "pn-"+uid, func(o sim.Obj) { sim.SetLabels(o, map[string]string{"managed-by": uid}) })
	})
	cw.expect("parent-relabel-to-unmatch", none, func() {
		s.ExtMutate(pgvr, sc.ns(), "pn-"+uid, func(o sim.Obj) { sim.SetLabels(o, map[string]string{"managed-by": "nobody"}) })
	})

	// ---------------- child events
	owned := s.MustCreate(cgvr, sim.AddOwner(child("owned0", matchA), cw.pa, true)) // existed before? created now => add event
	_ = owned
	cw.expect("child-add(owned)", []string{ka}, func() { s.MustCreate(cgvr, sim.AddOwner(child("owned1", matchA), cw.pa, true)) })
	cw.expect("child-update(owned)", []string{ka}, touch(cinfo, cns, "owned1-"+uid))
	// the owner reference may carry another version of the parent's API group
	otherVersion := sim.DeepCopy(cw.pa)
	otherVersion["apiVersion"] = pinfo.Group + "/v1beta7"
	cw.expect("child-add(owned,owner reference of another API version)", []string{ka}, func() { s.MustCreate(cgvr, sim.AddOwner(child("ownedv", matchA), otherVersion, true)) })
	cw.expect("child-update(owned,owner reference of another API version)", []string{ka}, touch(cinfo, cns, "ownedv-"+uid))
	cw.expect("child-delete(owned,owner reference of another API version)", []string{ka}, func() { s.ExtDelete(cgvr, cns, "ownedv-"+uid, "") })
	cw.expect("child-update-status(owned)", []string{ka}, func() {
		o := s.Peek(cgvr, cns, "owned1-"+uid)
		o["status"] = sim.Obj{"ready": true}
		delete(o["metadata"].(map[string]interface{}), "resourceVersion")
		s.ExtUpdateStatus(cgvr, o)
	})
	cw.expect("child-delete(owned)", []string{ka}, func() { s.ExtDelete(cgvr, cns, "owned1-"+uid, "") })
	cw.expect("child-add(owned-by-unmatched-parent,finalizer="+fmt.Sprint(len(wantF) > 0)+")", wantF, func() { s.MustCreate(cgvr, sim.AddOwner(child("ownedf", nil), cw.pf, true)) })
	cw.expect("child-update(owned-by-unmatched-parent,finalizer="+fmt.Sprint(len(wantF) > 0)+")", wantF, touch(cinfo, cns, "ownedf-"+uid))
	cw.expect("child-delete(owned-by-unmatched-parent,finalizer="+fmt.Sprint(len(wantF) > 0)+")", wantF, func() { s.ExtDelete(cgvr, cns, "ownedf-"+uid, "") })
	pnObj := s.Peek(pgvr, sc.ns(), "pn-"+uid)
	cw.expect("child-add(owned-by-unmanaged-parent)", none, func() { s.MustCreate(cgvr, sim.AddOwner(child("ownedn", nil), pnObj, true)) })
	wrongUID := sim.DeepCopy(cw.pa)
	sim.SetNested(wrongUID, "some-other-uid", "metadata", "uid")
	cw.expect("child-add(owner-right-name-wrong-uid)", none, func() { s.MustCreate(cgvr, sim.AddOwner(child("wronguid", matchA), wrongUID, true)) })
	wrongKind := sim.DeepCopy(cw.pa)
	wrongKind["kind"] = "SomethingElse"
	cw.expect("child-add(owner-wrong-kind)", none, func() { s.MustCreate(cgvr, sim.AddOwner(child("wrongkind", matchA), wrongKind, true)) })
	wrongGroup := sim.DeepCopy(cw.pa)
	wrongGroup["apiVersion"] = "other.dev/v1"
	cw.expect("child-add(owner-wrong-group)", none, func() { s.MustCreate(cgvr, sim.AddOwner(child("wronggroup", matchA), wrongGroup, true)) })
	foreign := sim.Obj{"apiVersion": "apps/v1", "kind": "ReplicaSet", "metadata": sim.Obj{"name": "rs", "uid": "rs-" + uid}}
	cw.expect("child-add(foreign-owned)", none, func() { s.MustCreate(cgvr, sim.AddOwner(child("foreign", matchA), foreign, true)) })
	cw.expect("orphan-add(matching)", orphanWant, func() { s.MustCreate(cgvr, child("orphan1", matchA)) })
	cw.expect("orphan-add(non-matching)", none, func() { s.MustCreate(cgvr, child("orphan2", map[string]string{"app": "nobody"})) })
	cw.expect("orphan-relabel-to-match", orphanWant, func() {
		s.ExtMutate(cgvr, cns, "orphan2-"+uid, func(o sim.Obj) { sim.SetLabels(o, matchA) })
	})
	cw.expect("orphan-delete", none, func() { s.ExtDelete(cgvr, cns, "orphan2-"+uid, "") })
	if !c.GenSel {
		ke := cw.key(pe)
		cw.expect("orphan-add(no labels, parent selects by DoesNotExist)", []string{ke}, func() { s.MustCreate(cgvr, child("orphan3", nil)) })
		cw.expect("orphan-add(empty label map, parent selects by DoesNotExist)", []string{ke}, func() { s.MustCreate(cgvr, child("orphan4", map[string]string{})) })
		cw.expect("orphan-relabel(leaves the DoesNotExist selection)", none, func() {
			s.ExtMutate(cgvr, cns, "orphan3-"+uid, func(o sim.Obj) { sim.SetLabels(o, map[string]string{"app": "nobody"}) })
		})
		cw.expect("orphan-labels-stripped(enters the DoesNotExist selection)", []string{ke}, func() {
			s.ExtMutate(cgvr, cns, "orphan3-"+uid, func(o sim.Obj) { delete(o["metadata"].(map[string]interface{}), "labels") })
		})
		s.ExtDelete(cgvr, cns, "orphan3-"+uid, "")
		s.ExtDelete(cgvr, cns, "orphan4-"+uid, "")
	}
	// an owned child that shows up already deleting is treated like a delete
	cw.expect("child-add(owned,already-deleting)", []string{ka}, func() {
		o := sim.AddOwner(child("owneddel", matchA), cw.pa, true)
		sim.SetNested(o, []interface{}{"example.com/hold"}, "metadata", "finalizers")
		s.HoldWatch(cgvr, true)
		o = s.MustCreate(cgvr, o)
		s.ExtDelete(cgvr, cns, sim.Name(o), "")
		// release both events at once: the informer sees ADDED then MODIFIED(deleting)
		s.HoldWatch(cgvr, false)
	})
	delObj := &unstructured.Unstructured{Object: s.Peek(cgvr, cns, "owneddel-"+uid)}
	if delObj.Object != nil {
		cw.expect("child-add-handler(owned,deletionTimestamp set)", []string{ka}, func() { w.pc.onChildAdd(delObj) })
	}
	// resync replay (unchanged resourceVersion) of a child enqueues nothing: call the handler the
	// way the informer's resync does
	ownedObj := &unstructured.Unstructured{Object: s.Peek(cgvr, cns, "owned0-"+uid)}
	cw.expect("child-resync(owned,same resourceVersion)", none, func() { w.pc.onChildUpdate(ownedObj, ownedObj.DeepCopy()) })
	cw.expect("child-delete-tombstone(owned)", []string{ka}, func() {
		w.pc.onChildDelete(cache.DeletedFinalStateUnknown{Key: objKeyOf(cns, "owned0-"+uid), Obj: ownedObj})
	})

	// ---------------- parent tombstones (direct) and real ones through a relist
	paObj := &unstructured.Unstructured{Object: s.Peek(pgvr, sc.ns(), sim.Name(cw.pa))}
	cw.expect("parent-delete-tombstone(matching)", []string{ka}, func() {
		w.pc.enqueueParentObject(cache.DeletedFinalStateUnknown{Key: ka, Obj: paObj})
	})
	pnU := &unstructured.Unstructured{Object: s.Peek(pgvr, sc.ns(), "pn-"+uid)}
	cw.expect("parent-delete-tombstone(non-matching)", none, func() {
		w.pc.enqueueParentObject(cache.DeletedFinalStateUnknown{Key: objKeyOf(sc.ns(), "pn-"+uid), Obj: pnU})
	})

	// ---------------- related objects
	relNS := sc.ns()
	if c.Cluster {
		relNS = "rns-" + uid
	}
	sec := func(name string, rel string) sim.Obj {
		o := sim.NewObject(sim.SecretInfo, relNS, name+"-"+uid)
		sim.SetLabels(o, map[string]string{"rel": rel})
		o["data"] = sim.Obj{"k": "v"}
		return o
	}
	cw.expect("related-add(selected)", []string{ka}, func() { s.MustCreate(sim.SecretInfo.GVR(), sec("s1", sim.Name(cw.pa))) })
	cw.expect("related-update(selected)", []string{ka}, func() {
		s.ExtMutate(sim.SecretInfo.GVR(), relNS, "s1-"+uid, func(o sim.Obj) { sim.SetNested(o, "w", "data", "k") })
	})
	cw.expect("related-add(not selected)", none, func() { s.MustCreate(sim.SecretInfo.GVR(), sec("s2", "nobody")) })
	cw.expect("related-update(enters selection)", []string{ka}, func() {
		s.ExtMutate(sim.SecretInfo.GVR(), relNS, "s2-"+uid, func(o sim.Obj) { sim.SetLabels(o, map[string]string{"rel": sim.Name(cw.pa)}) })
	})
	cw.expect("related-update(leaves selection)", []string{ka}, func() {
		s.ExtMutate(sim.SecretInfo.GVR(), relNS, "s2-"+uid, func(o sim.Obj) { sim.SetLabels(o, map[string]string{"rel": "nobody"}) })
	})
	cw.expect("related-delete(selected)", []string{ka}, func() { s.ExtDelete(sim.SecretInfo.GVR(), relNS, "s1-"+uid, "") })
	// the Zone is selected by name by every managed parent
	// (pl is pending deletion, held by the finalizer it still carries: it is still a parent to wake)
	allManaged := append([]string{ka, kb, objKeyOf(sc.ns(), "pc-"+uid), objKeyOf(sc.ns(), "px-"+uid), objKeyOf(sc.ns(), "pe-"+uid), plKey}, wantF...)
	if !c.Cluster {
		allManaged = none // cluster-scoped objects are never related to a namespaced parent
	}
	cw.expect("related-add(selected by name, all parents)", allManaged, func() {
		z := sim.NewObject(sim.ZoneInfo, "", "z-"+uid)
		z["spec"] = sim.Obj{"n": int64(0)}
		s.MustCreate(sim.ZoneInfo.GVR(), z)
	})
	cw.expect("related-add(other name)", none, func() {
		z := sim.NewObject(sim.ZoneInfo, "", "zz-"+uid)
		s.MustCreate(sim.ZoneInfo.GVR(), z)
	})

	// ---------------- deletion of a matching parent, last because it removes PA
	cw.expect("parent-delete(matching)", []string{kb}, func() { s.ExtDelete(pgvr, sc.ns(), "pb-"+uid, "") })

	rep.Counter("C14", "events_delivered", int64(cw.nev))
	rep.Counter("C14", "events_as_expected", int64(cw.okev))
	if w.watchdog != nil {
		inconclusive(t, "C14", id, w.watchdog)
		return
	}
	rep.Case("C14", id, cw.nev > 0, id, map[string]interface{}{"unmatchedParentHoldsFinalizer": len(wantF) > 0, "cfg": c, "events": cw.nev, "asExpected": cw.okev})
}

func objKeyOf(ns, name string) string {
	if ns == "" {
		return name
	}
	return ns + "/" + name
}
