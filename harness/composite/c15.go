//go:build verif

package composite

import (
	"fmt"
	"reflect"
	"sort"
	"strings"
	"sync/atomic"
	"testing"
	"time"

	metav1 "k8s.io/apimachinery/pkg/apis/meta/v1"
	"k8s.io/apimachinery/pkg/labels"

	sim "metacontroller/pkg/verifsim"
)

// C15 - related objects: the hook gets exactly what its customize rules select.

type c15Rule struct {
	Resource  string                 `json:"resource"` // secrets gadgets zones
	Selector  map[string]interface{} `json:"labelSelector,omitempty"`
	HasSel    bool                   `json:"hasSelector"`
	Namespace string                 `json:"namespace,omitempty"` // "" | "own" | "other"
	Names     []string               `json:"names,omitempty"`
}

type c15Case struct {
	Name    string    `json:"name"`
	Cluster bool      `json:"clusterParent"`
	Rules   []c15Rule `json:"rules"`
	Invalid bool      `json:"invalid"`
}

func c15Info(res string) sim.ResourceInfo {
	switch res {
	case "secrets":
		return sim.SecretInfo
	case "gadgets":
		return sim.GadgetInfo
	}
	return sim.ZoneInfo
}

func c15Cases() []c15Case {
	sel := func(m map[string]interface{}) map[string]interface{} { return m }
	tierA := sel(map[string]interface{}{"matchLabels": map[string]interface{}{"tier": "a"}})
	tierIn := sel(map[string]interface{}{"matchExpressions": []interface{}{map[string]interface{}{"key": "tier", "operator": "In", "values": []interface{}{"a", "b"}}}})
	var out []c15Case
	for _, cl := range []bool{false, true} {
		add := func(name string, invalid bool, rules ...c15Rule) {
			out = append(out, c15Case{Name: name, Cluster: cl, Rules: rules, Invalid: invalid})
		}
		for _, res := range []string{"secrets", "gadgets", "zones"} {
			add("everything-"+res, false, c15Rule{Resource: res, HasSel: true, Selector: map[string]interface{}{}})
			add("labels-"+res, false, c15Rule{Resource: res, HasSel: true, Selector: tierA})
			add("expr-"+res, false, c15Rule{Resource: res, HasSel: true, Selector: tierIn})
			add("names-"+res, false, c15Rule{Resource: res, Names: []string{"n1", "n3", "missing"}})
			add("noselector-"+res, false, c15Rule{Resource: res})
			add("invalid-both-"+res, true, c15Rule{Resource: res, HasSel: true, Selector: tierA, Names: []string{"n1"}})
			// an empty selector is still a label selector (it selects everything): combining it with
			// names is the same silent choice
			add("invalid-emptysel-names-"+res, true, c15Rule{Resource: res, HasSel: true, Selector: map[string]interface{}{}, Names: []string{"n1"}})
			add("invalid-expr-names-"+res, true, c15Rule{Resource: res, HasSel: true, Selector: tierIn, Names: []string{"n1"}})
		}
		for _, res := range []string{"secrets", "gadgets"} {
			add("ns-own-"+res, false, c15Rule{Resource: res, Namespace: "own"})
			add("ns-own-names-"+res, false, c15Rule{Resource: res, Namespace: "own", Names: []string{"n2"}})
			add("ns-other-"+res, !cl, c15Rule{Resource: res, Namespace: "other"})
			add("ns-other-names-"+res, !cl, c15Rule{Resource: res, Namespace: "other", Names: []string{"n1", "n2"}})
			add("invalid-sel-ns-"+res, true, c15Rule{Resource: res, HasSel: true, Selector: tierA, Namespace: "own"})
			add("invalid-emptysel-ns-"+res, true, c15Rule{Resource: res, HasSel: true, Selector: map[string]interface{}{}, Namespace: "own"})
		}
		add("two-rules-same-resource", false, c15Rule{Resource: "secrets", HasSel: true, Selector: tierA}, c15Rule{Resource: "secrets", Names: []string{"n3"}})
		add("three-resources", false, c15Rule{Resource: "secrets", HasSel: true, Selector: tierA}, c15Rule{Resource: "gadgets", Names: []string{"n1"}}, c15Rule{Resource: "zones", HasSel: true, Selector: map[string]interface{}{}})
		add("valid-then-invalid", true, c15Rule{Resource: "secrets", HasSel: true, Selector: tierA}, c15Rule{Resource: "gadgets", HasSel: true, Selector: tierA, Names: []string{"n1"}})
	}
	return out
}

func TestVerif_C15_Related(t *testing.T) {
	for _, c := range c15Cases() {
		c := c
		id := fmt.Sprintf("c15-cl%v-%s", c.Cluster, c.Name)
		if !sim.WantCase(id) {
			continue
		}
		t.Run(id, func(t *testing.T) {
			t.Parallel()
			runC15(t, id, c)
		})
	}
}

func runC15(t *testing.T, id string, c c15Case) {
	rep := sim.R()
	rep.Begin("C15", id)
	uid := uniqueID("u")
	sc := &scenario{ID: uid, ClusterParent: c.Cluster, GenerateSelector: true, Kinds: []kindCfg{{Kind: "ConfigMap", Method: "InPlace"}}}
	r := prepareScenario(sc)
	defer r.close()
	w := r.w
	w.caseID = id
	w.cfg.CustomizeHook = true
	w.cc = w.cfg.compositeController(w.hooks)
	s := w.sim
	pgvr := sc.parentInfo().GVR()
	ownNS := sc.ns()
	if c.Cluster {
		ownNS = "rns-" + uid
	}
	otherNS := "other-" + uid
	nsOf := func(n string) string {
		switch n {
		case "own":
			return ownNS
		case "other":
			return otherNS
		}
		return ""
	}
	// related objects across namespaces and scopes: names n1..n3 in own and other namespace
	tiers := map[string]string{"n1": "a", "n2": "b", "n3": "c"}
	for _, info := range []sim.ResourceInfo{sim.SecretInfo, sim.GadgetInfo, sim.ZoneInfo} {
		nss := []string{ownNS, otherNS}
		if !info.Namespaced {
			nss = []string{""}
		}
		for _, ns := range nss {
			for n, tier := range tiers {
				o := sim.NewObject(info, ns, n)
				if !info.Namespaced {
					o = sim.NewObject(info, "", n+"-"+uid)
				}
				sim.SetLabels(o, map[string]string{"tier": tier, "scope": uid})
				o["spec"] = sim.Obj{"n": int64(0)}
				s.MustCreate(info.GVR(), o)
			}
		}
	}
	// the customize program: rules rendered from the case
	render := func() []interface{} {
		var out []interface{}
		for _, ru := range c.Rules {
			info := c15Info(ru.Resource)
			m := sim.Obj{"apiVersion": info.APIVersion(), "resource": info.Resource}
			if ru.HasSel {
				ls := sim.DeepCopy(ru.Selector)
				// cluster-scoped resources are shared by all cases of the process: confine by scope label
				if !info.Namespaced {
					ml, _ := ls["matchLabels"].(map[string]interface{})
					if ml == nil {
						ml = sim.Obj{}
					}
					ml["scope"] = uid
					ls["matchLabels"] = ml
				}
				m["labelSelector"] = ls
			}
			if ru.Namespace != "" {
				m["namespace"] = nsOf(ru.Namespace)
			}
			if ru.Names != nil {
				var names []interface{}
				for _, n := range ru.Names {
					if !info.Namespaced {
						n = n + "-" + uid
					}
					names = append(names, n)
				}
				m["names"] = names
			}
			out = append(out, m)
		}
		return out
	}
	w.hooks.HandleJSON("customize", func(req sim.Obj) sim.Obj { return sim.Obj{"relatedResources": render()} })
	if err := w.start(); err != nil {
		inconclusive(t, "C15", id, err)
		return
	}
	defer w.flushCounters("C15")
	w.q.Add(sc.parentKey())
	syncs, ok := w.round()
	if !ok || len(syncs) == 0 {
		inconclusive(t, "C15", id, fmt.Errorf("no sync: %v", w.watchdog))
		return
	}
	sr := syncs[0]
	viol := func(sig, detail string) {
		rep.Violation("C15", id, sig, detail, map[string]interface{}{"case": c, "hooks": describeHooks(sr.Hooks), "err": fmt.Sprint(sr.Err)})
	}
	var syncCall *sim.HookCall
	for _, h := range sr.Hooks {
		if h.Path == "sync" {
			syncCall = h
		}
	}
	if c.Invalid {
		if sr.Err == nil {
			viol("invalid-rule-accepted:"+c.Name, "a rule that combines both selection styles (or names a foreign namespace for a namespaced parent) did not make the sync fail")
		}
		if syncCall != nil {
			viol("sync-hook-called-despite-invalid-rule:"+c.Name, "the sync hook was called although a customize rule is invalid")
		}
		rep.Case("C15", id, true, id, map[string]interface{}{"case": c, "err": fmt.Sprint(sr.Err)})
		return
	}
	if sr.Err != nil || syncCall == nil {
		viol("valid-rules-rejected:"+c.Name, fmt.Sprintf("valid rules made the sync fail or the sync hook was not called: %v", sr.Err))
		return
	}
	// ---- (1) expected related view, computed independently from the store
	expected := map[string]map[string]string{}
	for _, ru := range c.Rules {
		info := c15Info(ru.Resource)
		hk := sim.HookKey(info)
		if expected[hk] == nil {
			expected[hk] = map[string]string{}
		}
		var selector labels.Selector = labels.Everything()
		byLabels := ru.HasSel || (ru.Namespace == "" && ru.Names == nil)
		if ru.HasSel {
			ls := &metav1.LabelSelector{}
			if ml, ok := ru.Selector["matchLabels"].(map[string]interface{}); ok {
				ls.MatchLabels = map[string]string{}
				for k, v := range ml {
					ls.MatchLabels[k] = v.(string)
				}
			}
			if me, ok := ru.Selector["matchExpressions"].([]interface{}); ok {
				for _, e := range me {
					em := e.(map[string]interface{})
					req := metav1.LabelSelectorRequirement{Key: em["key"].(string), Operator: metav1.LabelSelectorOperator(em["operator"].(string))}
					for _, v := range em["values"].([]interface{}) {
						req.Values = append(req.Values, v.(string))
					}
					ls.MatchExpressions = append(ls.MatchExpressions, req)
				}
			}
			selector, _ = metav1.LabelSelectorAsSelector(ls)
		}
		for _, o := range s.PeekAll(info.GVR()) {
			if sim.Labels(o)["scope"] != uid && !info.Namespaced {
				continue
			}
			if info.Namespaced && sim.NS(o) != ownNS && sim.NS(o) != otherNS {
				continue
			}
			// a namespaced parent only ever sees its own namespace
			if !c.Cluster && (!info.Namespaced || sim.NS(o) != ownNS) {
				continue
			}
			if byLabels {
				if !selector.Matches(labels.Set(sim.Labels(o))) {
					continue
				}
			} else {
				if ru.Namespace != "" && info.Namespaced && sim.NS(o) != nsOf(ru.Namespace) {
					continue
				}
				if len(ru.Names) > 0 {
					found := false
					for _, n := range ru.Names {
						if !info.Namespaced {
							n = n + "-" + uid
						}
						if n == sim.Name(o) {
							found = true
						}
					}
					if !found {
						continue
					}
				}
			}
			k := sim.Name(o)
			if c.Cluster && info.Namespaced {
				k = sim.NS(o) + "/" + k
			}
			expected[hk][k] = sim.UID(o)
		}
	}
	got, _ := syncCall.Req["related"].(map[string]interface{})
	flat := func(m map[string]map[string]string) string {
		var out []string
		for hk, inner := range m {
			var ks []string
			for k := range inner {
				ks = append(ks, k)
			}
			sort.Strings(ks)
			out = append(out, hk+"{"+strings.Join(ks, ",")+"}")
		}
		sort.Strings(out)
		return strings.Join(out, " ")
	}
	gotM := map[string]map[string]string{}
	for hk, g := range got {
		gm, _ := g.(map[string]interface{})
		gotM[hk] = map[string]string{}
		for k, o := range gm {
			om, _ := o.(map[string]interface{})
			gotM[hk][k] = sim.UID(om)
		}
	}
	if flat(gotM) != flat(expected) {
		viol("related-view-differs:"+c.Name, fmt.Sprintf("related map sent to the sync hook:\n  %s\nexpected from the rules and the store:\n  %s", flat(gotM), flat(expected)))
	} else {
		for hk, inner := range expected {
			for k, u := range inner {
				if gotM[hk][k] != u {
					viol("related-wrong-object", fmt.Sprintf("related[%s][%s] uid %s want %s", hk, k, gotM[hk][k], u))
				}
			}
		}
	}
	// ---- (3) the customize hook is asked once per parent uid and generation
	countCustomize := func() map[string]int {
		m := map[string]int{}
		for _, h := range w.hooks.Calls() {
			if h.Path == "customize" {
				p, _ := h.Req["parent"].(map[string]interface{})
				gen, _ := sim.Nested(p, "metadata", "generation")
				m[fmt.Sprintf("%s/%v", sim.UID(p), gen)]++
			}
		}
		return m
	}
	for i := 0; i < 3; i++ {
		w.q.Add(sc.parentKey())
		if _, ok := w.round(); !ok {
			inconclusive(t, "C15", id, w.watchdog)
			return
		}
	}
	for k, n := range countCustomize() {
		if n > 1 {
			viol("customize-asked-again", fmt.Sprintf("the customize hook was called %d times for parent uid/generation %s while its answer was cached", n, k))
		}
	}
	before := len(countCustomize())
	s.ExtMutate(pgvr, sc.ns(), sc.parentName(), func(o sim.Obj) { sim.SetNested(o, "bump", "spec", "note") })
	for i := 0; i < 3; i++ {
		if _, ok := w.round(); !ok {
			inconclusive(t, "C15", id, w.watchdog)
			return
		}
	}
	after := countCustomize()
	if len(after) != before+1 {
		viol("customize-not-asked-for-new-generation", fmt.Sprintf("after a generation bump the customize hook was asked for %d new (uid, generation) keys, want exactly 1", len(after)-before))
	}
	for k, n := range after {
		if n > 1 {
			viol("customize-asked-again", fmt.Sprintf("the customize hook was called %d times for %s", n, k))
		}
	}
	// ---- (4) everything in the related map wakes the parent when it changes
	woke, total := 0, 0
	for _, ru := range c.Rules {
		info := c15Info(ru.Resource)
		w.env.Track(info.APIVersion(), info.Resource)
	}
	for hk, inner := range expected {
		var info sim.ResourceInfo
		for _, ri := range []sim.ResourceInfo{sim.SecretInfo, sim.GadgetInfo, sim.ZoneInfo} {
			if sim.HookKey(ri) == hk {
				info = ri
			}
		}
		for k := range inner {
			ns, name := "", k
			if i := strings.Index(k, "/"); i >= 0 {
				ns, name = k[:i], k[i+1:]
			} else if info.Namespaced {
				ns = ownNS
			}
			if !w.quiesce() {
				inconclusive(t, "C15", id, w.watchdog)
				return
			}
			for w.q.Len() > 0 {
				kk, _ := w.q.Get()
				w.q.Forget(kk)
				w.q.Done(kk)
			}
			mark := w.q.Mark()
			s.ExtMutate(info.GVR(), ns, name, func(o sim.Obj) { sim.SetNested(o, int64(1), "spec", "n") })
			if !w.quiesce() {
				inconclusive(t, "C15", id, w.watchdog)
				return
			}
			total++
			if w.q.AddedSince(mark)[sc.parentKey()] > 0 {
				woke++
			} else {
				viol("related-object-does-not-wake-parent:"+info.Resource, fmt.Sprintf("%s %s/%s appears in the parent's related map, but changing it did not queue the parent", info.Kind, ns, name))
			}
			// a change that takes the object out of the selection is a change of an object in the
			// related map too (the parent has to learn that it is gone from its view)
			mark = w.q.Mark()
			s.ExtMutate(info.GVR(), ns, name, func(o sim.Obj) { sim.SetLabels(o, map[string]string{"relabelled": "away"}) })
			if !w.quiesce() {
				inconclusive(t, "C15", id, w.watchdog)
				return
			}
			total++
			if w.q.AddedSince(mark)[sc.parentKey()] > 0 {
				woke++
			} else {
				viol("related-object-does-not-wake-parent:relabelled:"+info.Resource, fmt.Sprintf("%s %s/%s appears in the parent's related map, but replacing its labels did not queue the parent", info.Kind, ns, name))
			}
		}
	}
	rep.Counter("C15", "related_objects_checked_for_wakeup", int64(total))
	nrel := 0
	for _, inner := range expected {
		nrel += len(inner)
	}
	rep.Case("C15", id, true, id, map[string]interface{}{"case": c, "expectedRelated": flat(expected), "gotRelated": flat(gotM), "wakeups": fmt.Sprintf("%d/%d", woke, total)})
}

// First use of a related resource by two syncs at once (two workers right after a start; the
// parallel per-revision calls of a rollout): the first LIST of the related resource is held back at
// the server while a second parent is synced. Whenever a sync's hook is called, its `related` map
// holds what the rules select - not the contents of a cache that has not been filled yet.
func TestVerif_C15_ConcurrentFirstUse(t *testing.T) {
	for _, cluster := range []bool{false, true} {
		for _, n := range []int{1, 3} {
			cluster, n := cluster, n
			id := fmt.Sprintf("c15-concurrent-first-use-cl%v-o%d", cluster, n)
			if !sim.WantCase(id) {
				continue
			}
			t.Run(id, func(t *testing.T) {
				t.Parallel()
				runC15ConcurrentFirstUse(t, id, cluster, n)
			})
		}
	}
}

func runC15ConcurrentFirstUse(t *testing.T, id string, cluster bool, nobj int) {
	rep := sim.R()
	rep.Begin("C15", id)
	uid := uniqueID("cf")
	sc := &scenario{ID: uid, ClusterParent: cluster, GenerateSelector: true, Kinds: []kindCfg{{Kind: "ConfigMap", Method: "InPlace"}}}
	r := prepareScenario(sc)
	defer r.close()
	w := r.w
	w.caseID = id
	w.noMonitors = true // two syncs overlap
	w.cfg.CustomizeHook = true
	w.cc = w.cfg.compositeController(w.hooks)
	s := w.sim
	pgvr := sc.parentInfo().GVR()
	relNS := sc.ns()
	if cluster {
		relNS = "rns-" + uid
	}
	want := map[string]bool{}
	for i := 0; i < nobj; i++ {
		o := sim.NewObject(sim.SecretInfo, relNS, fmt.Sprintf("s%d", i))
		sim.SetLabels(o, map[string]string{"scope": uid})
		s.MustCreate(sim.SecretInfo.GVR(), o)
		k := sim.Name(o)
		if cluster {
			k = relNS + "/" + k
		}
		want[k] = true
	}
	w.hooks.HandleJSON("customize", func(req sim.Obj) sim.Obj {
		return sim.Obj{"relatedResources": []interface{}{sim.Obj{"apiVersion": "v1", "resource": "secrets", "labelSelector": sim.Obj{"matchLabels": sim.Obj{"scope": uid}}}}}
	})
	p2 := sc.parentObject(r.kids, r.rev, r.extra)
	sim.SetNested(p2, "q-"+uid, "metadata", "name")
	p2 = s.MustCreate(pgvr, p2)
	if err := w.start(); err != nil {
		inconclusive(t, "C15", id, err)
		return
	}
	if !w.quiesce() {
		inconclusive(t, "C15", id, w.watchdog)
		return
	}
	for w.q.Len() > 0 {
		k, _ := w.q.Get()
		w.q.Forget(k)
		w.q.Done(k)
	}
	release := make(chan struct{})
	var held int32
	s.SetGate(func(ri *sim.ReqInfo) {
		if ri.Verb == "list" && ri.GVR == sim.SecretInfo.GVR() && atomic.CompareAndSwapInt32(&held, 0, 1) {
			select {
			case <-release:
			case <-time.After(10 * time.Second):
			}
		}
	})
	keyA, keyB := sc.parentKey(), sim.Key(p2)
	mark := w.hooks.Mark()
	doneA, doneB := make(chan struct{}), make(chan struct{})
	go func() { defer close(doneA); sim.Guard(func() { _ = w.pc.sync(keyA) }) }()
	deadline := time.Now().Add(10 * time.Second)
	for atomic.LoadInt32(&held) == 0 && time.Now().Before(deadline) {
		time.Sleep(200 * time.Microsecond)
	}
	if atomic.LoadInt32(&held) == 0 {
		close(release)
		<-doneA
		inconclusive(t, "C15", id, fmt.Errorf("the first LIST of the related resource was never seen"))
		return
	}
	go func() { defer close(doneB); sim.Guard(func() { _ = w.pc.sync(keyB) }) }()
	// give the second sync the chance to run ahead of the held LIST (it must not)
	select {
	case <-doneB:
	case <-time.After(1500 * time.Millisecond):
	}
	close(release)
	<-doneA
	<-doneB
	s.SetGate(nil)
	judged := 0
	for _, h := range w.hooks.Since(mark) {
		if h.Path != "sync" {
			continue
		}
		judged++
		got := map[string]bool{}
		rel, _ := h.Req["related"].(map[string]interface{})
		for _, g := range rel {
			gm, _ := g.(map[string]interface{})
			for k := range gm {
				got[k] = true
			}
		}
		if !reflect.DeepEqual(got, want) {
			p, _ := h.Req["parent"].(map[string]interface{})
			rep.Violation("C15", id, "related-view-differs:concurrent-first-use", fmt.Sprintf("the sync hook of parent %s was sent related=%v while the rules select %v (the cache of the related resource was still being filled for another sync)", sim.Name(p), got, want), map[string]interface{}{"clusterParent": cluster})
		}
	}
	rep.Counter("C15", "concurrent_first_use_hook_calls_judged", int64(judged))
	rep.Case("C15", id, judged >= 2, id, map[string]interface{}{"clusterParent": cluster, "relatedObjects": nobj, "syncHookCalls": judged})
}
