//go:build verif

package composite

import (
	"encoding/json"
	"fmt"
	"testing"

	sim "metacontroller/pkg/verifsim"
)

// C05 through the whole reconcile path (dynamic apply, InPlace): the last-applied record kept on a
// child follows the hook's desired state, also when only the record changes - a field some other
// writer (or the API server itself) already put there with the very value the hook starts to
// specify. Every sequence of {hook specifies the field, hook drops it, another writer sets the same
// value, sets another value, removes it} is played; after each step the store is compared with a
// three-line model of the three-way merge:
//   hook specifies      -> field = hook's value, record has it
//   hook does not, record had it -> field removed, record without it
//   hook does not, record did not -> field as the other writer left it

const lastAppliedAnn = "metacontroller.k8s.io/last-applied-configuration"

var c05RecordOps = []string{"H+", "H-", "F=", "F*", "F-"}

func TestVerif_C05_RecordFollowsDesired(t *testing.T) {
	maxLen := sim.Pick(3, 5)
	var seqs [][]string
	var rec func(prefix []string)
	rec = func(prefix []string) {
		if len(prefix) > 0 {
			seqs = append(seqs, append([]string(nil), prefix...))
		}
		if len(prefix) == maxLen {
			return
		}
		for _, op := range c05RecordOps {
			rec(append(prefix, op))
		}
	}
	rec(nil)
	for _, kind := range []string{"Widget", "ConfigMap"} {
		for si, seq := range seqs {
			has := false
			for _, op := range seq {
				if op == "H+" {
					has = true
				}
			}
			if !has {
				continue // the hook never specifies the field: nothing of the record to follow
			}
			id := fmt.Sprintf("c05-record-%s-%d", lower(kind), si)
			if !sim.WantCase(id) {
				continue
			}
			kind, seq := kind, seq
			t.Run(id, func(t *testing.T) {
				t.Parallel()
				runC05Record(t, id, kind, seq)
			})
		}
	}
}

func runC05Record(t *testing.T, id, kind string, seq []string) {
	rep := sim.R()
	rep.Begin("C05", id)
	uid := uniqueID("la")
	sc := &scenario{ID: uid, GenerateSelector: true, Kinds: []kindCfg{{Kind: kind, Method: "InPlace"}}}
	sc.Kids = []kidCfg{{Kind: kind, Name: "k-" + uid, Value: "v1"}}
	r := prepareScenario(sc)
	defer r.close()
	w := r.w
	w.caseID = id
	s := w.sim
	// the hook does not specify the field at first
	r.extra = ""
	s.ExtMutate(sc.parentInfo().GVR(), sc.ns(), sc.parentName(), func(o sim.Obj) {
		o["spec"] = sc.parentObject(r.kids, r.rev, r.extra)["spec"]
	})
	if err := w.start(); err != nil {
		inconclusive(t, "C05", id, err)
		return
	}
	defer w.flushCounters("C05")
	ri := kindInfo(kind)
	field := "spec"
	if kind == "ConfigMap" {
		field = "data"
	}
	settle := func() bool {
		for i := 0; i < 10; i++ {
			syncs, ok := w.round()
			if !ok {
				return false
			}
			if len(syncs) == 0 {
				if !w.quiesce() {
					return false
				}
				if w.q.Len() == 0 {
					return true
				}
			}
		}
		return true
	}
	if !settle() {
		inconclusive(t, "C05", id, w.watchdog)
		return
	}
	// model
	var live interface{} // nil = absent
	record := false
	hook := false
	var trace []string
	viol := func(sig, detail string) {
		child := s.Peek(ri.GVR(), sc.childNS(sc.Kids[0]), sc.Kids[0].Name)
		rep.Violation("C05", id, sig, detail, map[string]interface{}{"kind": kind, "sequence": seq, "trace": trace, "child": child})
	}
	judged := 0
	for _, op := range seq {
		switch op {
		case "H+", "H-":
			hook = op == "H+"
			r.extra = ""
			if hook {
				r.extra = "e1"
			}
			s.ExtMutate(sc.parentInfo().GVR(), sc.ns(), sc.parentName(), func(o sim.Obj) {
				o["spec"] = sc.parentObject(r.kids, r.rev, r.extra)["spec"]
			})
		case "F=", "F*", "F-":
			s.ExtMutate(ri.GVR(), sc.childNS(sc.Kids[0]), sc.Kids[0].Name, func(o sim.Obj) {
				m, _ := o[field].(map[string]interface{})
				if m == nil {
					return
				}
				switch op {
				case "F=":
					m["extra"] = "e1"
				case "F*":
					m["extra"] = "zz"
				case "F-":
					delete(m, "extra")
				}
			})
			switch op {
			case "F=":
				live = "e1"
			case "F*":
				live = "zz"
			case "F-":
				live = nil
			}
		}
		// the edit wakes the parent (child or parent event); make sure of it anyway
		w.q.Add(sc.parentKey())
		if !settle() {
			inconclusive(t, "C05", id, w.watchdog)
			return
		}
		// model step: one or more syncs with the current hook answer
		if hook {
			live, record = "e1", true
		} else if record {
			live, record = nil, false
		}
		trace = append(trace, fmt.Sprintf("%s -> field=%v recordHasField=%v", op, live, record))
		child := s.Peek(ri.GVR(), sc.childNS(sc.Kids[0]), sc.Kids[0].Name)
		if child == nil {
			viol("record:child-missing", "the desired child does not exist after the step "+op)
			break
		}
		judged++
		got, present := sim.Nested(child, field, "extra")
		if !present {
			got = nil
		}
		if fmt.Sprint(got) != fmt.Sprint(live) {
			viol("record:field-not-as-merged", fmt.Sprintf("after %v the child's %s.extra is %v, the three-way merge gives %v", trace, field, got, live))
		}
		ann, _ := sim.Nested(child, "metadata", "annotations", lastAppliedAnn)
		var recObj map[string]interface{}
		if as, _ := ann.(string); as == "" || json.Unmarshal([]byte(as), &recObj) != nil {
			viol("record:no-last-applied-record", "the child carries no parsable last-applied record")
			continue
		}
		rv, rpresent := sim.Nested(recObj, field, "extra")
		if rpresent != record || (record && fmt.Sprint(rv) != "e1") {
			viol("record:last-applied-not-desired", fmt.Sprintf("after %v the last-applied record has %s.extra=%v (present=%v); the hook's desired state has it present=%v", trace, field, rv, rpresent, record))
		}
	}
	rep.Counter("C05", "record_steps_judged", int64(judged))
	rep.Case("C05", id, judged > 0, id, map[string]interface{}{"kind": kind, "sequence": seq, "steps": judged})
}
