//go:build verif

package composite

import (
	"fmt"
	"math/rand"
	"sync/atomic"
	"testing"
	"time"

	sim "metacontroller/pkg/verifsim"
)

// C07 - rolling updates move one child per sync, in hook order, gated on child health.

func rolloutCfgs() []rolloutCfg {
	var out []rolloutCfg
	for _, kind := range []string{"Widget", "ConfigMap"} {
		for _, method := range []string{"RollingInPlace", "RollingRecreate"} {
			for _, check := range []string{"", "type", "type+status", "type+status+reason"} {
				if kind == "ConfigMap" && check != "" {
					continue
				}
				for _, fp := range []bool{false, true} {
					for _, gs := range []bool{false, true} {
						for _, oc := range []bool{false, true} {
							out = append(out, rolloutCfg{Kind: kind, Method: method, StatusCheck: check, FieldPaths: fp, GenSel: gs, OwnCond: oc})
						}
					}
				}
			}
		}
	}
	return out
}

type walkStep struct {
	Op    string `json:"op"`
	Child int    `json:"child,omitempty"`
	Arg   string `json:"arg,omitempty"`
}

func genWalk(rng *rand.Rand, n int) []walkStep {
	ops := []string{"sync", "sync", "sync", "heal", "heal", "heal-all", "heal-all", "delete", "new-rev", "new-rev", "new-extra", "scale-up", "scale-down", "fail-next-revision-update", "fail-next-hook-call"}
	var w []walkStep
	for i := 0; i < n; i++ {
		st := walkStep{Op: ops[rng.Intn(len(ops))], Child: rng.Intn(6)}
		if st.Op == "heal" {
			st.Arg = healthPatterns[rng.Intn(len(healthPatterns))]
		}
		w = append(w, st)
	}
	return w
}

func TestVerif_C07_Walks(t *testing.T) {
	cfgs := rolloutCfgs()
	rng := sim.Rand("C07")
	perCfg := sim.Pick(2, 40)
	for ci, base := range cfgs {
		for k := 0; k < perCfg; k++ {
			cfg := base
			cfg.N = 1 + rng.Intn(4)
			walk := genWalk(rng, 8+rng.Intn(10))
			id := fmt.Sprintf("c07-w%d-%d", ci, k)
			if !sim.WantCase(id) {
				continue
			}
			t.Run(id, func(t *testing.T) {
				t.Parallel()
				runC07Walk(t, id, cfg, walk)
			})
		}
	}
}

func runC07Walk(t *testing.T, id string, cfg rolloutCfg, walk []walkStep) {
	rep := sim.R()
	rep.Begin("C07", id)
	ro := newRollout(cfg, id)
	defer ro.close()
	if err := ro.r.w.start(); err != nil {
		inconclusive(t, "C07", id, err)
		return
	}
	defer ro.r.w.flushCounters("C07")
	// initial roll-out of the children, all healthy
	for i := 0; i < 6; i++ {
		if _, _, ok := ro.syncOnce(false); !ok {
			inconclusive(t, "C07", id, ro.r.w.watchdog)
			return
		}
		ro.healAll()
	}
	trace := []string{}
	for _, st := range walk {
		kids := ro.r.kids
		name := ""
		if len(kids) > 0 {
			name = kids[st.Child%len(kids)].Name
		}
		switch st.Op {
		case "sync":
			_, vs, ok := ro.syncOnce(true)
			if !ok {
				inconclusive(t, "C07", id, ro.r.w.watchdog)
				return
			}
			for _, v := range vs {
				trace = append(trace, fmt.Sprintf("sync moves=%v cond=%v", v.Moves, v.Condition))
			}
			continue
		case "heal":
			ro.setHealth(name, st.Arg)
		case "heal-all":
			ro.healAll()
		case "delete":
			ro.deleteChild(name)
		case "new-rev":
			ro.newRev()
		case "new-extra":
			ro.newExtra()
		case "scale-up":
			if len(kids) < 5 {
				ro.scale(1)
			}
		case "scale-down":
			ro.scale(-1)
		case "fail-next-hook-call":
			// one of the (possibly parallel, per-revision) hook calls of the next sync fails at once;
			// its siblings answer a little later
			var fired int32
			ro.r.w.hooks.SetOverride(func(call *sim.HookCall) *sim.HookResponse {
				if call.Path != "sync" && call.Path != "finalize" {
					return nil
				}
				if atomic.CompareAndSwapInt32(&fired, 0, 1) {
					return &sim.HookResponse{Status: 500, Body: []byte("boom")}
				}
				time.Sleep(120 * time.Millisecond)
				return nil
			})
			ro.r.w.q.Add(ro.sc.parentKey())
		case "fail-next-revision-update":
			// an interrupted revision bookkeeping (the add to the latest revision is accepted, the
			// removal from the old one is not) leaves a child named by two revisions
			var fired int32
			ro.r.w.sim.SetFault(func(ri *sim.ReqInfo) *sim.Fault {
				if ri.GVR.Resource == "controllerrevisions" && ri.Verb == "update" && atomic.CompareAndSwapInt32(&fired, 0, 1) {
					return &sim.Fault{Code: 500}
				}
				return nil
			})
		}
		trace = append(trace, st.Op+" "+name+" "+st.Arg)
		// let the events of the action be processed
		if _, _, ok := ro.syncOnce(false); !ok {
			inconclusive(t, "C07", id, ro.r.w.watchdog)
			return
		}
		ro.r.w.hooks.SetOverride(nil)
	}
	rep.Counter("C07", "syncs_judged", int64(ro.syncs))
	rep.Counter("C07", "moves_observed", int64(ro.moves))
	rep.Case("C07", id, ro.moves > 0, cfg.key()+"/"+sim.Hash(walk)[:8], map[string]interface{}{"cfg": cfg, "walk": walk, "trace": trace})
}

// Exhaustive health table: n children, first child already moved to the new revision; every
// health pattern of that child (and deletion) decides whether the second move may happen.
func TestVerif_C07_HealthGate(t *testing.T) {
	for ci, base := range rolloutCfgs() {
		if base.OwnCond || base.Kind != "Widget" {
			continue
		}
		for _, n := range []int{2, 3} {
			for _, pattern := range append(append([]string{}, healthPatterns...), "deleted") {
				cfg := base
				cfg.N = n
				id := fmt.Sprintf("c07-gate-%d-n%d-%s", ci, n, pattern)
				if !sim.WantCase(id) {
					continue
				}
				pattern := pattern
				t.Run(id, func(t *testing.T) {
					t.Parallel()
					runC07Gate(t, id, cfg, pattern)
				})
			}
		}
	}
}

func runC07Gate(t *testing.T, id string, cfg rolloutCfg, pattern string) {
	rep := sim.R()
	rep.Begin("C07", id)
	ro := newRollout(cfg, id)
	defer ro.close()
	if err := ro.r.w.start(); err != nil {
		inconclusive(t, "C07", id, err)
		return
	}
	defer ro.r.w.flushCounters("C07")
	for i := 0; i < 5; i++ {
		if _, _, ok := ro.syncOnce(false); !ok {
			inconclusive(t, "C07", id, ro.r.w.watchdog)
			return
		}
		ro.healAll()
	}
	ro.newRev()
	// first move
	moved := ""
	for i := 0; i < 6 && moved == ""; i++ {
		_, vs, ok := ro.syncOnce(false)
		if !ok {
			inconclusive(t, "C07", id, ro.r.w.watchdog)
			return
		}
		for _, v := range vs {
			if len(v.Moves) > 0 {
				moved = v.Moves[0]
			}
		}
		if len(vs) == 0 {
			break
		}
	}
	if moved == "" {
		rep.Case("C07", id, false, id, map[string]interface{}{"cfg": cfg, "pattern": pattern, "note": "no first move observed"})
		return
	}
	// let a recreated child come back, then set the health of the moved child
	for i := 0; i < 3; i++ {
		if ro.child(moved) != nil {
			break
		}
		ro.syncOnce(false)
	}
	if pattern == "deleted" {
		ro.deleteChild(moved)
	} else {
		ro.setHealth(moved, pattern)
	}
	moves2 := 0
	var cond sim.Obj
	for i := 0; i < 3; i++ {
		_, vs, ok := ro.syncOnce(true)
		if !ok {
			inconclusive(t, "C07", id, ro.r.w.watchdog)
			return
		}
		for _, v := range vs {
			moves2 += len(v.Moves)
			if v.Condition != nil {
				cond = v.Condition
			}
		}
		if pattern == "deleted" {
			break // the child is re-created by this very sync; later syncs may legitimately proceed
		}
	}
	rep.Counter("C07", "syncs_judged", int64(ro.syncs))
	rep.Counter("C07", "moves_observed", int64(ro.moves))
	rep.Case("C07", id, true, cfg.key()+"/"+pattern, map[string]interface{}{"cfg": cfg, "pattern": pattern, "secondMoves": moves2, "condition": cond})
}
