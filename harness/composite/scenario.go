//go:build verif

package composite

import (
	"fmt"
	"math/rand"
	"sort"
	"strings"

	metav1 "k8s.io/apimachinery/pkg/apis/meta/v1"

	"metacontroller/pkg/apis/metacontroller/v1alpha1"
	env "metacontroller/pkg/verifenv"
	sim "metacontroller/pkg/verifsim"
)

// A scenario is (controller configuration, parent, hook program inputs, initial cluster contents,
// environment script). It is plain data so that it can be written into samples and replay files.

type scenario struct {
	ID               string    `json:"id"`
	ClusterParent    bool      `json:"clusterParent"`
	GenerateSelector bool      `json:"generateSelector"`
	Finalize         bool      `json:"finalize"`
	SSA              bool      `json:"ssa"`
	Mode             string    `json:"mode"` // fixed | ordered
	Kinds            []kindCfg `json:"kinds"`
	Kids             []kidCfg  `json:"kids"`
	Initial          []initObj `json:"initial"`
	Edits            []edit    `json:"edits"`
	FieldPaths       []string  `json:"fieldPaths,omitempty"`
	// NoTemplateLabels leaves spec.template.metadata.labels off the parent. With a user-supplied
	// selector metacontroller labels ControllerRevisions from that field (Deployment convention).
	NoTemplateLabels bool `json:"noTemplateLabels,omitempty"`
	// ParentSelector gives the controller a labelSelector (managed-by=<id>) and the parent that label.
	ParentSelector bool `json:"parentSelector,omitempty"`
	// ResyncAfter > 0: every hook answer carries resyncAfterSeconds (also answered when the number of
	// desired kids is even)
	ResyncAfter int64 `json:"resyncAfter,omitempty"`
	// EchoAnnotations: the hook builds each desired child from the one it observed (annotations echoed)
	EchoAnnotations bool `json:"echoAnnotations,omitempty"`
}

type kindCfg struct {
	Kind       string `json:"kind"`
	Method     string `json:"method"` // "", OnDelete, Recreate, InPlace, RollingRecreate, RollingInPlace, "<nil>" (no strategy block)
	StatusCond string `json:"statusCond,omitempty"`
	// StatusCheck: "" none | "type" | "type+status" | "type+status+reason" on condition Ready/True/Ok
	StatusCheck string `json:"statusCheck,omitempty"`
}

type kidCfg struct {
	Kind      string                 `json:"kind"`
	Name      string                 `json:"name"`
	NS        string                 `json:"ns,omitempty"`
	Value     string                 `json:"value"`
	MetaExtra map[string]interface{} `json:"metaExtra,omitempty"`
	Status    interface{}            `json:"status,omitempty"` // the hook's desired child carries this status block
}

// initObj is one pre-existing object, described by its role.
type initObj struct {
	Role  string `json:"role"` // orphan-desired orphan-extra owned-stale owned-drift owned-foreignfield foreign-lookalike other-ns nonmatching-orphan
	Kind  string `json:"kind"`
	Name  string `json:"name"`
	NS    string `json:"ns,omitempty"`
	Value string `json:"value,omitempty"`
}

type edit struct {
	Op    string `json:"op"` // set-value add-kid remove-kid set-rev set-extra drift foreign-field delete-child
	Kid   int    `json:"kid,omitempty"`
	Value string `json:"value,omitempty"`
	Kind  string `json:"kind,omitempty"`
	Name  string `json:"name,omitempty"`
}

func kindInfo(kind string) sim.ResourceInfo {
	if kind == "AltWidget" {
		return sim.AltWidgetInfo
	}
	for _, ri := range sim.Catalog {
		if ri.Kind == kind {
			return ri
		}
	}
	panic("unknown kind " + kind)
}

var allMethods = []string{"<nil>", "", "OnDelete", "Recreate", "InPlace", "RollingRecreate", "RollingInPlace"}

func methodUpdates(m string) bool {
	switch m {
	case "Recreate", "InPlace", "RollingRecreate", "RollingInPlace":
		return true
	}
	return false
}

func methodRolling(m string) bool { return m == "RollingRecreate" || m == "RollingInPlace" }

func (sc *scenario) parentInfo() sim.ResourceInfo {
	if sc.ClusterParent {
		return sim.ClusterThingInfo
	}
	return sim.ThingInfo
}

func (sc *scenario) ns() string {
	if sc.ClusterParent {
		return ""
	}
	return "ns-" + sc.ID
}

func (sc *scenario) parentName() string { return "p-" + sc.ID }

func (sc *scenario) parentKey() string {
	if sc.ClusterParent {
		return sc.parentName()
	}
	return sc.ns() + "/" + sc.parentName()
}

func (sc *scenario) childNS(k kidCfg) string {
	ri := kindInfo(k.Kind)
	if !ri.Namespaced {
		return ""
	}
	if k.NS != "" {
		return k.NS
	}
	if sc.ClusterParent {
		return "cns-" + sc.ID
	}
	return sc.ns()
}

func (sc *scenario) labels() map[string]string { return map[string]string{"app": "a-" + sc.ID} }

func (sc *scenario) worldCfg() worldCfg {
	cfg := worldCfg{ID: sc.ID, Parent: sc.parentInfo(), GenerateSelector: sc.GenerateSelector, FinalizeHook: sc.Finalize, SSA: sc.SSA, FieldPaths: sc.FieldPaths}
	if sc.ParentSelector {
		cfg.ParentSelector = &metav1.LabelSelector{MatchLabels: map[string]string{"managed-by": sc.ID}}
	}
	for _, k := range sc.Kinds {
		cc := childCfg{Info: kindInfo(k.Kind)}
		if k.Method == "<nil>" {
			cc.NoStrategy = true
		} else {
			cc.Method = v1alpha1.ChildUpdateMethod(k.Method)
		}
		if k.StatusCond != "" {
			st := "True"
			cc.Checks = []v1alpha1.StatusConditionCheck{{Type: k.StatusCond, Status: &st}}
		}
		switch k.StatusCheck {
		case "type":
			cc.Checks = []v1alpha1.StatusConditionCheck{{Type: "Ready"}}
		case "type+status":
			st := "True"
			cc.Checks = []v1alpha1.StatusConditionCheck{{Type: "Ready", Status: &st}}
		case "type+status+reason":
			st, rs := "True", "Ok"
			cc.Checks = []v1alpha1.StatusConditionCheck{{Type: "Ready", Status: &st, Reason: &rs}}
		}
		cfg.Children = append(cfg.Children, cc)
	}
	return cfg
}

func (sc *scenario) method(kind string) string {
	for _, k := range sc.Kinds {
		if k.Kind == kind {
			return k.Method
		}
	}
	return ""
}

// parentObject renders the parent as the workload creates it.
func (sc *scenario) parentObject(kids []kidCfg, rev, extra string) sim.Obj {
	p := sim.NewObject(sc.parentInfo(), sc.ns(), sc.parentName())
	if sc.ParentSelector {
		sim.SetLabels(p, map[string]string{"managed-by": sc.ID})
	}
	spec := sim.Obj{}
	if !sc.GenerateSelector {
		ml := sim.Obj{}
		cl := sim.Obj{}
		for k, v := range sc.labels() {
			ml[k] = v
			cl[k] = v
		}
		spec["selector"] = sim.Obj{"matchLabels": ml}
		spec["childLabels"] = cl
	}
	tmpl := sim.Obj{"rev": rev}
	if !sc.GenerateSelector && !sc.NoTemplateLabels {
		tl := sim.Obj{}
		for k, v := range sc.labels() {
			tl[k] = v
		}
		tmpl["metadata"] = sim.Obj{"labels": tl}
	}
	spec["template"] = tmpl
	spec["extra"] = extra
	if sc.Mode != "" {
		spec["mode"] = sc.Mode
	}
	var ks []interface{}
	for _, k := range kids {
		ko := sim.KidSpec(kindInfo(k.Kind), sc.childNSExplicit(k), k.Name, k.Value)
		if k.MetaExtra != nil {
			ko["metaExtra"] = sim.DeepCopy(k.MetaExtra)
		}
		if k.Status != nil {
			ko["status"] = sim.DeepCopyValue(k.Status)
		}
		ks = append(ks, ko)
	}
	spec["kids"] = ks
	if sc.Finalize {
		spec["finalize"] = "step"
	}
	if sc.EchoAnnotations {
		spec["echoAnnotations"] = true
	}
	if sc.ResyncAfter > 0 {
		spec["resyncAfter"] = sc.ResyncAfter
	} else if len(kids)%2 == 0 {
		// the hook asks to be called again later (resyncAfterSeconds); parked by the recording queue
		spec["resyncAfter"] = int64(30 + len(kids))
	}
	p["spec"] = spec
	return p
}

// childNSExplicit: what the hook puts into metadata.namespace ("" = let metacontroller default it).
func (sc *scenario) childNSExplicit(k kidCfg) string {
	if !kindInfo(k.Kind).Namespaced {
		return ""
	}
	if sc.ClusterParent {
		return sc.childNS(k)
	}
	return k.NS // normally empty: defaulted to the parent's namespace
}

// ---------------------------------------------------------------------------------------------
// generation

func genScenario(rng *rand.Rand, id string) *scenario {
	sc := &scenario{ID: id}
	sc.ClusterParent = rng.Intn(10) < 3
	sc.GenerateSelector = rng.Intn(2) == 0
	sc.Finalize = rng.Intn(3) == 0
	sc.SSA = rng.Intn(4) == 0
	pool := []string{"ConfigMap", "Pod", "Widget"}
	if sc.ClusterParent {
		pool = []string{"ClusterWidget", "PersistentVolume", "Widget", "ConfigMap"}
	}
	rng.Shuffle(len(pool), func(i, j int) { pool[i], pool[j] = pool[j], pool[i] })
	nk := 1 + rng.Intn(2)
	ordered := rng.Intn(5) == 0
	for _, kind := range pool[:nk] {
		m := allMethods[rng.Intn(len(allMethods))]
		if sc.ClusterParent && methodRolling(m) && rng.Intn(6) != 0 {
			// rolling updates of cluster-scoped parents all end in known finding KF1; keep a few
			m = []string{"InPlace", "Recreate"}[rng.Intn(2)]
		}
		sc.Kinds = append(sc.Kinds, kindCfg{Kind: kind, Method: m})
		if !kindInfo(kind).HasStatus {
			ordered = false
		}
	}
	if ordered {
		sc.Mode = "ordered"
	}
	if rng.Intn(3) == 0 {
		sc.FieldPaths = []string{"spec.template"}
	}
	sc.NoTemplateLabels = rng.Intn(12) == 0
	values := []string{"v1", "v2", "v3"}
	// children of different kinds often share one name (the "named after the parent" convention);
	// a third of the scenarios do that
	sharedNames := rng.Intn(3) == 0
	for _, k := range sc.Kinds {
		n := 1 + rng.Intn(3)
		for i := 0; i < n; i++ {
			name := fmt.Sprintf("%s-%s-%d", lower(k.Kind), id, i)
			if sharedNames {
				name = fmt.Sprintf("kid-%s-%d", id, i)
			}
			kc := kidCfg{Kind: k.Kind, Name: name, Value: values[rng.Intn(len(values))]}
			// one desired child in eight carries a status block, as templates copied from live
			// objects do (decided by the name, so that the rest of the scenario stream is unchanged)
			switch h := sim.Hash(strings.ReplaceAll(name, id, strings.TrimRight(id, "abcdefghijklmnopqrstuvwxyz")) + "status"); {
			case h[0] == '0':
				kc.Status = map[string]interface{}{}
			case h[0] == '1':
				kc.Status = map[string]interface{}{"phase": "Wanted"}
			}
			sc.Kids = append(sc.Kids, kc)
		}
	}
	// a cluster-scoped parent may name its children alike in several namespaces: in every second
	// such scenario the first child of each namespaced kind gets a twin of the same name elsewhere
	// (decided by the scenario id, so that the rest of the scenario stream is unchanged)
	if sc.ClusterParent && sim.Hash(strings.TrimRight(id, "abcdefghijklmnopqrstuvwxyz") + "twin")[0] < '8' {
		seen := map[string]bool{}
		for _, kd := range append([]kidCfg(nil), sc.Kids...) {
			if !kindInfo(kd.Kind).Namespaced || seen[kd.Kind] {
				continue
			}
			seen[kd.Kind] = true
			sc.Kids = append(sc.Kids, kidCfg{Kind: kd.Kind, Name: kd.Name, NS: "cns2-" + id, Value: values[(len(kd.Value)+len(kd.Name))%len(values)]})
		}
	}
	// initial contents
	roles := []string{"orphan-desired", "orphan-extra", "owned-stale", "owned-drift", "owned-foreignfield", "foreign-lookalike", "other-ns", "nonmatching-orphan"}
	for _, role := range roles {
		if rng.Intn(3) != 0 {
			continue
		}
		k := sc.Kinds[rng.Intn(len(sc.Kinds))]
		io := initObj{Role: role, Kind: k.Kind, Value: values[rng.Intn(len(values))]}
		switch role {
		case "orphan-desired", "owned-drift", "owned-foreignfield":
			// takes the name of a desired kid of that kind
			var cands []kidCfg
			for _, kd := range sc.Kids {
				if kd.Kind == k.Kind {
					cands = append(cands, kd)
				}
			}
			kd := cands[rng.Intn(len(cands))]
			// at most one pre-existing object per desired name
			taken := false
			for _, prev := range sc.Initial {
				if prev.Kind == kd.Kind && prev.Name == kd.Name {
					taken = true
				}
			}
			if taken {
				continue
			}
			io.Name = kd.Name
		default:
			io.Name = fmt.Sprintf("x-%s-%s-%s", role, lower(k.Kind), id)
		}
		sc.Initial = append(sc.Initial, io)
	}
	// edits after first convergence
	ops := []string{"set-value", "add-kid", "remove-kid", "set-rev", "set-extra", "drift", "foreign-field", "delete-child"}
	ne := rng.Intn(4)
	for i := 0; i < ne; i++ {
		e := edit{Op: ops[rng.Intn(len(ops))], Kid: rng.Intn(8), Value: fmt.Sprintf("w%d", i)}
		sc.Edits = append(sc.Edits, e)
	}
	sc.EchoAnnotations = rng.Intn(5) == 0
	if rng.Intn(5) == 0 {
		// the parent is deleted and created again under the same name (new UID) while the
		// ControllerRevisions of the previous incarnation are still there
		sc.Edits = append(sc.Edits, edit{Op: "recreate-parent", Value: "rp"})
	}
	return sc
}

func lower(s string) string {
	b := []byte(s)
	for i := range b {
		if b[i] >= 'A' && b[i] <= 'Z' {
			b[i] += 'a' - 'A'
		}
	}
	return string(b)
}

// shapeKey identifies a scenario up to renaming: configuration, roles and edit kinds.
func (sc *scenario) shapeKey() string {
	var kinds, inits, edits []string
	for _, k := range sc.Kinds {
		kinds = append(kinds, k.Kind+":"+k.Method)
	}
	for _, i := range sc.Initial {
		inits = append(inits, i.Role+":"+i.Kind)
	}
	for _, e := range sc.Edits {
		edits = append(edits, e.Op)
	}
	sort.Strings(inits)
	return fmt.Sprintf("cl=%v gs=%v fin=%v ssa=%v mode=%s kinds=%v nkids=%d init=%v edits=%v fp=%v ntl=%v", sc.ClusterParent, sc.GenerateSelector, sc.Finalize, sc.SSA, sc.Mode, kinds, len(sc.Kids), inits, edits, sc.FieldPaths, sc.NoTemplateLabels)
}

// ---------------------------------------------------------------------------------------------
// running

// scenarioRun is the live state of a scenario being executed.
type scenarioRun struct {
	sc     *scenario
	w      *world
	kids   []kidCfg
	rev    string
	extra  string
	parent sim.Obj // as created (with uid)
	syncs  []*syncResult
	// onSync observers (property monitors)
	observers []func(*syncResult)
}

func (r *scenarioRun) childGVRs() []sim.ResourceInfo {
	var out []sim.ResourceInfo
	for _, k := range r.sc.Kinds {
		out = append(out, kindInfo(k.Kind))
	}
	return out
}

// prepareScenario builds cluster, parent and initial contents; the controller is not started yet.
func prepareScenario(sc *scenario) *scenarioRun {
	w := newWorld(sc.worldCfg())
	r := &scenarioRun{sc: sc, w: w, kids: append([]kidCfg(nil), sc.Kids...), rev: "r1", extra: "e1"}
	r.parent = w.sim.MustCreate(sc.parentInfo().GVR(), sc.parentObject(r.kids, r.rev, r.extra))
	for _, io := range sc.Initial {
		r.createInitial(io)
	}
	return r
}

func startScenario(sc *scenario) (*scenarioRun, error) {
	r := prepareScenario(sc)
	if err := r.w.start(); err != nil {
		r.w.close()
		return nil, err
	}
	return r, nil
}

// asCreatedByMC renders a child the way metacontroller's dynamic apply would have created it for
// the given desired state: last-applied record, controller reference, matching labels.
func (r *scenarioRun) asCreatedByMC(k kidCfg, value string) sim.Obj {
	desired := r.desiredChild(k, value)
	if r.sc.GenerateSelector {
		sim.SetLabels(desired, r.matchingLabels())
	}
	obj := sim.DeepCopy(desired)
	if kindInfo(k.Kind).Namespaced {
		// the last-applied record carries the defaulted namespace too
		sim.SetNested(desired, r.sc.childNS(k), "metadata", "namespace")
		sim.SetNested(obj, r.sc.childNS(k), "metadata", "namespace")
	}
	setLastApplied(obj, desired)
	// what the hook said about system-populated metadata is recorded as applied, but the server
	// keeps its own values
	for f := range k.MetaExtra {
		delete(obj["metadata"].(map[string]interface{}), f)
	}
	// ... and a status block in the desired child never reaches the stored object
	delete(obj, "status")
	sim.AddOwner(obj, r.parent, true)
	return obj
}

func (r *scenarioRun) desiredChild(k kidCfg, value string) sim.Obj {
	var labels map[string]interface{}
	if !r.sc.GenerateSelector {
		labels = map[string]interface{}{}
		for kk, v := range r.sc.labels() {
			labels[kk] = v
		}
	}
	kid := sim.KidSpec(kindInfo(k.Kind), r.sc.childNS(k), k.Name, value)
	if k.MetaExtra != nil {
		kid["metaExtra"] = sim.DeepCopy(k.MetaExtra)
	}
	if k.Status != nil {
		kid["status"] = sim.DeepCopyValue(k.Status)
	}
	return sim.BuildChild(kid, labels, r.rev, r.extra)
}

func (r *scenarioRun) matchingLabels() map[string]string {
	if r.sc.GenerateSelector {
		return map[string]string{"controller-uid": sim.UID(r.parent)}
	}
	return r.sc.labels()
}

func (r *scenarioRun) createInitial(io initObj) {
	s := r.w.sim
	ri := kindInfo(io.Kind)
	k := kidCfg{Kind: io.Kind, Name: io.Name, NS: io.NS, Value: io.Value}
	ns := r.sc.childNS(k)
	obj := r.desiredChild(k, io.Value)
	if ri.Namespaced {
		sim.SetNested(obj, ns, "metadata", "namespace")
	}
	sim.SetLabels(obj, r.matchingLabels())
	switch io.Role {
	case "orphan-desired", "orphan-extra":
		// matching orphan, no owner
	case "owned-stale":
		sim.AddOwner(obj, r.parent, true)
	case "owned-drift":
		sim.AddOwner(obj, r.parent, true)
		// drifted owned field, with a last-applied record as metacontroller would have left it
		setLastApplied(obj, r.desiredChild(k, io.Value))
		if ri.Kind == "ConfigMap" {
			sim.SetNested(obj, "drifted", "data", "value")
		} else {
			sim.SetNested(obj, "drifted", "spec", "value")
			// a list the hook specifies drifted as well: an item edited, another one injected (the
			// merge identifies items of this list by "port", so the edit is made to the other field)
			sim.SetNested(obj, []interface{}{sim.Obj{"name": "injected", "port": int64(9)}, sim.Obj{"name": "renamed", "port": int64(80)}}, "spec", "ports")
		}
	case "owned-foreignfield":
		sim.AddOwner(obj, r.parent, true)
		setLastApplied(obj, r.desiredChild(k, io.Value))
		if ri.Kind == "ConfigMap" {
			sim.SetNested(obj, "keep-me", "data", "foreign")
		} else {
			sim.SetNested(obj, "keep-me", "spec", "foreign")
		}
		ann := sim.Annotations(obj)
		ann["someone-else"] = "x"
		sim.SetAnnotations(obj, ann)
	case "foreign-lookalike":
		other := sim.Obj{"apiVersion": "apps/v1", "kind": "ReplicaSet", "metadata": sim.Obj{"name": "other", "uid": "foreign-uid-" + r.sc.ID}}
		sim.AddOwner(obj, other, true)
	case "other-ns":
		if !ri.Namespaced {
			return
		}
		sim.SetNested(obj, "elsewhere-"+r.sc.ID, "metadata", "namespace")
		if r.sc.ClusterParent {
			// for a cluster-scoped parent another namespace is still in scope; make it foreign-owned instead
			other := sim.Obj{"apiVersion": "apps/v1", "kind": "ReplicaSet", "metadata": sim.Obj{"name": "other2", "uid": "foreign2-uid-" + r.sc.ID}}
			sim.AddOwner(obj, other, true)
		}
	case "nonmatching-orphan":
		sim.SetLabels(obj, map[string]string{"app": "someone-else"})
	}
	s.MustCreate(ri.GVR(), obj)
}

func setLastApplied(obj sim.Obj, desired sim.Obj) {
	data, _ := jsonMarshal(desired)
	ann := sim.Annotations(obj)
	ann["metacontroller.k8s.io/last-applied-configuration"] = string(data)
	sim.SetAnnotations(obj, ann)
}

func (r *scenarioRun) close() { r.w.close() }

func (r *scenarioRun) roundBound() int {
	return 3*(len(r.sc.Initial)+len(r.kids)+len(r.sc.Kids)) + 12
}

// envStep plays the rest of the world between rounds (kubelet marking children ready in ordered
// mode). Returns true if it did something.
func (r *scenarioRun) envStep() bool {
	if r.sc.Mode != "ordered" {
		return false
	}
	did := false
	for _, ri := range r.childGVRs() {
		if !ri.HasStatus {
			continue
		}
		for _, o := range r.w.sim.PeekAll(ri.GVR()) {
			c := sim.ControllerOf(o)
			if c == nil || c.UID != sim.UID(r.parent) || sim.IsDeleting(o) {
				continue
			}
			if v, _ := sim.Nested(o, "status", "ready"); v == true {
				continue
			}
			o2 := sim.DeepCopy(o)
			sim.SetNested(o2, true, "status", "ready")
			delete(o2["metadata"].(map[string]interface{}), "resourceVersion")
			if _, err := r.w.sim.ExtUpdateStatus(ri.GVR(), o2); err == nil {
				did = true
			}
		}
	}
	return did
}

// converge runs rounds until the queue stays empty and the environment has nothing left to do.
// Returns (rounds used, converged, ok) - ok=false means a watchdog fired (inconclusive).
func (r *scenarioRun) converge() (int, bool, bool) {
	bound := r.roundBound()
	for round := 1; round <= bound; round++ {
		syncs, ok := r.w.round()
		if !ok {
			return round, false, false
		}
		for _, s := range syncs {
			r.syncs = append(r.syncs, s)
			for _, ob := range r.observers {
				ob(s)
			}
		}
		if len(syncs) == 0 {
			if r.envStep() {
				continue
			}
			if !r.w.quiesce() {
				return round, false, false
			}
			if r.w.q.Len() == 0 {
				return round, true, true
			}
		}
	}
	return bound, false, true
}

// forceSync enqueues the parent and runs one round (a "further sync").
func (r *scenarioRun) forceSync() ([]*syncResult, bool) {
	r.w.q.Add(r.sc.parentKey())
	syncs, ok := r.w.round()
	for _, s := range syncs {
		r.syncs = append(r.syncs, s)
		for _, ob := range r.observers {
			ob(s)
		}
	}
	return syncs, ok
}

func (r *scenarioRun) liveParent() sim.Obj {
	return r.w.sim.Peek(r.sc.parentInfo().GVR(), r.sc.ns(), r.sc.parentName())
}

// ownedChildren returns kind -> key -> object for everything the parent controls.
func (r *scenarioRun) ownedChildren() map[string]map[string]sim.Obj {
	out := map[string]map[string]sim.Obj{}
	for _, ri := range r.childGVRs() {
		out[ri.Kind] = map[string]sim.Obj{}
		for _, o := range r.w.sim.PeekAll(ri.GVR()) {
			if c := sim.ControllerOf(o); c != nil && c.UID == sim.UID(r.parent) {
				out[ri.Kind][sim.Key(o)] = o
			}
		}
	}
	return out
}

// hookView renders the children map the way the documentation says the hook sees it, from the
// store (used to evaluate the program outside metacontroller).
func (r *scenarioRun) hookView() sim.Obj {
	view := sim.Obj{}
	for _, ri := range r.childGVRs() {
		g := sim.Obj{}
		for _, o := range r.w.sim.PeekAll(ri.GVR()) {
			if c := sim.ControllerOf(o); c == nil || c.UID != sim.UID(r.parent) {
				continue
			}
			if !r.sc.ClusterParent && sim.NS(o) != r.sc.ns() {
				continue
			}
			name := sim.Name(o)
			if r.sc.ClusterParent && ri.Namespaced {
				name = sim.NS(o) + "/" + name
			}
			g[name] = o
		}
		view[sim.HookKey(ri)] = g
	}
	return view
}

// applyEdit performs one environment edit; returns false if it was not applicable.
func (r *scenarioRun) applyEdit(e edit) bool {
	s := r.w.sim
	pgvr := r.sc.parentInfo().GVR()
	updateParent := func() bool {
		_, err := s.ExtMutate(pgvr, r.sc.ns(), r.sc.parentName(), func(o sim.Obj) {
			np := r.sc.parentObject(r.kids, r.rev, r.extra)
			o["spec"] = np["spec"]
		})
		return err == nil
	}
	switch e.Op {
	case "set-value":
		if len(r.kids) == 0 {
			return false
		}
		r.kids[e.Kid%len(r.kids)].Value = e.Value
		return updateParent()
	case "add-kid":
		k := r.sc.Kinds[e.Kid%len(r.sc.Kinds)]
		r.kids = append(r.kids, kidCfg{Kind: k.Kind, Name: fmt.Sprintf("%s-%s-n%s", lower(k.Kind), r.sc.ID, e.Value), Value: e.Value})
		return updateParent()
	case "remove-kid":
		if len(r.kids) <= 1 {
			return false
		}
		i := e.Kid % len(r.kids)
		r.kids = append(r.kids[:i:i], r.kids[i+1:]...)
		return updateParent()
	case "recreate-parent":
		old := s.Peek(pgvr, r.sc.ns(), r.sc.parentName())
		if old == nil || len(sim.Finalizers(old)) > 0 {
			return false
		}
		if err := s.ExtDelete(pgvr, r.sc.ns(), r.sc.parentName(), ""); err != nil {
			return false
		}
		// the garbage collector has removed the children of the previous incarnation, not yet its
		// ControllerRevisions
		for _, ri := range r.childGVRs() {
			for _, o := range s.PeekAll(ri.GVR()) {
				for _, ref := range sim.OwnerRefs(o) {
					if ref.UID == sim.UID(old) {
						s.ExtDelete(ri.GVR(), sim.NS(o), sim.Name(o), "")
						break
					}
				}
			}
		}
		r.parent = s.MustCreate(pgvr, r.sc.parentObject(r.kids, r.rev, r.extra))
		return true
	case "set-rev":
		r.rev = "r-" + e.Value
		return updateParent()
	case "set-extra":
		r.extra = "e-" + e.Value
		return updateParent()
	case "drift", "foreign-field", "delete-child":
		owned := r.ownedChildren()
		var all []sim.Obj
		var kinds []string
		for k := range owned {
			kinds = append(kinds, k)
		}
		sort.Strings(kinds)
		for _, k := range kinds {
			var keys []string
			for kk := range owned[k] {
				keys = append(keys, kk)
			}
			sort.Strings(keys)
			for _, kk := range keys {
				all = append(all, owned[k][kk])
			}
		}
		if len(all) == 0 {
			return false
		}
		o := all[e.Kid%len(all)]
		ri := kindInfo(o["kind"].(string))
		field := "spec"
		if ri.Kind == "ConfigMap" {
			field = "data"
		}
		switch e.Op {
		case "drift":
			// every second drift is a metadata-only one (it moves resourceVersion, not generation)
			if len(e.Value)%2 == 0 || e.Kid%2 == 1 {
				_, err := s.ExtMutate(ri.GVR(), sim.NS(o), sim.Name(o), func(o sim.Obj) { sim.SetNested(o, "tampered-"+e.Value, "metadata", "annotations", "hook-note") })
				return err == nil
			}
			_, err := s.ExtMutate(ri.GVR(), sim.NS(o), sim.Name(o), func(o sim.Obj) { sim.SetNested(o, "drift-"+e.Value, field, "value") })
			return err == nil
		case "foreign-field":
			_, err := s.ExtMutate(ri.GVR(), sim.NS(o), sim.Name(o), func(o sim.Obj) { sim.SetNested(o, "f-"+e.Value, field, "foreign") })
			return err == nil
		default:
			return s.ExtDelete(ri.GVR(), sim.NS(o), sim.Name(o), "") == nil
		}
	}
	return false
}

var _ = env.RevisionGVR
