//go:build verif

package composite

import (
	"fmt"
	"reflect"
	"sync/atomic"
	"testing"

	sim "metacontroller/pkg/verifsim"
)

// C11 - parent status = hook status + observedGeneration; nothing else is touched.

type c11Case struct {
	Status   string `json:"status"`   // null omit empty nested own-og conditions
	Live     string `json:"live"`     // same spec-edited recreated
	Fault    string `json:"fault"`    // none 409x1 409x6 404 500
	ChildErr bool   `json:"childErr"` // a child create fails with 500
}

func (c c11Case) id() string {
	return fmt.Sprintf("c11-%s-%s-%s-ce%v", c.Status, c.Live, c.Fault, c.ChildErr)
}

func c11Status(kind string) (field string, value interface{}) {
	switch kind {
	case "null":
		return "nullStatus", true
	case "omit":
		return "omitStatus", true
	case "empty":
		return "rawStatus", sim.Obj{}
	case "nested":
		return "rawStatus", sim.Obj{"phase": "Running", "nested": sim.Obj{"a": int64(1), "list": []interface{}{"x", sim.Obj{"k": "v"}}}, "replicas": int64(3)}
	case "own-og":
		return "rawStatus", sim.Obj{"observedGeneration": int64(999), "phase": "X"}
	case "conditions":
		return "rawStatus", sim.Obj{"conditions": []interface{}{sim.Obj{"type": "Ready", "status": "True"}}}
	}
	return "", nil
}

func TestVerif_C11_Status(t *testing.T) {
	for _, st := range []string{"null", "omit", "empty", "nested", "own-og", "conditions"} {
		for _, live := range []string{"same", "spec-edited", "recreated", "recreated-at-conflict"} {
			for _, fault := range []string{"none", "409x1", "409x6", "404", "500"} {
				if live == "recreated-at-conflict" && fault != "409x1" && fault != "409x6" {
					continue // the parent is replaced between the refused write and the retry's fresh read
				}
				for _, ce := range []bool{false, true} {
					c := c11Case{st, live, fault, ce}
					if !sim.WantCase(c.id()) {
						continue
					}
					t.Run(c.id(), func(t *testing.T) {
						t.Parallel()
						runC11(t, c)
					})
				}
			}
		}
	}
}

func runC11(t *testing.T, c c11Case) {
	rep := sim.R()
	id := c.id()
	rep.Begin("C11", id)
	uid := uniqueID("s")
	sc := &scenario{ID: uid, GenerateSelector: true, Kinds: []kindCfg{{Kind: "Widget", Method: "InPlace"}}}
	sc.Kids = []kidCfg{{Kind: "Widget", Name: "a-" + uid, Value: "v1"}, {Kind: "Widget", Name: "b-" + uid, Value: "v1"}}
	r := prepareScenario(sc)
	defer r.close()
	w := r.w
	w.caseID = id
	s := w.sim
	pgvr := sc.parentInfo().GVR()
	field, val := c11Status(c.Status)
	s.ExtMutate(pgvr, sc.ns(), sc.parentName(), func(o sim.Obj) {
		sim.SetNested(o, val, "spec", field)
		// labels/annotations/owner data the status write must never alter
		sim.SetLabels(o, map[string]string{"keep": "me"})
		sim.SetAnnotations(o, map[string]string{"note": "x"})
	})
	if err := w.start(); err != nil {
		inconclusive(t, "C11", id, err)
		return
	}
	defer w.flushCounters("C11")
	if !w.quiesce() {
		inconclusive(t, "C11", id, w.watchdog)
		return
	}
	cachedUID := sim.UID(s.Peek(pgvr, sc.ns(), sc.parentName()))
	// make the live object differ from the cached one
	switch c.Live {
	case "spec-edited":
		s.HoldWatch(pgvr, true)
		s.ExtMutate(pgvr, sc.ns(), sc.parentName(), func(o sim.Obj) { sim.SetNested(o, "edited-concurrently", "spec", "note") })
	case "recreated":
		s.HoldWatch(pgvr, true)
		old := s.Peek(pgvr, sc.ns(), sc.parentName())
		s.ExtDelete(pgvr, sc.ns(), sc.parentName(), "")
		n := sim.NewObject(sc.parentInfo(), sc.ns(), sc.parentName())
		n["spec"] = old["spec"]
		s.MustCreate(pgvr, n)
	}
	var statusWrites int32
	replace := func() {
		old := s.Peek(pgvr, sc.ns(), sc.parentName())
		s.ExtDelete(pgvr, sc.ns(), sc.parentName(), "")
		n := sim.NewObject(sc.parentInfo(), sc.ns(), sc.parentName())
		n["spec"] = old["spec"]
		s.MustCreate(pgvr, n)
	}
	if c.Live == "recreated-at-conflict" {
		s.HoldWatch(pgvr, true)
	}
	s.SetFault(func(ri *sim.ReqInfo) *sim.Fault {
		if c.ChildErr && ri.Verb == "create" && ri.GVR == sim.WidgetInfo.GVR() {
			return &sim.Fault{Code: 500}
		}
		if ri.GVR == pgvr && ri.Sub == "status" && ri.Verb == "update" {
			n := atomic.AddInt32(&statusWrites, 1)
			if n == 1 && c.Live == "recreated-at-conflict" {
				replace()
			}
			switch c.Fault {
			case "409x1":
				if n == 1 {
					return &sim.Fault{Code: 409}
				}
			case "409x6":
				if n <= 6 {
					return &sim.Fault{Code: 409}
				}
			case "404":
				return &sim.Fault{Code: 404}
			case "500":
				return &sim.Fault{Code: 500}
			}
		}
		return nil
	})
	w.q.Add(sc.parentKey())
	var sr *syncResult
	for w.q.Len() > 0 && sr == nil {
		if x := w.step(); x != nil && x.Key == sc.parentKey() {
			sr = x
		}
	}
	s.SetFault(nil)
	s.HoldWatch(pgvr, false)
	if sr == nil || len(sr.Hooks) == 0 {
		inconclusive(t, "C11", id, fmt.Errorf("parent not synced / hook not called"))
		return
	}
	viol := func(sig, detail string) {
		rep.Violation("C11", id, sig, detail, map[string]interface{}{"case": c, "requests": sim.DescribeLog(sr.Requests, false), "hooks": describeHooks(sr.Hooks), "err": fmt.Sprint(sr.Err)})
	}
	// expected status = hook status + observedGeneration of the parent that was sent to the hook
	hook := sr.Hooks[len(sr.Hooks)-1]
	sentGen, _ := sim.Nested(hook.Req, "parent", "metadata", "generation")
	expected := sim.Obj{}
	switch v := val.(type) {
	case map[string]interface{}:
		if field == "rawStatus" {
			expected = sim.DeepCopy(v)
		}
	}
	expected["observedGeneration"] = sentGen
	var statusReqs []*sim.Request
	var lastGet *sim.Request
	for i, q := range sr.Requests {
		if q.Actor != "mc" || q.GVR != pgvr || q.Name != sc.parentName() {
			continue
		}
		if q.Verb == "update" && q.Sub == "" {
			viol("parent-written-through-main-endpoint", "the parent was written through the main endpoint during a sync without finalizer work: "+q.String())
		}
		if q.Verb == "get" {
			lastGet = q
		}
		if q.Verb == "update" && q.Sub == "status" {
			statusReqs = append(statusReqs, q)
			// every attempt is built on a fresh read that directly precedes it
			if lastGet == nil {
				viol("status-write-without-fresh-read", "a status write is not preceded by a fresh GET of the parent")
			} else {
				body, _ := q.Body.(map[string]interface{})
				if rv := sim.MetaString(body, "resourceVersion"); lastGet.Pre != nil && rv != sim.MetaString(lastGet.Pre, "resourceVersion") {
					viol("status-write-on-stale-object", fmt.Sprintf("status write carries resourceVersion %s, the fresh read before it returned %s", rv, sim.MetaString(lastGet.Pre, "resourceVersion")))
				}
				if len(statusReqs) > 1 {
					// after a conflict a new GET must lie between the two attempts
					prev := statusReqs[len(statusReqs)-2]
					if lastGet.Seq < prev.Seq {
						viol("conflict-retry-without-fresh-read", "after a conflict the status write was retried without reading the parent again")
					}
				}
			}
			if q.OK() && q.Applied {
				if sim.UID(q.Pre) != cachedUID {
					viol("status-written-to-replaced-parent", fmt.Sprintf("status was written to a parent with uid %s; the sync was about uid %s", sim.UID(q.Pre), cachedUID))
				}
				if !reflect.DeepEqual(q.Post["status"], interface{}(map[string]interface{}(expected))) {
					viol("wrong-status:"+c.Status, fmt.Sprintf("stored status is %v, want hook status + observedGeneration = %v", q.Post["status"], expected))
				}
				a, b := sim.DeepCopy(q.Pre), sim.DeepCopy(q.Post)
				delete(a, "status")
				delete(b, "status")
				delete(a["metadata"].(map[string]interface{}), "resourceVersion")
				delete(b["metadata"].(map[string]interface{}), "resourceVersion")
				if !reflect.DeepEqual(a, b) {
					viol("status-write-changed-more", fmt.Sprintf("the status write changed something other than status: pre=%v post=%v", a, b))
				}
			}
		}
		_ = i
	}
	live := s.Peek(pgvr, sc.ns(), sc.parentName())
	switch {
	case c.Live == "recreated" || c.Live == "recreated-at-conflict":
		for _, q := range statusReqs {
			if q.OK() && q.Applied {
				viol("status-written-to-replaced-parent", "the parent was deleted and recreated under the same name; the new object must not receive the status")
			}
		}
		if sr.Err != nil {
			viol("replaced-parent-not-tolerated", "a parent replaced under the same name must be treated as gone, the sync returned: "+sr.Err.Error())
		}
	default:
		if len(statusReqs) == 0 {
			viol("no-status-write:childErr="+fmt.Sprint(c.ChildErr), "no status write was attempted although the status differs")
		}
		wantWritten := c.Fault == "none" || c.Fault == "409x1"
		if wantWritten {
			if !reflect.DeepEqual(live["status"], interface{}(map[string]interface{}(expected))) {
				viol("wrong-status:"+c.Status, fmt.Sprintf("after the sync the stored status is %v, want %v", live["status"], expected))
			}
		}
		if c.Live == "spec-edited" && sim.NestedString(live, "spec", "note") != "edited-concurrently" {
			viol("concurrent-spec-edit-lost", "a spec edit made after the cached observation was lost by the status write")
		}
		if sim.Labels(live)["keep"] != "me" || sim.Annotations(live)["note"] != "x" {
			viol("metadata-altered", "labels/annotations of the parent were altered")
		}
		switch c.Fault {
		case "409x1":
			if len(statusReqs) < 2 {
				viol("no-retry-after-conflict", "a 409 on the status write was not retried")
			}
		case "409x6", "404":
			if sr.Err != nil && !c.ChildErr {
				viol("tolerated-failure-reported:"+c.Fault, "conflict (retry budget exhausted) / not-found on the status write must be tolerated, the sync returned: "+sr.Err.Error())
			}
		case "500":
			if sr.Err == nil {
				viol("status-error-swallowed", "a 500 on the status write did not make the sync fail")
			}
		}
	}
	// (whether a child error must surface when the status write hits a benign race is C12's business)
	if c.ChildErr && sr.Err == nil && c.Live != "recreated" && c.Live != "recreated-at-conflict" && (c.Fault == "none" || c.Fault == "409x1") {
		viol("child-error-swallowed", "a failing child create did not make the sync fail although the status write succeeded")
	}
	// second sync: status already equal => no write at all
	if c.Fault == "none" && c.Live == "same" && !c.ChildErr {
		if !w.quiesce() {
			inconclusive(t, "C11", id, w.watchdog)
			return
		}
		for i := 0; i < 4; i++ {
			w.round()
		}
		w.q.Add(sc.parentKey())
		syncs, _ := w.round()
		for _, s2 := range syncs {
			for _, q := range s2.Requests {
				if q.Actor == "mc" && q.GVR == pgvr && q.Mutating() {
					viol("status-rewritten-when-equal", "the status is already equal but the parent was written again: "+q.String())
				}
			}
		}
	}
	rep.Case("C11", id, len(statusReqs) > 0, id, map[string]interface{}{"case": c, "statusRequests": len(statusReqs), "err": fmt.Sprint(sr.Err)})
}

// The skip-or-write decision is made against the parent as it is *now* (the fresh read), not as
// the cache remembers it: (a) someone changed or cleared the status after the cache saw it - the
// hook status is written again; (b) the cache has not yet seen metacontroller's own last write and
// the live status is already equal - nothing is written.
func TestVerif_C11_StaleStatus(t *testing.T) {
	for _, st := range []string{"empty", "nested", "own-og", "conditions"} {
		for _, mode := range []string{"live-status-tampered", "live-status-cleared", "cache-behind-own-write"} {
			st, mode := st, mode
			id := fmt.Sprintf("c11-stale-%s-%s", st, mode)
			if !sim.WantCase(id) {
				continue
			}
			t.Run(id, func(t *testing.T) {
				t.Parallel()
				runC11Stale(t, id, st, mode)
			})
		}
	}
}

func runC11Stale(t *testing.T, id, st, mode string) {
	rep := sim.R()
	rep.Begin("C11", id)
	uid := uniqueID("ss")
	sc := &scenario{ID: uid, GenerateSelector: true, Kinds: []kindCfg{{Kind: "Widget", Method: "InPlace"}}}
	sc.Kids = []kidCfg{{Kind: "Widget", Name: "a-" + uid, Value: "v1"}}
	r := prepareScenario(sc)
	defer r.close()
	w := r.w
	w.caseID = id
	s := w.sim
	pgvr := sc.parentInfo().GVR()
	field, val := c11Status(st)
	s.ExtMutate(pgvr, sc.ns(), sc.parentName(), func(o sim.Obj) { sim.SetNested(o, val, "spec", field) })
	if err := w.start(); err != nil {
		inconclusive(t, "C11", id, err)
		return
	}
	defer w.flushCounters("C11")
	syncOnce := func() *syncResult {
		if !w.quiesce() {
			return nil
		}
		w.q.Add(sc.parentKey())
		var sr *syncResult
		for w.q.Len() > 0 && sr == nil {
			if x := w.step(); x != nil && x.Key == sc.parentKey() {
				sr = x
			}
		}
		return sr
	}
	statusPuts := func(sr *syncResult) (n int) {
		for _, q := range sr.Requests {
			if q.Actor == "mc" && q.GVR == pgvr && q.Sub == "status" && q.Verb == "update" {
				n++
			}
		}
		return
	}
	expected := func(sr *syncResult) map[string]interface{} {
		hook := sr.Hooks[len(sr.Hooks)-1]
		sentGen, _ := sim.Nested(hook.Req, "parent", "metadata", "generation")
		e := sim.Obj{}
		if v, ok := val.(map[string]interface{}); ok && field == "rawStatus" {
			e = sim.DeepCopy(v)
		}
		e["observedGeneration"] = sentGen
		return e
	}
	viol := func(sig, detail string, sr *syncResult) {
		rep.Violation("C11", id, sig, detail, map[string]interface{}{"status": st, "mode": mode, "requests": sim.DescribeLog(sr.Requests, false)})
	}
	if mode == "cache-behind-own-write" {
		// let children be created first, then keep the cache from seeing what follows
		for i := 0; i < 3; i++ {
			if _, ok := w.round(); !ok {
				inconclusive(t, "C11", id, w.watchdog)
				return
			}
		}
		// change what the hook returns, so that the next sync has a status to write
		s.ExtMutate(pgvr, sc.ns(), sc.parentName(), func(o sim.Obj) { sim.SetNested(o, "x", "spec", "statusExtra", "marker") })
		if !w.quiesce() {
			inconclusive(t, "C11", id, w.watchdog)
			return
		}
		for w.q.Len() > 0 { // (the edit's own event: dropped, the syncs below are explicit)
			k, _ := w.q.Get()
			w.q.Forget(k)
			w.q.Done(k)
		}
		s.HoldWatch(pgvr, true)
		first := syncOnce()
		if first == nil || len(first.Hooks) == 0 {
			inconclusive(t, "C11", id, fmt.Errorf("no sync"))
			return
		}
		wrote := statusPuts(first)
		second := syncOnce() // the cache still shows the parent as it was before the first write
		s.HoldWatch(pgvr, false)
		if second == nil || len(second.Hooks) == 0 {
			inconclusive(t, "C11", id, fmt.Errorf("no second sync"))
			return
		}
		if n := statusPuts(second); n > 0 && wrote > 0 && reflect.DeepEqual(s.Peek(pgvr, sc.ns(), sc.parentName())["status"], interface{}(expected(second))) {
			viol("redundant-status-write:cache-behind-own-write", fmt.Sprintf("the live status already equals the hook status (written by the previous sync, not yet seen by the cache), yet %d status write(s) were sent", n), second)
		}
		rep.Case("C11", id, wrote > 0, id, map[string]interface{}{"status": st, "mode": mode, "firstSyncStatusWrites": wrote})
		return
	}
	// converge, caches in step
	for i := 0; i < 4; i++ {
		if _, ok := w.round(); !ok {
			inconclusive(t, "C11", id, w.watchdog)
			return
		}
	}
	s.HoldWatch(pgvr, true)
	cur := sim.DeepCopy(s.Peek(pgvr, sc.ns(), sc.parentName()))
	before := sim.DeepCopy(cur)
	if mode == "live-status-cleared" {
		delete(cur, "status")
	} else {
		cur["status"] = sim.Obj{"phase": "tampered-with"}
	}
	delete(cur["metadata"].(map[string]interface{}), "resourceVersion")
	if _, err := s.ExtUpdateStatus(pgvr, cur); err != nil {
		inconclusive(t, "C11", id, err)
		return
	}
	sr := syncOnce()
	s.HoldWatch(pgvr, false)
	if sr == nil || len(sr.Hooks) == 0 {
		inconclusive(t, "C11", id, fmt.Errorf("no sync"))
		return
	}
	live := s.Peek(pgvr, sc.ns(), sc.parentName())
	if want := expected(sr); !reflect.DeepEqual(live["status"], interface{}(want)) {
		viol("wrong-status:stale-cache:"+mode, fmt.Sprintf("the status was changed behind the cache (cached %v, live before the sync %v); after the sync it is %v, want the hook status %v (%d status write(s) sent)", before["status"], cur["status"], live["status"], want, statusPuts(sr)), sr)
	}
	rep.Case("C11", id, true, id, map[string]interface{}{"status": st, "mode": mode, "statusWrites": statusPuts(sr)})
}
