//go:build verif

package composite

import (
	"fmt"
	"reflect"
	"sort"
	"strconv"
	"strings"
	"sync"
	"sync/atomic"
	"testing"

	env "metacontroller/pkg/verifenv"
	sim "metacontroller/pkg/verifsim"
)

// C09 - rollout intent is persisted before acting; any crash resumes consistently.
// The order oracle (rollout.judgeSync) runs on every sync of C07/C08/C09. Here: for every rollout
// scenario an uninterrupted run fixes K = number of requests from the parent edit to completion;
// then one run per k=1..K with a crash (client stack, informers, caches, controller discarded and
// rebuilt on the same store) or a single API error after the k-th request.

type c09Case struct {
	Cfg  rolloutCfg `json:"cfg"`
	Mode string     `json:"mode"` // crash | error500 | error-after-apply | crash2
	K    int        `json:"k"`
	K2   int        `json:"k2,omitempty"`
}

func (c c09Case) id() string {
	return fmt.Sprintf("c09-%s-%s-n%d-%s-fp%v-gs%v-%s-k%d-%d", lower(c.Cfg.Kind), c.Cfg.Method, c.Cfg.N, c.Cfg.StatusCheck, c.Cfg.FieldPaths, c.Cfg.GenSel, c.Mode, c.K, c.K2)
}

func revIndex(stamp string) int {
	n, _ := strconv.Atoi(strings.TrimPrefix(stamp, "r"))
	return n
}

// checkRecord asserts the recovery invariants on the store as it is now.
// strict additionally demands that each child is named by at most one revision; that only has to
// hold once a sync has completed after recovery (an interrupted sync may leave a child named by
// the old and the new revision, which the next sync resolves: latest wins).
func (ro *rollout) checkRecord(label string, strict bool) {
	named := map[string][]string{}
	for _, r := range ro.revisions() {
		for _, c := range r.Children {
			named[c] = append(named[c], r.Rev)
		}
	}
	if strict {
		for c, revs := range named {
			if len(revs) > 1 {
				ro.viol("C09", "child-recorded-in-two-revisions", fmt.Sprintf("%s: child %s is named by %d ControllerRevisions: %v", label, c, len(revs), revs), nil, ro.snapshot())
			}
		}
	}
	for _, o := range ro.children() {
		name := sim.Name(o)
		st := ro.stamp(o, "rev")
		revs := named[name]
		if len(revs) == 0 {
			// a child no revision names must not be ahead of every record either: it can only be
			// at the oldest live revision or brand new (about to be recorded)
			continue
		}
		newest := revs[0]
		for _, rv := range revs {
			if revIndex(rv) > revIndex(newest) {
				newest = rv
			}
		}
		if revIndex(st) > revIndex(newest) {
			ro.viol("C09", "child-ahead-of-its-revision", fmt.Sprintf("%s: child %s carries rev=%s but the newest ControllerRevision that names it is %s: the child was changed before the intent was recorded", label, name, st, newest), nil, ro.snapshot())
		}
	}
}

// uninterrupted runs the scenario without faults and returns (K, final normalised store).
func c09Reference(cfg rolloutCfg) (int, map[string]interface{}, error) {
	ro := newRollout(cfg, "c09-ref")
	defer ro.close()
	ro.r.w.noMonitors = true
	if err := ro.r.w.start(); err != nil {
		return 0, nil, err
	}
	if !c09Settle(ro) {
		return 0, nil, fmt.Errorf("watchdog: %v", ro.r.w.watchdog)
	}
	base := ro.r.w.sim.OpSeq()
	ro.newRev()
	if !c09Settle(ro) {
		return 0, nil, fmt.Errorf("watchdog: %v", ro.r.w.watchdog)
	}
	if done, why := ro.complete(); !done {
		return 0, nil, fmt.Errorf("reference run did not complete: %s", why)
	}
	return int(ro.r.w.sim.OpSeq() - base), c09Normalize(ro), nil
}

func c09Normalize(ro *rollout) map[string]interface{} {
	n := ro.r.w.sim.Normalized()
	out := map[string]interface{}{}
	for k, v := range n {
		// names carry the per-run scenario id; replace it
		// names carry the per-run scenario id and, for revisions, a hash over content that contains it
		out[reHex.ReplaceAllString(strings.ReplaceAll(k, ro.sc.ID, "ID"), "HASH")] = normalizeIDs(v, ro.sc.ID)
	}
	return out
}

func normalizeIDs(v interface{}, id string) interface{} {
	switch t := v.(type) {
	case map[string]interface{}:
		o := map[string]interface{}{}
		for k, vv := range t {
			o[reHex.ReplaceAllString(strings.ReplaceAll(k, id, "ID"), "HASH")] = normalizeIDs(vv, id)
		}
		return o
	case []interface{}:
		o := make([]interface{}, len(t))
		allStrings := len(t) > 0
		for i := range t {
			o[i] = normalizeIDs(t[i], id)
			if _, ok := o[i].(string); !ok {
				allStrings = false
			}
		}
		if allStrings {
			// lists of names (ControllerRevision children, finalizers): order carries no meaning
			sort.Slice(o, func(i, j int) bool { return o[i].(string) < o[j].(string) })
		}
		return o
	case string:
		return reHex.ReplaceAllString(strings.ReplaceAll(t, id, "ID"), "HASH")
	}
	return v
}

// c09Settle runs fair rounds (sync everything queued, then make every child healthy) until the
// queue stays empty.
func c09Settle(ro *rollout) bool {
	for i := 0; i < 12*ro.cfg.N+40; i++ {
		srs, _, ok := ro.syncOnce(false)
		if !ok {
			return false
		}
		ro.healAll()
		if len(srs) == 0 {
			if !ro.r.w.quiesce() {
				return false
			}
			if ro.r.w.q.Len() == 0 {
				return true
			}
		}
	}
	return true
}

var c09refs sync.Map // cfg key -> *c09ref

type c09ref struct {
	once  sync.Once
	k     int
	final map[string]interface{}
	err   error
}

func TestVerif_C09_CrashPoints(t *testing.T) {
	var cfgs []rolloutCfg
	for _, kind := range []string{"Widget", "ConfigMap"} {
		for _, method := range []string{"RollingInPlace", "RollingRecreate"} {
			for _, gs := range []bool{false, true} {
				for _, n := range []int{1, 2, 3} {
					if !sim.Thorough() && (n == 3 || (gs && kind == "ConfigMap")) {
						continue
					}
					cfgs = append(cfgs, rolloutCfg{Kind: kind, Method: method, N: n, GenSel: gs, FieldPaths: n%2 == 0})
				}
			}
		}
	}
	var distinct int64
	seen := sync.Map{}
	for _, cfg := range cfgs {
		cfg := cfg
		k, final, err := c09Reference(cfg)
		if err != nil {
			sim.R().Inconclusive("C09", "c09-ref-"+cfg.key(), err.Error())
			continue
		}
		modes := []string{"crash", "error500", "error-after-apply", "stale-revisions"}
		for _, mode := range modes {
			for kk := 1; kk <= k+1; kk++ {
				c := c09Case{Cfg: cfg, Mode: mode, K: kk}
				if !sim.WantCase(c.id()) {
					continue
				}
				t.Run(c.id(), func(t *testing.T) {
					t.Parallel()
					if h := runC09(t, c, final); h != "" {
						if _, dup := seen.LoadOrStore(h, true); !dup {
							atomic.AddInt64(&distinct, 1)
						}
					}
				})
			}
		}
		if sim.Thorough() {
			rng := sim.Rand("C09-pairs-" + cfg.key())
			for i := 0; i < 12; i++ {
				a := 1 + rng.Intn(k)
				b := 1 + rng.Intn(k)
				c := c09Case{Cfg: cfg, Mode: "crash2", K: a, K2: b}
				t.Run(c.id(), func(t *testing.T) {
					t.Parallel()
					runC09(t, c, final)
				})
			}
		}
	}
	t.Cleanup(func() { sim.R().Counter("C09", "distinct_cut_states", atomic.LoadInt64(&distinct)) })
}

// runC09 returns a hash of the store at the (first) cut.
func runC09(t *testing.T, c c09Case, reference map[string]interface{}) string {
	rep := sim.R()
	id := c.id()
	rep.Begin("C09", id)
	ro := newRollout(c.Cfg, id)
	defer ro.close()
	w := ro.r.w
	if err := w.start(); err != nil {
		inconclusive(t, "C09", id, err)
		return ""
	}
	defer func() { w.flushCounters("C09") }()
	if !c09Settle(ro) {
		inconclusive(t, "C09", id, w.watchdog)
		return ""
	}
	s := w.sim
	cutHash := ""
	crashes := 0
	var revHeld int32
	heldSyncs := 0
	arm := func(k int) {
		base := s.OpSeq()
		fired := int32(0)
		switch c.Mode {
		case "crash", "crash2":
			s.SetGate(func(ri *sim.ReqInfo) {
				if ri.OpSeq > 0 && int(ri.OpSeq-base) > k && atomic.CompareAndSwapInt32(&fired, 0, 1) {
					s.Cut(true)
				}
			})
		case "error500":
			s.SetFault(func(ri *sim.ReqInfo) *sim.Fault {
				if ri.OpSeq > 0 && int(ri.OpSeq-base) == k && atomic.CompareAndSwapInt32(&fired, 0, 1) {
					return &sim.Fault{Code: 500}
				}
				return nil
			})
		case "stale-revisions":
			// from request k on the ControllerRevision watch delivers nothing for a few syncs: the
			// controller keeps working from a revision cache that lags its own writes
			s.SetGate(func(ri *sim.ReqInfo) {
				if ri.OpSeq > 0 && int(ri.OpSeq-base) == k && atomic.CompareAndSwapInt32(&fired, 0, 1) {
					s.HoldWatch(env.RevisionGVR, true)
					atomic.StoreInt32(&revHeld, 1)
				}
			})
		case "error-after-apply":
			s.SetFault(func(ri *sim.ReqInfo) *sim.Fault {
				if ri.OpSeq > 0 && int(ri.OpSeq-base) == k && atomic.CompareAndSwapInt32(&fired, 0, 1) {
					return &sim.Fault{Code: 504, After: true}
				}
				return nil
			})
		}
	}
	// run fair rounds; in crash modes, when the cut has fired, check the record and restart
	settleWithCrash := func() bool {
		for i := 0; i < 12*c.Cfg.N+60; i++ {
			if w.env == nil {
				return false
			}
			srs, _, ok := ro.syncOnce(false)
			if !ok {
				return false
			}
			cutFired := false
			for _, sr := range srs {
				for _, q := range sr.Requests {
					if q.Fault == "cut" {
						cutFired = true
					}
				}
			}
			if cutFired {
				crashes++
				if cutHash == "" {
					cutHash = sim.Hash(c09Normalize(ro))
				}
				ro.checkRecord(fmt.Sprintf("at the cut after request %d", c.K), false)
				if err := w.restart(); err != nil {
					w.watchdog = err
					return false
				}
				ro.checkRecord("after restart", false)
				if c.Mode == "crash2" && crashes == 1 {
					arm(c.K2)
				}
				continue
			}
			ro.healAll()
			if atomic.LoadInt32(&revHeld) == 1 {
				heldSyncs += len(srs)
				if heldSyncs >= 3 || len(srs) == 0 {
					s.HoldWatch(env.RevisionGVR, false)
					atomic.StoreInt32(&revHeld, 2)
					continue
				}
			}
			if len(srs) == 0 {
				if !w.quiesce() {
					return false
				}
				if w.q.Len() == 0 {
					return true
				}
			}
		}
		return true
	}
	arm(c.K)
	ro.newRev()
	if !settleWithCrash() {
		inconclusive(t, "C09", id, w.watchdog)
		return ""
	}
	s.SetGate(nil)
	s.SetFault(nil)
	s.HoldWatch(env.RevisionGVR, false)
	if c.Mode != "crash" && c.Mode != "crash2" {
		cutHash = sim.Hash([]interface{}{c.Mode, c.K, c.Cfg.key()})
	}
	ro.checkRecord("at the end", true)
	done, why := ro.complete()
	if !done {
		ro.viol("C09", "no-recovery:"+c.Mode, fmt.Sprintf("after a %s following request %d the rollout did not reach completion: %s", c.Mode, c.K, why), nil, ro.snapshot())
	} else if final := c09Normalize(ro); !reflect.DeepEqual(final, reference) {
		diff := diffMaps(reference, final)
		ro.viol("C09", "final-state-differs:"+c.Mode, fmt.Sprintf("after a %s following request %d the final store differs from the uninterrupted run:\n%s", c.Mode, c.K, diff), nil, ro.snapshot())
	}
	rep.Counter("C09", "syncs_judged", int64(ro.syncs))
	rep.Case("C09", id, crashes > 0 || c.Mode != "crash", c.Cfg.key()+"/"+c.Mode+"/"+cutHash, map[string]interface{}{"case": c, "crashes": crashes, "completed": done})
	return cutHash
}

func diffMaps(a, b map[string]interface{}) string {
	var out []string
	for k, v := range a {
		w, ok := b[k]
		if !ok {
			out = append(out, "missing: "+k)
		} else if !reflect.DeepEqual(v, w) {
			out = append(out, fmt.Sprintf("differs: %s\n   reference: %v\n   this run:  %v", k, v, w))
		}
	}
	for k := range b {
		if _, ok := a[k]; !ok {
			out = append(out, "extra: "+k)
		}
	}
	return strings.Join(out, "\n")
}
