//go:build verif

package composite

import (
	"fmt"
	"math/rand"
	"reflect"
	"sort"
	"strings"
	"sync"
	"sync/atomic"
	"testing"
	"time"

	metav1 "k8s.io/apimachinery/pkg/apis/meta/v1"

	"metacontroller/pkg/apis/metacontroller/v1alpha1"
	"metacontroller/pkg/controller/common"
	"metacontroller/pkg/logging"
	env "metacontroller/pkg/verifenv"
	sim "metacontroller/pkg/verifsim"
)

// C17 part 2 and 3 - concurrent syncs do not race and give the same results as sequential ones.
// Free-running mode: real workers, real informers, recording queues with logical back-off, under
// the race detector (the driver builds this step with -race and reads the race log).

type fctl struct {
	name  string
	pc    *parentController
	q     *sim.RecQueue
	cc    *v1alpha1.CompositeController
	hooks *sim.HookSite
}

type fworld struct {
	id    string
	sim   *sim.Server
	env   *env.Env
	ctls  []*fctl
	nsFor func(i int) string
}

type fcfg struct {
	Workers   int   `json:"workers"`
	Parents   int   `json:"parentsPerController"`
	Phases    int   `json:"phases"`
	Delays    bool  `json:"delays"`
	Faults    bool  `json:"faults"`
	Seed      int64 `json:"seed"`
	Customize bool  `json:"customize"`
}

func newFWorld(id string, cfg fcfg) (*fworld, error) {
	s := sim.NewCluster()
	fw := &fworld{id: id, sim: s}
	// API discovery is refreshed every 25 ms while the workers run
	e, err := env.NewWithDiscoveryInterval(s, true, 25*time.Millisecond)
	if err != nil {
		return nil, err
	}
	fw.env = e
	mk := func(name string, rolling, customize, finalize, ssa bool, childKind string) (*fctl, error) {
		h := sim.NewHookSite(s.Clock(), s.Tag)
		h.HandleJSON("sync", sim.CompositeProgram)
		h.HandleJSON("finalize", sim.CompositeProgram)
		h.HandleJSON("customize", func(req sim.Obj) sim.Obj {
			p, _ := req["parent"].(map[string]interface{})
			return sim.Obj{"relatedResources": []interface{}{
				sim.Obj{"apiVersion": "v1", "resource": "secrets", "labelSelector": sim.Obj{"matchLabels": sim.Obj{"rel": sim.Name(p)}}},
				sim.Obj{"apiVersion": "rel.dev/v1", "resource": "gadgets", "names": []interface{}{"g-" + sim.Name(p)}},
			}}
		})
		method := "InPlace"
		if rolling {
			method = "RollingInPlace"
		}
		wc := worldCfg{ID: name, Parent: sim.ThingInfo, GenerateSelector: true, FinalizeHook: finalize, CustomizeHook: customize, SSA: ssa,
			ParentSelector: &metav1.LabelSelector{MatchLabels: map[string]string{"managed-by": name}},
			Children:       []childCfg{{Info: kindInfo(childKind), Method: v1alpha1.ChildUpdateMethod(method)}}}
		if rolling {
			wc.FieldPaths = []string{"spec.template"}
		}
		cc := wc.compositeController(h)
		opts := &common.ApplyOptions{Strategy: common.ApplyStrategyDynamicApply}
		if ssa {
			opts = &common.ApplyOptions{FieldManager: "metacontroller", Strategy: common.ApplyStrategyServerSideApply}
		}
		pc, err := newParentController(e.Resources, e.DynClient, e.DynInformers, env.NopRecorder{}, e.McClient, e.RevLister, cc, cfg.Workers, opts, logging.Logger)
		if err != nil {
			return nil, err
		}
		pc.queue.ShutDown()
		q := sim.NewRecQueue()
		pc.queue = q
		return &fctl{name: name, pc: pc, q: q, cc: cc, hooks: h}, nil
	}
	a, err := mk("fa-"+id, true, cfg.Customize, true, false, "Widget")
	if err != nil {
		return nil, err
	}
	b, err := mk("fb-"+id, false, false, false, true, "ConfigMap")
	if err != nil {
		return nil, err
	}
	fw.ctls = []*fctl{a, b}
	for _, tr := range [][2]string{{"ctest.dev/v1", "things"}, {"kids.dev/v1", "widgets"}, {"v1", "configmaps"}, {"v1", "secrets"}, {"rel.dev/v1", "gadgets"}} {
		if err := e.Track(tr[0], tr[1]); err != nil {
			return nil, err
		}
	}
	return fw, nil
}

func (fw *fworld) stop() {
	for _, c := range fw.ctls {
		c.pc.Stop()
		c.hooks.Close()
	}
	fw.env.Close()
}

// quiescent: queues idle, nothing in flight, caches caught up - observed stable several times.
func (fw *fworld) waitQuiescent(max time.Duration) error {
	deadline := time.Now().Add(max)
	stable := 0
	for {
		idle := fw.sim.InFlight() == 0
		for _, c := range fw.ctls {
			if !c.q.Idle() || c.hooks.InFlight() != 0 {
				idle = false
			}
		}
		if idle {
			if err := fw.env.Quiesce(); err != nil {
				return err
			}
			idle = fw.sim.InFlight() == 0
			for _, c := range fw.ctls {
				if !c.q.Idle() || c.hooks.InFlight() != 0 {
					idle = false
				}
			}
		}
		if idle {
			stable++
			if stable >= 4 {
				return nil
			}
			time.Sleep(500 * time.Microsecond)
		} else {
			stable = 0
			time.Sleep(300 * time.Microsecond)
		}
		if time.Now().After(deadline) {
			return &env.ErrWatchdog{What: "free-running world did not go quiescent"}
		}
	}
}

func (fw *fworld) parentObj(ctl *fctl, i int, rev, extra string, nkids int, childKind string) sim.Obj {
	ns := fmt.Sprintf("ns%d-%s", i%3, fw.id)
	name := fmt.Sprintf("%s%d", ctl.name[:2], i)
	p := sim.NewObject(sim.ThingInfo, ns, name)
	sim.SetLabels(p, map[string]string{"managed-by": ctl.name})
	var kids []interface{}
	for k := 0; k < nkids; k++ {
		kids = append(kids, sim.KidSpec(kindInfo(childKind), "", fmt.Sprintf("%s-%s-k%d", strings.ToLower(childKind), name, k), "v1"))
	}
	p["spec"] = sim.Obj{"template": sim.Obj{"rev": rev}, "extra": extra, "kids": kids, "finalize": "step", "resyncAfter": float64(3600 + len(name))}
	return p
}

// runWorkload plays the phased workload and returns the normalised final store.
func runFWorkload(t *testing.T, id string, cfg fcfg) (map[string]interface{}, *fworld, error) {
	fw, err := newFWorld(id, cfg)
	if err != nil {
		return nil, nil, err
	}
	s := fw.sim
	rng := rand.New(rand.NewSource(cfg.Seed))
	kinds := []string{"Widget", "ConfigMap"}
	// related objects
	for ci, c := range fw.ctls {
		for i := 0; i < cfg.Parents; i++ {
			p := fw.parentObj(c, i, "r1", "e1", 2, kinds[ci])
			if ci == 0 {
				sec := sim.NewObject(sim.SecretInfo, sim.NS(p), "sec-"+sim.Name(p))
				sim.SetLabels(sec, map[string]string{"rel": sim.Name(p)})
				sec["data"] = sim.Obj{"n": "0"}
				s.ExtCreate(sim.SecretInfo.GVR(), sec)
			}
			s.MustCreate(sim.ThingInfo.GVR(), p)
		}
	}
	var gateN int64
	if cfg.Delays || cfg.Faults {
		drng := rand.New(rand.NewSource(cfg.Seed + 99))
		var dmu sync.Mutex
		s.SetGate(func(ri *sim.ReqInfo) {
			if !cfg.Delays {
				return
			}
			dmu.Lock()
			d := drng.Intn(40)
			dmu.Unlock()
			atomic.AddInt64(&gateN, 1)
			if d < 8 {
				time.Sleep(time.Duration(d*50) * time.Microsecond)
			}
		})
		if cfg.Faults {
			s.SetFault(func(ri *sim.ReqInfo) *sim.Fault {
				if ri.OpSeq == 0 {
					return nil
				}
				dmu.Lock()
				d := drng.Intn(100)
				dmu.Unlock()
				switch {
				case d < 2:
					return &sim.Fault{Code: 500}
				case d < 3:
					return &sim.Fault{Code: 504, After: true}
				}
				return nil
			})
		}
	}
	for _, c := range fw.ctls {
		c.pc.Start()
	}
	if err := fw.waitQuiescent(60 * time.Second); err != nil {
		return nil, fw, err
	}
	for phase := 0; phase < cfg.Phases; phase++ {
		for ci, c := range fw.ctls {
			for i := 0; i < cfg.Parents; i++ {
				ns := fmt.Sprintf("ns%d-%s", i%3, fw.id)
				name := fmt.Sprintf("%s%d", c.name[:2], i)
				switch (rng.Intn(5) + phase + i) % 5 {
				case 0: // revisioned change
					s.ExtMutate(sim.ThingInfo.GVR(), ns, name, func(o sim.Obj) { sim.SetNested(o, fmt.Sprintf("r%d", phase+2), "spec", "template", "rev") })
				case 1: // non-revisioned change
					s.ExtMutate(sim.ThingInfo.GVR(), ns, name, func(o sim.Obj) { sim.SetNested(o, fmt.Sprintf("e%d", phase+2), "spec", "extra") })
				case 2: // a child disappears
					ck := kindInfo(kinds[ci])
					s.ExtDelete(ck.GVR(), ns, fmt.Sprintf("%s-%s-k0", strings.ToLower(kinds[ci]), name), "")
				case 3: // related object changes
					if ci == 0 {
						s.ExtMutate(sim.SecretInfo.GVR(), ns, "sec-"+name, func(o sim.Obj) { sim.SetNested(o, fmt.Sprint(phase), "data", "n") })
					}
				case 4: // the set of desired children shrinks or grows (children no longer desired are deleted)
					n := 1 + (phase+i)%3
					s.ExtMutate(sim.ThingInfo.GVR(), ns, name, func(o sim.Obj) {
						var kids []interface{}
						for k := 0; k < n; k++ {
							kids = append(kids, sim.KidSpec(kindInfo(kinds[ci]), "", fmt.Sprintf("%s-%s-k%d", strings.ToLower(kinds[ci]), name, k), "v1"))
						}
						sim.SetNested(o, kids, "spec", "kids")
					})
				}
				_ = c
			}
		}
		// children become healthy so that rollouts can proceed
		for k := 0; k < 12; k++ {
			if err := fw.waitQuiescent(60 * time.Second); err != nil {
				return nil, fw, err
			}
			changed := false
			for _, o := range s.PeekAll(sim.WidgetInfo.GVR()) {
				gen, _ := sim.Nested(o, "metadata", "generation")
				og, _ := sim.Nested(o, "status", "observedGeneration")
				if !reflect.DeepEqual(gen, og) {
					o2 := sim.DeepCopy(o)
					o2["status"] = sim.Obj{"observedGeneration": gen, "ready": true}
					delete(o2["metadata"].(map[string]interface{}), "resourceVersion")
					if _, err := s.ExtUpdateStatus(sim.WidgetInfo.GVR(), o2); err == nil {
						changed = true
					}
				}
			}
			if !changed {
				break
			}
		}
	}
	s.SetFault(nil)
	s.SetGate(nil)
	// after the faults stop, give every parent one more look
	for _, c := range fw.ctls {
		for _, p := range s.PeekAll(sim.ThingInfo.GVR()) {
			if sim.Labels(p)["managed-by"] == c.name {
				c.q.Add(sim.Key(p))
			}
		}
	}
	for k := 0; k < 30; k++ {
		if err := fw.waitQuiescent(60 * time.Second); err != nil {
			return nil, fw, err
		}
		changed := false
		for _, o := range s.PeekAll(sim.WidgetInfo.GVR()) {
			gen, _ := sim.Nested(o, "metadata", "generation")
			og, _ := sim.Nested(o, "status", "observedGeneration")
			if !reflect.DeepEqual(gen, og) {
				o2 := sim.DeepCopy(o)
				o2["status"] = sim.Obj{"observedGeneration": gen, "ready": true}
				delete(o2["metadata"].(map[string]interface{}), "resourceVersion")
				if _, err := s.ExtUpdateStatus(sim.WidgetInfo.GVR(), o2); err == nil {
					changed = true
				}
			}
		}
		if !changed {
			break
		}
	}
	out := map[string]interface{}{}
	for k, v := range s.Normalized() {
		// revision names hash the parent uid and the revisioned fields only; both are the same in
		// the runs that are compared, so the names are comparable as they are
		out[strings.ReplaceAll(k, fw.id, "ID")] = normalizeIDsKeepHashes(v, fw.id)
	}
	return out, fw, nil
}

func TestVerif_C17_Concurrent(t *testing.T) {
	rep := sim.R()
	runs := sim.Pick(4, 24)
	rng := sim.Rand("C17")
	for i := 0; i < runs; i++ {
		id := fmt.Sprintf("c17-run%d", i)
		if !sim.WantCase(id) {
			continue
		}
		rep.Begin("C17", id)
		seed := rng.Int63()
		base := fcfg{Parents: 4 + rng.Intn(6), Phases: 2 + rng.Intn(2), Seed: seed, Customize: true}
		seqCfg := base
		seqCfg.Workers = 1
		concCfg := base
		concCfg.Workers = 4 + rng.Intn(5)
		concCfg.Delays = true
		// sequential reference (one worker, no delays)
		ref, fw1, err := runFWorkload(t, uniqueID("s"), seqCfg)
		if fw1 != nil {
			fw1.stop()
		}
		if err != nil {
			rep.Inconclusive("C17", id, "sequential run: "+err.Error())
			continue
		}
		got, fw2, err := runFWorkload(t, uniqueID("c"), concCfg)
		var syncs int64
		if fw2 != nil {
			for _, c := range fw2.ctls {
				for _, op := range c.q.Since(0) {
					if op.Op == "Get" {
						syncs++
					}
				}
			}
			fw2.stop()
		}
		if err != nil {
			rep.Inconclusive("C17", id, "concurrent run: "+err.Error())
			continue
		}
		if !reflect.DeepEqual(ref, got) {
			rep.Violation("C17", id, "concurrent-result-differs-from-sequential", "running the syncs with several workers produced a different final store than running them one after another:\n"+diffMaps(ref, got), map[string]interface{}{"cfg": concCfg})
		}
		// a third run with injected faults shakes the schedules further; only races / panics matter there
		faultCfg := concCfg
		faultCfg.Faults = true
		_, fw3, err := runFWorkload(t, uniqueID("f"), faultCfg)
		if fw3 != nil {
			fw3.stop()
		}
		if err != nil {
			rep.Inconclusive("C17", id, "faulted run: "+err.Error())
			continue
		}
		rep.Counter("C17", "concurrent_syncs", syncs)
		rep.Case("C17", id, syncs > 0, fmt.Sprintf("concurrent/seed%d/w%d/p%d", seed, concCfg.Workers, concCfg.Parents), map[string]interface{}{"cfg": concCfg, "syncsInConcurrentRun": syncs, "finalObjects": len(got)})
	}
}

func normalizeIDsKeepHashes(v interface{}, id string) interface{} {
	switch t := v.(type) {
	case map[string]interface{}:
		o := map[string]interface{}{}
		for k, vv := range t {
			o[strings.ReplaceAll(k, id, "ID")] = normalizeIDsKeepHashes(vv, id)
		}
		return o
	case []interface{}:
		o := make([]interface{}, len(t))
		allStrings := len(t) > 0
		for i := range t {
			o[i] = normalizeIDsKeepHashes(t[i], id)
			if _, ok := o[i].(string); !ok {
				allStrings = false
			}
		}
		if allStrings {
			sort.Slice(o, func(i, j int) bool { return o[i].(string) < o[j].(string) })
		}
		return o
	case string:
		return strings.ReplaceAll(t, id, "ID")
	}
	return v
}
