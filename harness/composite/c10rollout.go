//go:build verif

package composite

import (
	"encoding/json"
	"fmt"
	"testing"

	sim "metacontroller/pkg/verifsim"
)

// C10 while a rolling update is in progress: the finalize hook is called once per parent revision
// and the answers may disagree (the decision depends on a revisioned field). The finalizer may be
// removed only in a sync whose finalize answers ALL said finalized: true - whichever revision says
// what, and whichever of them also asks for a resync.

type c10RolloutCfg struct {
	Kids       int    `json:"kids"`
	OldAnswer  string `json:"oldRevisionFinalize"`    // hold (finalized:false, children kept) | keep (finalized:true, children kept)
	NewAnswer  string `json:"latestRevisionFinalize"` // same
	OldResync  bool   `json:"oldRevisionAsksResync"`
	NewResync  bool   `json:"latestRevisionAsksResync"`
	Trigger    string `json:"trigger"` // delete | unmatch
	Recreating bool   `json:"rollingRecreate"`
}

func (c c10RolloutCfg) id() string {
	return fmt.Sprintf("c10-rollout-n%d-old_%s-new_%s-ro%v-rn%v-%s-rc%v", c.Kids, c.OldAnswer, c.NewAnswer, c.OldResync, c.NewResync, c.Trigger, c.Recreating)
}

func TestVerif_C10_RolloutDisagree(t *testing.T) {
	for _, kids := range []int{2, 3} {
		for _, oa := range []string{"hold", "keep"} {
			for _, na := range []string{"hold", "keep"} {
				for _, ro := range []bool{false, true} {
					for _, rn := range []bool{false, true} {
						for _, trig := range []string{"delete", "unmatch"} {
							for _, rc := range []bool{false, true} {
								if !sim.Thorough() && ((kids == 3) != (trig == "unmatch") || rc && ro != rn) {
									continue
								}
								c := c10RolloutCfg{Kids: kids, OldAnswer: oa, NewAnswer: na, OldResync: ro, NewResync: rn, Trigger: trig, Recreating: rc}
								if !sim.WantCase(c.id()) {
									continue
								}
								t.Run(c.id(), func(t *testing.T) {
									t.Parallel()
									runC10Rollout(t, c)
								})
							}
						}
					}
				}
			}
		}
	}
}

func runC10Rollout(t *testing.T, c c10RolloutCfg) {
	rep := sim.R()
	id := c.id()
	rep.Begin("C10", id)
	uid := uniqueID("fr")
	method := "RollingInPlace"
	if c.Recreating {
		method = "RollingRecreate"
	}
	sc := &scenario{ID: uid, Finalize: true, ParentSelector: true, FieldPaths: []string{"spec.template"},
		Kinds: []kindCfg{{Kind: "Widget", Method: method, StatusCheck: "type+status"}}}
	for i := 0; i < c.Kids; i++ {
		sc.Kids = append(sc.Kids, kidCfg{Kind: "Widget", Name: fmt.Sprintf("k%d-%s", i, uid), Value: "v1"})
	}
	r := prepareScenario(sc)
	defer r.close()
	w := r.w
	w.caseID = id
	s := w.sim
	pgvr := sc.parentInfo().GVR()
	finName := "metacontroller.io/compositecontroller-" + uid
	setTemplate := func(rev, fin string, resync bool) {
		s.ExtMutate(pgvr, sc.ns(), sc.parentName(), func(o sim.Obj) {
			sim.SetNested(o, rev, "spec", "template", "rev")
			sim.SetNested(o, fin, "spec", "template", "finalize")
			tmpl, _ := sim.Nested(o, "spec", "template")
			if resync {
				sim.SetNested(o, int64(77), "spec", "template", "resyncAfter")
			} else {
				delete(tmpl.(map[string]interface{}), "resyncAfter")
			}
			delete(o["spec"].(map[string]interface{}), "resyncAfter")
		})
	}
	setTemplate("r1", c.OldAnswer, c.OldResync)
	if err := w.start(); err != nil {
		inconclusive(t, "C10", id, err)
		return
	}
	defer w.flushCounters("C10")
	parentUID := sim.UID(r.parent)
	heal := func() {
		for _, o := range s.PeekAll(sim.WidgetInfo.GVR()) {
			if cr := sim.ControllerOf(o); cr == nil || cr.UID != parentUID {
				continue
			}
			o2 := sim.DeepCopy(o)
			gen, _ := sim.Nested(o, "metadata", "generation")
			o2["status"] = sim.Obj{"observedGeneration": gen, "conditions": []interface{}{sim.Obj{"type": "Ready", "status": "True", "reason": "Ok"}}}
			delete(o2["metadata"].(map[string]interface{}), "resourceVersion")
			s.ExtUpdateStatus(sim.WidgetInfo.GVR(), o2)
		}
	}
	viol := func(sig, detail string, sr *syncResult) {
		wit := map[string]interface{}{"cfg": c}
		if sr != nil {
			wit["requests"] = sim.DescribeLog(sr.Requests, false)
			wit["hooks"] = describeHooks(sr.Hooks)
		}
		rep.Violation("C10", id, sig, detail, wit)
	}
	judged, removals, maxFinalizeCalls := 0, 0, 0
	judge := func(sr *syncResult) {
		judged++
		finalizeCalls, all := 0, true
		for _, h := range sr.Hooks {
			if h.Path != "finalize" {
				continue
			}
			finalizeCalls++
			var resp sim.Obj
			if h.Status != 200 || json.Unmarshal(h.RespRaw, &resp) != nil {
				all = false
				continue
			}
			if f, _ := resp["finalized"].(bool); !f {
				all = false
			}
		}
		if finalizeCalls > maxFinalizeCalls {
			maxFinalizeCalls = finalizeCalls
		}
		for _, q := range sr.Requests {
			if q.Actor != "mc" || q.GVR != pgvr || q.Name != sc.parentName() || q.Verb != "update" || q.Sub != "" || !q.OK() || !q.Applied {
				continue
			}
			body, _ := q.Body.(map[string]interface{})
			if q.Pre != nil && sim.HasFinalizer(q.Pre, finName) && (body == nil || !sim.HasFinalizer(body, finName)) {
				removals++
				if finalizeCalls == 0 || !all {
					viol("finalizer-removed-without-finalized", fmt.Sprintf("the finalizer was removed in a sync with %d finalize calls whose answers did not all say finalized: true", finalizeCalls), sr)
				}
			}
		}
	}
	rounds := func(n int, healing bool) bool {
		for i := 0; i < n; i++ {
			syncs, ok := w.round()
			if !ok {
				return false
			}
			for _, sr := range syncs {
				if sr.Cached != nil && string(sr.Cached.GetUID()) == parentUID {
					judge(sr)
				}
			}
			if healing {
				heal()
			}
			if len(syncs) == 0 {
				if !w.quiesce() {
					return false
				}
				if w.q.Len() == 0 {
					break
				}
			}
		}
		return true
	}
	if !rounds(2*c.Kids+6, true) {
		inconclusive(t, "C10", id, w.watchdog)
		return
	}
	// a new revision; the first child moves and is never reported healthy, so the rollout waits
	setTemplate("r2", c.NewAnswer, c.NewResync)
	if !rounds(4, false) {
		inconclusive(t, "C10", id, w.watchdog)
		return
	}
	revs := 0
	for _, o := range s.PeekAll(sim.RevisionInfo.GVR()) {
		if cr := sim.ControllerOf(o); cr != nil && cr.UID == parentUID {
			revs++
		}
	}
	if c.Trigger == "delete" {
		s.ExtDelete(pgvr, sc.ns(), sc.parentName(), "")
	} else {
		s.ExtMutate(pgvr, sc.ns(), sc.parentName(), func(o sim.Obj) { sim.SetLabels(o, map[string]string{"managed-by": "nobody"}) })
	}
	for i := 0; i < 4; i++ {
		if !rounds(3, false) {
			inconclusive(t, "C10", id, w.watchdog)
			return
		}
		if cur := s.Peek(pgvr, sc.ns(), sc.parentName()); cur == nil || sim.UID(cur) != parentUID || !sim.HasFinalizer(cur, finName) {
			break
		}
		w.q.Add(sc.parentKey())
	}
	rep.Counter("C10", "syncs_judged", int64(judged))
	rep.Counter("C10", "finalizer_removals", int64(removals))
	rep.Case("C10", id, revs >= 2 && maxFinalizeCalls >= 2, id, map[string]interface{}{"cfg": c, "revisionsWhenFinalizationBegan": revs, "finalizeCallsInOneSync": maxFinalizeCalls, "finalizerRemovals": removals, "syncs": judged})
}

// A leftover finalizer on a parent that has meanwhile gone (or been replaced under the same name)
// behind the cache: the removal finds nothing to update. Whatever the sync answers, the shared
// cache is left as the API server delivered it (judged by the always-on cache monitor, C17) and
// nothing is written to a same-named successor.
func TestVerif_C10_LeftoverFinalizerParentGone(t *testing.T) {
	for _, how := range []string{"gone", "replaced"} {
		for _, cluster := range []bool{false, true} {
			how, cluster := how, cluster
			id := fmt.Sprintf("c10-leftover-finalizer-parent-%s-cl%v", how, cluster)
			if !sim.WantCase(id) {
				continue
			}
			t.Run(id, func(t *testing.T) {
				t.Parallel()
				rep := sim.R()
				rep.Begin("C10", id)
				uid := uniqueID("lg")
				sc := &scenario{ID: uid, ClusterParent: cluster, Finalize: false, Kinds: []kindCfg{{Kind: "Widget", Method: "InPlace"}}}
				sc.Kids = []kidCfg{{Kind: "Widget", Name: "k-" + uid, Value: "v1"}}
				r := prepareScenario(sc)
				defer r.close()
				w := r.w
				w.caseID = id
				s := w.sim
				pgvr := sc.parentInfo().GVR()
				finName := "metacontroller.io/compositecontroller-" + uid
				s.ExtMutate(pgvr, sc.ns(), sc.parentName(), func(o sim.Obj) {
					sim.SetNested(o, []interface{}{"example.com/other", finName}, "metadata", "finalizers")
				})
				if err := w.start(); err != nil {
					inconclusive(t, "C10", id, err)
					return
				}
				defer w.flushCounters("C10")
				if !w.quiesce() {
					inconclusive(t, "C10", id, w.watchdog)
					return
				}
				for w.q.Len() > 0 {
					k, _ := w.q.Get()
					w.q.Forget(k)
					w.q.Done(k)
				}
				// behind the cache the parent goes away
				s.HoldWatch(pgvr, true)
				old := s.Peek(pgvr, sc.ns(), sc.parentName())
				s.ExtMutate(pgvr, sc.ns(), sc.parentName(), func(o sim.Obj) { delete(o["metadata"].(map[string]interface{}), "finalizers") })
				s.ExtDelete(pgvr, sc.ns(), sc.parentName(), "")
				var successor sim.Obj
				if how == "replaced" {
					n := sim.NewObject(sc.parentInfo(), sc.ns(), sc.parentName())
					n["spec"] = sim.DeepCopy(old)["spec"]
					sim.SetLabels(n, sim.Labels(old))
					successor = s.MustCreate(pgvr, n)
				}
				w.noViewMonitor = true
				w.q.Add(sc.parentKey())
				var sr *syncResult
				for w.q.Len() > 0 && sr == nil {
					if x := w.step(); x != nil && x.Key == sc.parentKey() {
						sr = x
					}
				}
				s.HoldWatch(pgvr, false)
				writes := 0
				if sr != nil {
					for _, q := range sr.Requests {
						if q.Actor == "mc" && q.Mutating() && q.OK() && q.Applied {
							writes++
							if successor != nil && q.GVR == pgvr && q.Pre != nil && sim.UID(q.Pre) == sim.UID(successor) {
								rep.Violation("C10", id, "write-to-successor-of-gone-parent", "the sync of the parent that has gone wrote to the same-named object that replaced it: "+q.String(), map[string]interface{}{"requests": sim.DescribeLog(sr.Requests, false)})
							}
						}
					}
				}
				rep.Case("C10", id, sr != nil, id, map[string]interface{}{"how": how, "clusterParent": cluster, "acceptedWrites": writes, "err": fmt.Sprint(sr != nil && sr.Err != nil)})
			})
		}
	}
}
