//go:build verif

package composite

import (
	"encoding/json"
	"fmt"
	"reflect"
	"regexp"
	"sort"
	"strings"
	"testing"

	env "metacontroller/pkg/verifenv"
	sim "metacontroller/pkg/verifsim"
)

func jsonMarshal(v interface{}) ([]byte, error) { return json.Marshal(v) }

// C01 - convergence, then quiet.

func TestVerif_C01_Converge(t *testing.T) {
	n := sim.Pick(250, 5000)
	rng := sim.Rand("C01")
	for i := 0; i < n; i++ {
		id := fmt.Sprintf("c01x%d", i)
		sc := genScenario(rng, id)
		if !sim.WantCase(id) {
			continue
		}
		t.Run(id, func(t *testing.T) {
			t.Parallel()
			runC01(t, sc)
		})
	}
}

func runC01(t *testing.T, sc *scenario) {
	rep := sim.R()
	rep.Begin("C01", sc.ID)
	r, err := startScenario(sc)
	if err != nil {
		inconclusive(t, "C01", sc.ID, fmt.Errorf("start: %v", err))
		return
	}
	defer r.close()
	defer r.w.flushCounters("C01")
	viol := func(sig, detail string) {
		rep.Violation("C01", sc.ID, sig, detail, map[string]interface{}{"scenario": sc, "log": lastSyncLogs(r.syncs, 6), "parentStatus": r.liveParent()["status"], "revisions": r.w.sim.PeekAll(env.RevisionGVR)})
	}
	phases := 1 + len(sc.Edits)
	nontrivial := false
	for phase := 0; phase < phases; phase++ {
		if phase > 0 {
			if !r.applyEdit(sc.Edits[phase-1]) {
				continue
			}
		}
		rounds, converged, ok := r.converge()
		if !ok {
			inconclusive(t, "C01", sc.ID, r.w.watchdog)
			return
		}
		if !converged {
			viol("no-convergence:"+r.stuckCause(), fmt.Sprintf("phase %d: no quiescent state after %d rounds of syncs (bound %d); metacontroller keeps issuing requests or keeps failing", phase, rounds, r.roundBound()))
			return
		}
		if len(r.syncs) > 0 {
			nontrivial = true
		}
		r.checkFixedPoint(phase, viol)
		// "From that state on a further sync changes nothing ... and sends no create, update,
		// patch or delete for any child": two more syncs.
		for extra := 0; extra < 2; extra++ {
			rvBefore := r.w.sim.RV()
			syncs, ok := r.forceSync()
			if !ok {
				inconclusive(t, "C01", sc.ID, r.w.watchdog)
				return
			}
			for _, s := range syncs {
				// "sends no create, update, patch or delete for any child": requests on the child
				// resources count whether or not the server accepted or applied them; writes to the
				// parent or to ControllerRevisions only count if they change the store (checked
				// through the resourceVersion counter below)
				var muts []*sim.Request
				for _, q := range s.mcMutations() {
					if q.GVR != sc.parentInfo().GVR() && q.GVR != env.RevisionGVR {
						muts = append(muts, q)
					}
				}
				if len(muts) > 0 {
					viol("hot-loop:"+muts[0].Verb+":"+muts[0].GVR.Resource+":"+sc.applyClass(), fmt.Sprintf("phase %d: a further sync at the fixed point still sends mutating requests for children:\n%s", phase, sim.Join(sim.DescribeLog(s.Requests, true))))
				}
			}
			if rv := r.w.sim.RV(); rv != rvBefore {
				viol("hot-loop:store-changed:"+sc.applyClass(), fmt.Sprintf("phase %d: a further sync at the fixed point changed the API server (resourceVersion %d -> %d)", phase, rvBefore, rv))
			}
		}
	}
	rep.Case("C01", sc.ID, nontrivial, sc.shapeKey(), map[string]interface{}{"scenario": sc, "syncs": len(r.syncs)})
}

func (sc *scenario) applyClass() string {
	if sc.SSA {
		return "ssa"
	}
	return "dynamic"
}

func (sc *scenario) convergenceClass() string {
	rolling := false
	for _, k := range sc.Kinds {
		if methodRolling(k.Method) {
			rolling = true
		}
	}
	c := sc.applyClass()
	if rolling {
		c += ":rolling"
	}
	if sc.ClusterParent {
		c += ":cluster-parent"
	} else {
		c += ":namespaced-parent"
	}
	return c
}

var (
	reHex    = regexp.MustCompile(`[0-9a-f]{16,}`)
	reQuoted = regexp.MustCompile(`"[^"]*"`)
	reNum    = regexp.MustCompile(`[0-9]+`)
)

// normalizeErr strips names, hashes and numbers from an error text so that it identifies the call
// site / cause rather than the instance.
func normalizeErr(id, msg string) string {
	msg = strings.ReplaceAll(msg, id, "ID")
	msg = reHex.ReplaceAllString(msg, "HASH")
	msg = reQuoted.ReplaceAllString(msg, "Q")
	msg = reNum.ReplaceAllString(msg, "N")
	if len(msg) > 220 {
		msg = msg[:220]
	}
	return msg
}

// stuckCause classifies a scenario that did not reach a quiescent state: by the error the last
// syncs keep returning, or by the request they keep repeating.
func (r *scenarioRun) stuckCause() string {
	if len(r.syncs) == 0 {
		return "no-syncs"
	}
	last := r.syncs[len(r.syncs)-1]
	if last.Err != nil {
		return "error:" + normalizeErr(r.sc.ID, last.Err.Error()) + r.revisionCollision(last.Err.Error())
	}
	for _, q := range last.Requests {
		if q.Actor == "mc" && q.Mutating() {
			return fmt.Sprintf("repeats:%s:%s:%d:%s", q.Verb, q.GVR.Resource, q.Code, r.sc.applyClass())
		}
	}
	return "requeues-without-requests:" + r.sc.applyClass()
}

// revisionCollision: when a sync fails because the ControllerRevision it wants to create already
// exists, tell whose revision occupies the name (the failing input, not just the message).
func (r *scenarioRun) revisionCollision(msg string) string {
	const pre = "can't create ControllerRevision "
	i := strings.Index(msg, pre)
	if i < 0 || !strings.Contains(msg, "already exists") {
		return ""
	}
	name := msg[i+len(pre):]
	if j := strings.Index(name, " "); j > 0 {
		name = name[:j]
	}
	p := r.liveParent()
	for _, o := range r.w.sim.PeekAll(sim.RevisionInfo.GVR()) {
		if sim.Name(o) != name || (p != nil && sim.NS(o) != sim.NS(p)) {
			continue
		}
		c := sim.ControllerOf(o)
		switch {
		case c != nil && p != nil && c.UID == sim.UID(p):
			return ":occupied-by-own-unclaimed-revision"
		case c != nil:
			return ":occupied-by-revision-of-another-owner"
		}
		for k, v := range r.matchingLabels() {
			if sim.Labels(o)[k] != v {
				return ":occupied-by-orphan-revision-that-fails-the-selector"
			}
		}
		return ":occupied-by-orphan-revision"
	}
	return ":occupied-by-nothing"
}

// rolloutClass tells, for a kind whose field was not applied, whether a rolling update is simply
// stuck, and on what (the Updated condition metacontroller itself reports).
func (r *scenarioRun) rolloutClass(kind string) string {
	if !methodRolling(r.sc.method(kind)) {
		return kind
	}
	p := r.liveParent()
	conds, _ := sim.Nested(p, "status", "conditions")
	cl, _ := conds.([]interface{})
	for _, c := range cl {
		cm, _ := c.(map[string]interface{})
		if t, _ := cm["type"].(string); t == "Updated" {
			reason, _ := cm["reason"].(string)
			msg, _ := cm["message"].(string)
			return "rolling:" + reason + ":" + normalizeErr(r.sc.ID, msg)
		}
	}
	return "rolling:no-condition"
}

func lastSyncLogs(syncs []*syncResult, n int) []interface{} {
	if len(syncs) > n {
		syncs = syncs[len(syncs)-n:]
	}
	var out []interface{}
	for _, s := range syncs {
		e := ""
		if s.Err != nil {
			e = s.Err.Error()
		}
		out = append(out, map[string]interface{}{"sync": s.Tag, "err": e, "requests": sim.DescribeLog(s.Requests, false), "hooks": describeHooks(s.Hooks)})
	}
	return out
}

// checkFixedPoint evaluates the hook program on the final state, outside metacontroller, and
// compares: owned children == desired children; specified leaves have the specified values for
// kinds whose strategy permits updates.
func (r *scenarioRun) checkFixedPoint(phase int, viol func(sig, detail string)) {
	sc := r.sc
	parent := r.liveParent()
	if parent == nil {
		return
	}
	req := sim.Obj{"parent": parent, "children": r.hookView(), "finalizing": false}
	resp := sim.CompositeProgram(req)
	desired := map[string]sim.Obj{} // kind|key -> desired object
	for _, c := range resp["children"].([]interface{}) {
		co := c.(map[string]interface{})
		kind := co["kind"].(string)
		ri := kindInfo(kind)
		ns := sim.NS(co)
		if ri.Namespaced && ns == "" {
			ns = sc.ns()
		}
		key := sim.Name(co)
		if ns != "" {
			key = ns + "/" + key
		}
		desired[kind+"|"+key] = co
	}
	owned := r.ownedChildren()
	have := map[string]sim.Obj{}
	for kind, objs := range owned {
		for key, o := range objs {
			have[kind+"|"+key] = o
		}
	}
	var missing, extra []string
	for k := range desired {
		if have[k] == nil {
			missing = append(missing, k)
		}
	}
	for k := range have {
		if desired[k] == nil {
			extra = append(extra, k)
		}
	}
	sort.Strings(missing)
	sort.Strings(extra)
	if len(missing) > 0 || len(extra) > 0 {
		viol("owned-set-differs:"+sc.applyClass(), fmt.Sprintf("phase %d: at the fixed point the children the parent owns are not the hook's desired children: missing=%v extra=%v", phase, missing, extra))
		return
	}
	for k, d := range desired {
		kind := d["kind"].(string)
		if !sc.SSA && !methodUpdates(sc.method(kind)) {
			continue
		}
		stored := have[k]
		for path, want := range sim.SpecifiedLeaves(d) {
			got, ok := sim.LeafValue(stored, path)
			if !ok || !reflect.DeepEqual(got, want) {
				viol("field-not-applied:"+sc.applyClass()+":"+r.rolloutClass(kind), fmt.Sprintf("phase %d: at the fixed point %s field %s is %v (present=%v), the hook specified %v (update method %q)", phase, k, path, got, ok, want, sc.method(kind)))
				return
			}
		}
	}
}
