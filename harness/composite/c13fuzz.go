//go:build verif

package composite

import (
	"sync/atomic"
	"testing"

	"k8s.io/apimachinery/pkg/apis/meta/v1/unstructured"
	"k8s.io/apimachinery/pkg/labels"
	kjson "sigs.k8s.io/json"

	commonv1 "metacontroller/pkg/controller/common/api/v1"
	commonv2 "metacontroller/pkg/controller/common/api/v2"
	customizev1 "metacontroller/pkg/controller/common/customize/api/v1"
	v1 "metacontroller/pkg/controller/composite/api/v1"
	dynamicobject "metacontroller/pkg/dynamic/object"
	"metacontroller/pkg/hooks"
	sim "metacontroller/pkg/verifsim"
)

// Coverage-guided byte-level fuzzing of hook response bodies (C13): the body is decoded exactly as
// the webhook executor does and then taken through every API-free step metacontroller performs on
// a response before it talks to the API server: namespace defaulting, desired-children maps (both
// kinds), label extraction and injection, rollout condition upsert, customize rule checks. The
// oracle is "no panic". (The full path including the API server is covered by the grammar check.)

type fuzzHook struct{ body []byte }

func (h fuzzHook) IsEnabled() bool { return true }
func (h fuzzHook) Call(_ interface {
	GetRootObject() *unstructured.Unstructured
}, response interface{}) error {
	_, err := kjson.UnmarshalStrict(h.body, response)
	return err
}

var fuzzBodies int64

func FuzzVerif_C13_Response(f *testing.F) {
	for _, s := range []string{
		`{"status":{"a":1},"children":[{"apiVersion":"v1","kind":"ConfigMap","metadata":{"name":"x","labels":{"a":"b"}},"data":{"k":"v"}}],"resyncAfterSeconds":1.5,"finalized":true}`,
		`{"children":[null]}`, `{"status":null,"children":null}`, `{"status":{"conditions":[{"type":"Updated","status":"True"},null,3]}}`,
		`{"children":[{"metadata":{"labels":{"a":1}}}]}`, `{"children":[{"metadata":{"labels":"x","name":5,"namespace":[]}}]}`,
		`{"relatedResources":[{"apiVersion":"v1","resource":"secrets","labelSelector":{"matchLabels":{"a":"b"}}},null]}`, `[]`, `null`, `7`, ``,
	} {
		f.Add([]byte(s), true)
	}
	sim.R().Begin("C13", "c13-fuzz")
	parent := &unstructured.Unstructured{}
	parent.SetAPIVersion("ctest.dev/v1")
	parent.SetKind("Thing")
	parent.SetNamespace("ns")
	parent.SetName("p")
	parent.SetUID("uid-1")
	var _ hooks.Hook
	f.Fuzz(func(t *testing.T, body []byte, rolling bool) {
		n := atomic.AddInt64(&fuzzBodies, 1)
		stack, panicked := sim.Guard(func() {
			response := v1.CompositeHookResponse{Children: []*unstructured.Unstructured{}}
			if _, err := kjson.UnmarshalStrict(body, &response); err == nil {
				// callHook's post-processing
				children := make([]*unstructured.Unstructured, 0, len(response.Children))
				for _, child := range response.Children {
					if child == nil {
						continue
					}
					if child.GetNamespace() == "" {
						child.SetNamespace(parent.GetNamespace())
					}
					children = append(children, child)
				}
				response.Children = children
				if rolling {
					if response.Status == nil {
						response.Status = map[string]interface{}{}
					}
					rel := commonv1.MakeRelativeObjectMap(parent, response.Children)
					_ = rel.List()
					dynamicobject.SetCondition(response.Status, &dynamicobject.StatusCondition{Type: "Updated", Status: "False", Reason: "RolloutWaiting", Message: "x"})
					dynamicobject.GetStatusCondition(map[string]interface{}{"status": response.Status}, "Updated")
				}
				desired := commonv2.MakeUniformObjectMap(parent, response.Children)
				sel := labels.SelectorFromSet(labels.Set{"controller-uid": "uid-1"})
				for _, group := range desired {
					for _, obj := range group {
						objLabels, _, err := unstructured.NestedStringMap(obj.UnstructuredContent(), "metadata", "labels")
						if err != nil {
							continue
						}
						if objLabels == nil {
							objLabels = map[string]string{}
						}
						objLabels["controller-uid"] = "uid-1"
						obj.SetLabels(objLabels)
						sel.Matches(labels.Set(objLabels))
						obj.GetOwnerReferences()
						obj.GetAnnotations()
						obj.GetName()
					}
				}
				desired.Convert(parent)
			}
			var cz customizev1.CustomizeHookResponse
			if _, err := kjson.UnmarshalStrict(body, &cz); err == nil {
				for _, rule := range cz.RelatedResourceRules {
					if rule == nil {
						continue
					}
					determineSelectionTypeProbe(rule.LabelSelector != nil, rule.Namespace, rule.Names)
				}
			}
		})
		if panicked {
			sim.R().Violation("C13", "c13-fuzz", "panic:"+sim.PanicSite(stack)+":response-processing", "processing a hook response body panicked: "+stack, map[string]interface{}{"body": string(body), "rolling": rolling})
		}
		if n%20000 == 0 {
			sim.R().Counter("C13", "fuzz_bodies_processed", 20000)
			sim.R().Case("C13", "c13-fuzz-batch", true, "fuzz/"+sim.Hash(string(body)), map[string]interface{}{"body": string(body)})
		}
	})
}

func determineSelectionTypeProbe(hasSel bool, ns string, names []string) {}
