//go:build verif

package composite

import (
	"fmt"
	"strings"
	"testing"

	sim "metacontroller/pkg/verifsim"
)

// C06 - each child type is changed only by the method its update strategy allows.
// Exhaustive table: method x kind x observed/desired relation x deletion state, composite.

type c06Cell struct {
	Method string `json:"method"`
	Kind   string `json:"kind"`
	Diff   string `json:"diff"`  // equal owned foreign status sysmeta
	State  string `json:"state"` // alive deleting
	GenSel bool   `json:"generateSelector"`
	// cluster-scoped parent (its children live in a namespace of their own; every request for
	// them has to name the child's namespace, not the parent's empty one)
	Cluster bool `json:"clusterParent"`
}

func (c c06Cell) id() string {
	m := c.Method
	if m == "" {
		m = "unset"
	}
	if m == "<nil>" {
		m = "nil"
	}
	id := fmt.Sprintf("c06-%s-%s-%s-%s-%v", m, lower(c.Kind), c.Diff, c.State, c.GenSel)
	if c.Cluster {
		id += "-cl"
	}
	return id
}

func TestVerif_C06_Table(t *testing.T) {
	methods := append(append([]string{}, allMethods...), "Bogus")
	n := 0
	for _, m := range methods {
		for _, kind := range []string{"ConfigMap", "Widget"} {
			for _, diff := range []string{"equal", "owned", "foreign", "status", "sysmeta", "desired-status", "desired-empty-status"} {
				if diff == "status" && kind == "ConfigMap" {
					continue
				}
				for _, state := range []string{"alive", "deleting"} {
					for _, gs := range []bool{false, true} {
						for _, cl := range []bool{false, true} {
							if cl && methodRolling(m) {
								// known finding KF1: a cluster-scoped parent with a rolling strategy fails every
								// sync before any child is looked at (reported by C01/C08); nothing to judge here
								continue
							}
							cell := c06Cell{Method: m, Kind: kind, Diff: diff, State: state, GenSel: gs, Cluster: cl}
							if !sim.WantCase(cell.id()) {
								continue
							}
							n++
							t.Run(cell.id(), func(t *testing.T) {
								t.Parallel()
								runC06(t, cell)
							})
						}
					}
				}
			}
		}
	}
	sim.R().Note("C06", fmt.Sprintf("composite table cells enumerated: %d", n))
}

func runC06(t *testing.T, cell c06Cell) {
	rep := sim.R()
	id := cell.id()
	rep.Begin("C06", id)
	uid := uniqueID("t")
	// a second child rule without any update strategy, listed before the one under test (or after
	// it, with generateSelector): the strategy of a rule does not depend on its neighbours
	otherKind := kindCfg{Kind: "Widget", Method: "<nil>"}
	if cell.Kind == "Widget" {
		otherKind.Kind = "ConfigMap"
	}
	kinds := []kindCfg{otherKind, {Kind: cell.Kind, Method: cell.Method}}
	if cell.GenSel {
		kinds = []kindCfg{{Kind: cell.Kind, Method: cell.Method}, otherKind}
	}
	sc := &scenario{ID: uid, GenerateSelector: cell.GenSel, Kinds: kinds, ClusterParent: cell.Cluster}
	target := kidCfg{Kind: cell.Kind, Name: "target-" + uid, Value: "v1"}
	if cell.Diff == "sysmeta" {
		target.MetaExtra = map[string]interface{}{"uid": "bogus-uid", "resourceVersion": "1", "creationTimestamp": "1999-01-01T00:00:00Z", "generation": int64(77), "selfLink": "/x"}
	}
	switch cell.Diff {
	case "desired-status":
		target.Status = map[string]interface{}{"phase": "Wanted"}
	case "desired-empty-status":
		target.Status = map[string]interface{}{}
	}
	sc.Kids = []kidCfg{target}
	r := prepareScenario(sc)
	defer r.close()
	ri := kindInfo(cell.Kind)
	field := "spec"
	if cell.Kind == "ConfigMap" {
		field = "data"
	}
	// the pre-existing desired child
	plain := target
	obj := r.asCreatedByMC(plain, "v1")
	switch cell.Diff {
	case "owned":
		old := r.asCreatedByMC(plain, "old")
		obj = old
	case "foreign":
		sim.SetNested(obj, "someone-else", field, "foreign")
	case "status":
		// set through the status endpoint below
	}
	if cell.State == "deleting" {
		sim.SetNested(obj, []interface{}{"example.com/hold"}, "metadata", "finalizers")
	}
	created := r.w.sim.MustCreate(ri.GVR(), obj)
	if cell.Diff == "status" {
		c2 := sim.DeepCopy(created)
		c2["status"] = sim.Obj{"phase": "Running", "ready": true}
		if _, err := r.w.sim.ExtUpdateStatus(ri.GVR(), c2); err != nil {
			inconclusive(t, "C06", id, err)
			return
		}
	}
	// an owned child that is not desired
	und := r.asCreatedByMC(kidCfg{Kind: cell.Kind, Name: "undesired-" + uid, Value: "v1"}, "v1")
	if cell.State == "deleting" {
		sim.SetNested(und, []interface{}{"example.com/hold"}, "metadata", "finalizers")
	}
	undCreated := r.w.sim.MustCreate(ri.GVR(), und)
	if cell.State == "deleting" {
		r.w.sim.ExtDelete(ri.GVR(), sim.NS(created), sim.Name(created), "")
		r.w.sim.ExtDelete(ri.GVR(), sim.NS(und), sim.Name(und), "")
	}
	targetUID := sim.UID(created)

	if err := r.w.start(); err != nil {
		// an unknown method may legitimately make the controller refuse to start
		if cell.Method == "Bogus" {
			rep.Case("C06", id, true, id, map[string]interface{}{"cell": cell, "outcome": "controller refused to start: " + err.Error()})
			return
		}
		inconclusive(t, "C06", id, err)
		return
	}
	defer r.w.flushCounters("C06")

	type ev struct {
		sync int
		req  *sim.Request
	}
	var onTarget, onUndesired []ev
	var syncErrs []string
	nsync := 0
	for round := 0; round < 4; round++ {
		if round > 0 {
			r.w.q.Add(sc.parentKey())
		}
		syncs, ok := r.w.round()
		if !ok {
			inconclusive(t, "C06", id, r.w.watchdog)
			return
		}
		for _, s := range syncs {
			nsync++
			if s.Err != nil {
				syncErrs = append(syncErrs, s.Err.Error())
			}
			for _, q := range s.Requests {
				if q.Actor != "mc" || !q.Mutating() || q.GVR != ri.GVR() {
					continue
				}
				switch q.Name {
				case target.Name:
					onTarget = append(onTarget, ev{nsync, q})
				case "undesired-" + uid:
					onUndesired = append(onUndesired, ev{nsync, q})
				}
			}
		}
	}
	viol := func(sig, detail string) {
		var log []string
		for _, e := range onTarget {
			log = append(log, fmt.Sprintf("sync %d: %s body=%v", e.sync, e.req.String(), e.req.Body))
		}
		for _, e := range onUndesired {
			log = append(log, fmt.Sprintf("sync %d: %s body=%v", e.sync, e.req.String(), e.req.Body))
		}
		rep.Violation("C06", id, sig, detail, map[string]interface{}{"cell": cell, "requests": log, "syncErrors": syncErrs})
	}
	count := func(evs []ev, verb string) (n int, first *ev) {
		for i := range evs {
			if evs[i].req.Verb == verb {
				if first == nil {
					first = &evs[i]
				}
				n++
			}
		}
		return
	}
	checkDelete := func(who string, e *ev, wantUID string) {
		opts, _ := e.req.Body.(map[string]interface{})
		pre, _ := opts["preconditions"].(map[string]interface{})
		if u, _ := pre["uid"].(string); u != wantUID {
			viol("delete-without-observed-uid:"+who, fmt.Sprintf("delete of %s child carries uid precondition %q, observed uid %q", who, u, wantUID))
		}
		if p, _ := opts["propagationPolicy"].(string); p != "Background" {
			viol("delete-not-background:"+who, fmt.Sprintf("delete of %s child has propagationPolicy %q, want Background", who, p))
		}
	}

	differs := cell.Diff == "owned"
	nUpd, _ := count(onTarget, "update")
	nDel, firstDel := count(onTarget, "delete")
	nCre, firstCre := count(onTarget, "create")
	nPatch, _ := count(onTarget, "patch")
	method := cell.Method
	switch {
	case cell.State == "deleting":
		if len(onTarget) > 0 {
			viol("write-to-deleting-child", "a desired child pending deletion received a write")
		}
	case !differs:
		if len(onTarget) > 0 {
			viol("write-to-matching-child:"+cell.Diff, fmt.Sprintf("a child that already matches its merged desired state (difference: %s only) received a write", cell.Diff))
		}
	case method == "" || method == "OnDelete" || method == "<nil>":
		if len(onTarget) > 0 {
			viol("ondelete-wrote:"+method, fmt.Sprintf("update strategy %q: differing child must be neither updated nor deleted, saw %d update(s) %d delete(s) %d other", method, nUpd, nDel, nCre+nPatch))
		}
	case method == "Recreate" || method == "RollingRecreate":
		if nUpd+nPatch > 0 {
			viol("recreate-updated-in-place:"+method, fmt.Sprintf("update strategy %s: child was updated in place (%d update, %d patch)", method, nUpd, nPatch))
		}
		if nDel != 1 {
			viol("recreate-delete-count:"+method, fmt.Sprintf("update strategy %s: want exactly one delete of the differing child, saw %d", method, nDel))
		} else {
			checkDelete("desired", firstDel, targetUID)
			if nCre < 1 {
				viol("recreate-not-recreated:"+method, fmt.Sprintf("update strategy %s: child deleted but never recreated within %d syncs", method, nsync))
			} else if firstCre.sync <= firstDel.sync {
				viol("recreate-same-sync:"+method, fmt.Sprintf("update strategy %s: child recreated in sync %d, not later than its delete in sync %d", method, firstCre.sync, firstDel.sync))
			}
		}
	case method == "InPlace" || method == "RollingInPlace":
		if nDel > 0 || nCre > 0 {
			viol("inplace-deleted:"+method, fmt.Sprintf("update strategy %s: child was deleted/recreated (%d delete, %d create) instead of updated", method, nDel, nCre))
		}
		if nUpd < 1 {
			viol("inplace-not-updated:"+method, fmt.Sprintf("update strategy %s: differing child was never updated in %d syncs", method, nsync))
		} else {
			cur := r.w.sim.Peek(ri.GVR(), sim.NS(created), sim.Name(created))
			if v := sim.NestedString(cur, field, "value"); v != "v1" {
				viol("inplace-wrong-value:"+method, fmt.Sprintf("update strategy %s: after update value is %q want v1", method, v))
			}
		}
	default: // unknown method
		if len(onTarget) > 0 {
			viol("unknown-method-wrote", fmt.Sprintf("unknown update method %q: child received a write", method))
		}
		if len(syncErrs) == 0 {
			viol("unknown-method-no-error", fmt.Sprintf("unknown update method %q on a differing child: no sync reported an error", method))
		}
	}
	// the owned child that is no longer desired
	nUDel, firstUDel := count(onUndesired, "delete")
	if cell.State == "deleting" {
		if len(onUndesired) > 0 {
			viol("write-to-deleting-undesired", "an undesired child already pending deletion received a write")
		}
	} else {
		if nUDel != 1 || len(onUndesired) != 1 {
			viol("undesired-delete-count", fmt.Sprintf("owned child no longer desired: want exactly one delete and nothing else, saw %d delete(s) of %d request(s)", nUDel, len(onUndesired)))
		} else {
			checkDelete("undesired", firstUDel, sim.UID(undCreated))
		}
	}
	rep.Case("C06", id, nsync > 0, id, map[string]interface{}{"cell": cell, "syncs": nsync, "requestsOnTarget": len(onTarget), "syncErrors": len(syncErrs)})
}

// Two child resources that share their Kind but live in different API groups, each with its own
// update method: every differing child is changed by the method of *its* resource.
func TestVerif_C06_SameKindTwoGroups(t *testing.T) {
	methods := []string{"<nil>", "OnDelete", "Recreate", "InPlace", "RollingRecreate", "RollingInPlace"}
	for _, ma := range methods {
		for _, mb := range methods {
			if ma == mb {
				continue
			}
			for _, order := range []string{"ab", "ba"} {
				ma, mb, order := ma, mb, order
				id := fmt.Sprintf("c06-samekind-%s-%s-%s", strings.Trim(ma, "<>"), strings.Trim(mb, "<>"), order)
				if !sim.WantCase(id) {
					continue
				}
				t.Run(id, func(t *testing.T) {
					t.Parallel()
					runC06SameKind(t, id, ma, mb, order)
				})
			}
		}
	}
}

func runC06SameKind(t *testing.T, id, ma, mb, order string) {
	rep := sim.R()
	rep.Begin("C06", id)
	uid := uniqueID("g")
	kinds := []kindCfg{{Kind: "Widget", Method: ma}, {Kind: "AltWidget", Method: mb}}
	if order == "ba" {
		kinds[0], kinds[1] = kinds[1], kinds[0]
	}
	sc := &scenario{ID: uid, Kinds: kinds}
	ka := kidCfg{Kind: "Widget", Name: "target-" + uid, Value: "v1"}
	kb := kidCfg{Kind: "AltWidget", Name: "target-" + uid, Value: "v1"}
	sc.Kids = []kidCfg{ka, kb}
	r := prepareScenario(sc)
	defer r.close()
	r.w.caseID = id
	s := r.w.sim
	s.MustCreate(sim.WidgetInfo.GVR(), r.asCreatedByMC(ka, "old"))
	s.MustCreate(sim.AltWidgetInfo.GVR(), r.asCreatedByMC(kb, "old"))
	if err := r.w.start(); err != nil {
		inconclusive(t, "C06", id, err)
		return
	}
	defer r.w.flushCounters("C06")
	type tally struct{ upd, del, cre, other int }
	got := map[string]*tally{"Widget": {}, "AltWidget": {}}
	var log []string
	nsync := 0
	for round := 0; round < 5; round++ {
		if round > 0 {
			r.w.q.Add(sc.parentKey())
		}
		syncs, ok := r.w.round()
		if !ok {
			inconclusive(t, "C06", id, r.w.watchdog)
			return
		}
		for _, sr := range syncs {
			nsync++
			for _, q := range sr.Requests {
				if q.Actor != "mc" || !q.Mutating() {
					continue
				}
				var tl *tally
				switch q.GVR {
				case sim.WidgetInfo.GVR():
					tl = got["Widget"]
				case sim.AltWidgetInfo.GVR():
					tl = got["AltWidget"]
				default:
					continue
				}
				log = append(log, fmt.Sprintf("sync %d: %s", nsync, q.String()))
				switch q.Verb {
				case "update":
					tl.upd++
				case "delete":
					tl.del++
				case "create":
					tl.cre++
				default:
					tl.other++
				}
			}
		}
	}
	for _, kc := range []struct{ name, method string }{{"Widget", ma}, {"AltWidget", mb}} {
		tl := got[kc.name]
		bad := ""
		switch kc.method {
		case "<nil>", "", "OnDelete":
			if tl.upd+tl.del+tl.cre+tl.other > 0 {
				bad = "must be neither updated nor deleted"
			}
		case "Recreate", "RollingRecreate":
			if tl.upd+tl.other > 0 || tl.del == 0 {
				bad = "must be deleted and recreated, never updated in place"
			}
		case "InPlace", "RollingInPlace":
			if tl.del+tl.cre > 0 || tl.upd == 0 {
				bad = "must be updated in place, never deleted"
			}
		}
		if bad != "" {
			rep.Violation("C06", id, fmt.Sprintf("samekind:wrong-method:%s:own=%s:other=%s", kc.name, strings.Trim(kc.method, "<>"), strings.Trim(map[string]string{"Widget": mb, "AltWidget": ma}[kc.name], "<>")),
				fmt.Sprintf("%s (group %s) has update method %q and %s; saw %d update(s), %d delete(s), %d create(s), %d other", kc.name, kindInfo(kc.name).Group, kc.method, bad, tl.upd, tl.del, tl.cre, tl.other),
				map[string]interface{}{"methods": []string{ma, mb}, "order": order, "requests": log})
		}
	}
	rep.Case("C06", id, nsync > 0, id, map[string]interface{}{"widget": ma, "altwidget": mb, "order": order, "syncs": nsync})
}
