//go:build verif

package composite

import (
	"encoding/json"
	"fmt"
	"sort"
	"strings"
	"sync"
	"testing"

	"metacontroller/pkg/apis/metacontroller/v1alpha1"
	"metacontroller/pkg/controller/common/api"
	"metacontroller/pkg/hooks"
	sim "metacontroller/pkg/verifsim"
)

// C13 - no hook response, however malformed, can crash metacontroller or cause writes.
// Grammar-based: valid templates per response type, every field at every depth replaced in turn
// by every junk value; whole-body variants x HTTP status; x configuration.

// recHook wraps the real hook executor to observe whether Call returned an error.
type recHook struct {
	inner hooks.Hook
	mu    sync.Mutex
	errs  []error
	calls int
}

func (h *recHook) IsEnabled() bool { return h.inner.IsEnabled() }
func (h *recHook) Call(request api.WebhookRequest, response interface{}) error {
	err := h.inner.Call(request, response)
	h.mu.Lock()
	h.calls++
	if err != nil {
		h.errs = append(h.errs, err)
	}
	h.mu.Unlock()
	return err
}
func (h *recHook) failed() bool {
	h.mu.Lock()
	defer h.mu.Unlock()
	return len(h.errs) > 0
}

type junk struct {
	Name string
	Raw  string // JSON text; "" = remove the field
}

var junkValues = []junk{
	{"absent", ""}, {"null", "null"}, {"true", "true"}, {"zero", "0"}, {"minus1", "-1"}, {"huge", "1e308"}, {"2pow63", "9223372036854775808"},
	{"emptystr", `""`}, {"str", `"x"`}, {"emptylist", "[]"}, {"listnull", "[null]"}, {"emptyobj", "{}"}, {"objnull", `{"a":null}`},
}

// fieldPaths enumerates every path of a JSON template (maps by key, lists by index).
func jsonPaths(v interface{}, prefix []string, out *[][]string) {
	switch t := v.(type) {
	case map[string]interface{}:
		for k, vv := range t {
			p := append(append([]string{}, prefix...), k)
			*out = append(*out, p)
			jsonPaths(vv, p, out)
		}
	case []interface{}:
		for i, vv := range t {
			p := append(append([]string{}, prefix...), fmt.Sprintf("#%d", i))
			*out = append(*out, p)
			jsonPaths(vv, p, out)
		}
	}
}

// replaceAt returns a deep copy of v with the value at path replaced (or removed when raw == "").
func replaceAt(v interface{}, path []string, raw string) interface{} {
	if len(path) == 0 {
		var nv interface{}
		json.Unmarshal([]byte(raw), &nv)
		return nv
	}
	switch t := v.(type) {
	case map[string]interface{}:
		out := map[string]interface{}{}
		for k, vv := range t {
			out[k] = sim.DeepCopyValue(vv)
		}
		if len(path) == 1 && raw == "" {
			delete(out, path[0])
			return out
		}
		out[path[0]] = replaceAt(t[path[0]], path[1:], raw)
		return out
	case []interface{}:
		var idx int
		fmt.Sscanf(path[0], "#%d", &idx)
		out := make([]interface{}, 0, len(t))
		for i, vv := range t {
			if i == idx {
				if len(path) == 1 && raw == "" {
					continue
				}
				out = append(out, replaceAt(vv, path[1:], raw))
			} else {
				out = append(out, sim.DeepCopyValue(vv))
			}
		}
		return out
	}
	return v
}

type c13Config struct {
	Name    string `json:"name"`
	Rolling bool   `json:"rolling"`
	GenSel  bool   `json:"generateSelector"`
	Strict  bool   `json:"strict"`
	Cluster bool   `json:"clusterParent,omitempty"`
}

type c13Case struct {
	Cfg    c13Config `json:"cfg"`
	Hook   string    `json:"hook"` // sync finalize customize
	Desc   string    `json:"desc"`
	Status int       `json:"status"`
	Body   string    `json:"body"`
	// LabelCase marks responses whose children carry labels that must be rejected
	LabelCase bool `json:"labelCase,omitempty"`
	// Structural marks well-formed answers with an odd child list (no-write rule not applied)
	Structural bool `json:"structural,omitempty"`
}

func c13Template(hook, uid string, gensel bool) map[string]interface{} {
	switch hook {
	case "customize":
		return map[string]interface{}{"relatedResources": []interface{}{
			map[string]interface{}{"apiVersion": "v1", "resource": "secrets", "labelSelector": map[string]interface{}{"matchLabels": map[string]interface{}{"a": "b"}}, "namespace": "", "names": []interface{}{}},
			map[string]interface{}{"apiVersion": "rel.dev/v1", "resource": "gadgets", "namespace": "ns-" + uid, "names": []interface{}{"g1"}},
		}}
	}
	labels := map[string]interface{}{"app": "a-" + uid}
	child := func(name string) map[string]interface{} {
		return map[string]interface{}{"apiVersion": "kids.dev/v1", "kind": "Widget",
			"metadata": map[string]interface{}{"name": name, "namespace": "ns-" + uid, "labels": sim.DeepCopy(labels), "annotations": map[string]interface{}{"k": "v"}},
			"spec":     map[string]interface{}{"value": "v1", "rev": "r2", "extra": "e1", "ports": []interface{}{map[string]interface{}{"name": "main", "port": int64(80)}}}}
	}
	t := map[string]interface{}{
		"status":             map[string]interface{}{"phase": "ok", "observedGeneration": int64(1), "conditions": []interface{}{map[string]interface{}{"type": "Ready", "status": "True"}}},
		"children":           []interface{}{child("c0-" + uid), child("c1-" + uid)},
		"resyncAfterSeconds": 0.5,
	}
	if hook == "finalize" {
		t["finalized"] = false
	}
	return t
}

func c13Cases(cfg c13Config, uid string) []c13Case {
	var out []c13Case
	for _, hook := range []string{"sync", "finalize", "customize"} {
		tmpl := c13Template(hook, uid, cfg.GenSel)
		var paths [][]string
		jsonPaths(tmpl, nil, &paths)
		for _, p := range paths {
			for _, j := range junkValues {
				body, _ := json.Marshal(replaceAt(tmpl, p, j.Raw))
				c := c13Case{Cfg: cfg, Hook: hook, Desc: strings.Join(p, ".") + "=" + j.Name, Status: 200, Body: string(body)}
				out = append(out, c)
			}
		}
		valid, _ := json.Marshal(tmpl)
		// whole-body variants x status codes
		bodies := map[string]string{
			"valid": string(valid), "empty": "", "nonjson": "<html>oops</html>", "truncated": string(valid[:len(valid)/2]),
			"array": "[1,2]", "number": "42", "null": "null", "string": `"x"`,
			"dupkeys": `{"status":{},"status":{"a":1},"children":[],"children":[]}`, "unknown": `{"status":{},"children":[],"bogusField":1}`,
			"badutf8": "{\"status\":{\"a\":\"\xff\xfe\"},\"children\":[]}", "bigstring": `{"status":{"a":"` + strings.Repeat("A", 1<<20) + `"},"children":[]}`,
			"deep": strings.Repeat(`{"status":`, 200) + "1" + strings.Repeat("}", 200),
		}
		for name, b := range bodies {
			for _, st := range []int{200, 204, 301, 304, 400, 404, 429, 500, 503} {
				if st != 200 && name != "valid" && name != "empty" && name != "nonjson" {
					continue
				}
				out = append(out, c13Case{Cfg: cfg, Hook: hook, Desc: "body:" + name, Status: st, Body: b})
			}
		}
	}
	// structurally odd child lists: well-formed JSON that names children metacontroller cannot or
	// should not manage as told (judged for panics and by the always-on ownership monitor; whether
	// the rest of such an answer is carried out is not prescribed)
	for _, hook := range []string{"sync", "finalize"} {
		mk := func(mut func(kids []interface{}) []interface{}) string {
			tmpl := c13Template(hook, uid, cfg.GenSel)
			tmpl["children"] = mut(tmpl["children"].([]interface{}))
			b, _ := json.Marshal(tmpl)
			return string(b)
		}
		clone := func(k interface{}) map[string]interface{} { return sim.DeepCopy(k.(map[string]interface{})) }
		variants := map[string]func(kids []interface{}) []interface{}{
			"dup-child": func(kids []interface{}) []interface{} {
				d := clone(kids[0])
				sim.SetNested(d, "other", "spec", "value")
				return append(kids, d)
			},
			"undeclared-kind": func(kids []interface{}) []interface{} {
				return append(kids, map[string]interface{}{"apiVersion": "v1", "kind": "ConfigMap", "metadata": map[string]interface{}{"name": "cm-" + uid}, "data": map[string]interface{}{"a": "b"}})
			},
			"unknown-kind": func(kids []interface{}) []interface{} {
				return append(kids, map[string]interface{}{"apiVersion": "nope.dev/v1", "kind": "Nope", "metadata": map[string]interface{}{"name": "x-" + uid}})
			},
			"other-namespace": func(kids []interface{}) []interface{} {
				d := clone(kids[1])
				sim.SetNested(d, "elsewhere-"+uid, "metadata", "namespace")
				kids[1] = d
				return kids
			},
			"no-name": func(kids []interface{}) []interface{} {
				d := clone(kids[1])
				delete(d["metadata"].(map[string]interface{}), "name")
				kids[1] = d
				return kids
			},
			"generate-name": func(kids []interface{}) []interface{} {
				d := clone(kids[1])
				delete(d["metadata"].(map[string]interface{}), "name")
				sim.SetNested(d, "gen-", "metadata", "generateName")
				kids[1] = d
				return kids
			},
			"other-version": func(kids []interface{}) []interface{} {
				d := clone(kids[1])
				d["apiVersion"] = "kids.dev/v2"
				kids[1] = d
				return kids
			},
			"no-apiversion": func(kids []interface{}) []interface{} {
				d := clone(kids[1])
				delete(d, "apiVersion")
				kids[1] = d
				return kids
			},
			"empty-child": func(kids []interface{}) []interface{} { return append(kids, map[string]interface{}{}) },
		}
		var names []string
		for n := range variants {
			names = append(names, n)
		}
		sort.Strings(names)
		for _, n := range names {
			out = append(out, c13Case{Cfg: cfg, Hook: hook, Desc: "children:" + n, Status: 200, Body: mk(variants[n]), Structural: true})
		}
	}
	// label validation cases (must be rejected before anything is written)
	mismatch := `{"app":"someone-else"}`
	if cfg.GenSel {
		mismatch = `{"controller-uid":"someone-else"}`
	}
	for _, lab := range []string{`{"app":1}`, `{"app":null}`, `{"app":["x"]}`, `{"app":{"a":"b"}}`, `"x"`, `[1]`, mismatch} {
		tmpl := c13Template("sync", uid, cfg.GenSel)
		body, _ := json.Marshal(replaceAt(tmpl, []string{"children", "#1", "metadata", "labels"}, lab))
		out = append(out, c13Case{Cfg: cfg, Hook: "sync", Desc: "labels=" + lab, Status: 200, Body: string(body), LabelCase: true})
	}
	return out
}

func TestVerif_C13_Grammar(t *testing.T) {
	cfgs := []c13Config{
		{Name: "plain"}, {Name: "gensel", GenSel: true}, {Name: "rolling", Rolling: true}, {Name: "rolling-gensel", Rolling: true, GenSel: true},
		{Name: "strict", Strict: true}, {Name: "rolling-strict", Rolling: true, Strict: true},
		{Name: "cluster", Cluster: true},
	}
	rng := sim.Rand("C13")
	total := 0
	for _, cfg := range cfgs {
		cases := c13Cases(cfg, "UID")
		total += len(cases)
		for i, c := range cases {
			// quick tier: a seeded third of the grammar; thorough: all of it
			if !sim.Thorough() && rng.Intn(3) != 0 {
				continue
			}
			i, c := i, c
			id := fmt.Sprintf("c13-%s-%s-%d", cfg.Name, c.Hook, i)
			if !sim.WantCase(id) {
				continue
			}
			t.Run(id, func(t *testing.T) {
				t.Parallel()
				runC13(t, id, c)
			})
		}
	}
	sim.R().Note("C13", fmt.Sprintf("grammar size: %d cases over %d configurations (thorough runs all, quick a seeded third)", total, len(cfgs)))
}

func runC13(t *testing.T, id string, c c13Case) {
	rep := sim.R()
	rep.Begin("C13", id)
	uid := uniqueID("m")
	method := "InPlace"
	if c.Cfg.Rolling {
		method = "RollingInPlace"
	}
	sc := &scenario{ID: uid, GenerateSelector: c.Cfg.GenSel, ClusterParent: c.Cfg.Cluster, Finalize: true, Kinds: []kindCfg{{Kind: "Widget", Method: method}}}
	sc.Kids = []kidCfg{{Kind: "Widget", Name: "c0-" + uid, Value: "v1"}, {Kind: "Widget", Name: "c1-" + uid, Value: "v1"}}
	r := prepareScenario(sc)
	defer r.close()
	w := r.w
	w.caseID = id
	w.cfg.CustomizeHook = true
	w.cc = w.cfg.compositeController(w.hooks)
	if c.Cfg.Strict {
		mode := v1alpha1.ResponseUnmarshallModeStrict
		for _, h := range []*v1alpha1.Hook{w.cc.Spec.Hooks.Sync, w.cc.Spec.Hooks.Finalize, w.cc.Spec.Hooks.Customize} {
			if h != nil {
				h.Webhook.ResponseUnmarshallMode = &mode
			}
		}
	}
	s := w.sim
	// a small populated store: two owned children at the current revision, one stale child
	s.MustCreate(sim.WidgetInfo.GVR(), r.asCreatedByMC(sc.Kids[0], "v1"))
	s.MustCreate(sim.WidgetInfo.GVR(), r.asCreatedByMC(sc.Kids[1], "v1"))
	s.MustCreate(sim.WidgetInfo.GVR(), r.asCreatedByMC(kidCfg{Kind: "Widget", Name: "stale-" + uid}, "v1"))
	secNS := sc.ns()
	if secNS == "" {
		secNS = "cns-" + uid
	}
	sec := sim.NewObject(sim.SecretInfo, secNS, "s1-"+uid)
	sim.SetLabels(sec, map[string]string{"a": "b"})
	s.MustCreate(sim.SecretInfo.GVR(), sec)
	if c.Hook == "finalize" {
		fin := "metacontroller.io/compositecontroller-" + uid
		s.ExtMutate(sc.parentInfo().GVR(), sc.ns(), sc.parentName(), func(o sim.Obj) { sim.SetNested(o, []interface{}{fin}, "metadata", "finalizers") })
		s.ExtDelete(sc.parentInfo().GVR(), sc.ns(), sc.parentName(), "")
	}
	body := strings.ReplaceAll(c.Body, "UID", uid)
	if c.Cfg.Cluster {
		// the namespaced children of a cluster-scoped parent live in their own namespace
		body = strings.ReplaceAll(body, `"namespace":"ns-`+uid+`"`, `"namespace":"cns-`+uid+`"`)
	}
	valid := func(hook string) sim.HookResponse {
		b, _ := json.Marshal(c13Template(hook, uid, c.Cfg.GenSel))
		return sim.HookResponse{Status: 200, Body: b}
	}
	bad := sim.HookResponse{Status: c.Status, Body: []byte(body)}
	for _, hk := range []string{"sync", "finalize", "customize"} {
		hk := hk
		w.hooks.Handle(hk, func(call *sim.HookCall) sim.HookResponse {
			if hk == c.Hook {
				return bad
			}
			return valid(hk)
		})
	}
	if err := w.start(); err != nil {
		inconclusive(t, "C13", id, err)
		return
	}
	defer w.flushCounters("C13")
	// in the rolling configurations make a rollout be in progress: one sync with valid answers
	// first (records the revision), then a parent edit
	rs, rf := &recHook{inner: w.pc.syncHook}, &recHook{inner: w.pc.finalizeHook}
	if c.Cfg.Rolling && c.Hook != "finalize" {
		w.hooks.Handle(c.Hook, func(call *sim.HookCall) sim.HookResponse {
			b, _ := json.Marshal(replaceAt(c13Template(c.Hook, uid, c.Cfg.GenSel), []string{"children", "#0", "spec", "rev"}, `"r1"`))
			if c.Hook == "customize" {
				return valid("customize")
			}
			b2, _ := json.Marshal(replaceAt(jsonDecode(b), []string{"children", "#1", "spec", "rev"}, `"r1"`))
			return sim.HookResponse{Status: 200, Body: b2}
		})
		for i := 0; i < 3; i++ {
			if _, ok := w.round(); !ok {
				inconclusive(t, "C13", id, w.watchdog)
				return
			}
		}
		s.ExtMutate(sc.parentInfo().GVR(), sc.ns(), sc.parentName(), func(o sim.Obj) { sim.SetNested(o, "r2", "spec", "template", "rev") })
		w.hooks.Handle(c.Hook, func(call *sim.HookCall) sim.HookResponse { return bad })
	}
	w.pc.syncHook, w.pc.finalizeHook = rs, rf
	if !w.quiesce() {
		inconclusive(t, "C13", id, w.watchdog)
		return
	}
	w.q.Add(sc.parentKey())
	var sr *syncResult
	for w.q.Len() > 0 && sr == nil {
		if x := w.step(); x != nil && x.Key == sc.parentKey() {
			sr = x
		}
	}
	if sr == nil {
		inconclusive(t, "C13", id, fmt.Errorf("no sync"))
		return
	}
	called := false
	class := "accepted"
	judge := func(sr *syncResult, attempt string) {
		for _, h := range sr.Hooks {
			if h.Path == c.Hook {
				called = true
			}
		}
		hookFailed := rs.failed() || rf.failed()
		customizeFailed := c.Hook == "customize" && sr.Err != nil && len(sr.Hooks) > 0 && sr.Hooks[len(sr.Hooks)-1].Path == "customize"
		var hookEnd int64
		for _, h := range sr.Hooks {
			if h.EndSeq > hookEnd {
				hookEnd = h.EndSeq
			}
		}
		var childWrites []string
		for _, q := range sr.Requests {
			if q.Actor == "mc" && q.Mutating() && q.GVR == sim.WidgetInfo.GVR() && q.Seq > hookEnd {
				childWrites = append(childWrites, q.String())
			}
		}
		wit := map[string]interface{}{"attempt": attempt, "case": map[string]interface{}{"cfg": c.Cfg, "hook": c.Hook, "desc": c.Desc, "status": c.Status, "body": truncate(body, 600)}, "err": fmt.Sprint(sr.Err), "requests": sim.DescribeLog(sr.Requests, false)}
		// (1) no panic: reported by M-PANIC in world.observe. (2) rejected => error and no child write
		rejected := hookFailed || customizeFailed || c.LabelCase
		if rejected {
			// 429 is the documented exception for composite controllers: re-queued after the
			// advertised delay without counting as an error (judged by C12); still no writes
			if sr.Err == nil && sr.Panic == "" && c.Status != 429 {
				rep.Violation("C13", id, "rejected-response-not-reported:"+c.Hook, "the hook call failed / the response must be rejected, but the sync reported no error", wit)
			}
			if len(childWrites) > 0 {
				rep.Violation("C13", id, "write-on-rejected-response:"+c.Hook, fmt.Sprintf("the response was rejected, yet children were written on the strength of it: %v", childWrites), wit)
			}
		}
		if sr.Panic != "" {
			class = "panic"
		} else if sr.Err != nil && class != "panic" {
			class = "error"
		}
	}
	judge(sr, "first")
	// "reported and retried": the retry of a rejected answer (same parent generation, same bytes
	// from the hook) and an event of a related object in between must be just as harmless
	retried := false
	if sr.Err != nil && sr.Panic == "" {
		s.ExtMutate(sim.SecretInfo.GVR(), sc.ns(), "s1-"+uid, func(o sim.Obj) { sim.SetNested(o, "x", "data", "touched") })
		if !w.quiesce() {
			inconclusive(t, "C13", id, w.watchdog)
			return
		}
		w.q.Add(sc.parentKey())
		var sr2 *syncResult
		for w.q.Len() > 0 && sr2 == nil {
			if x := w.step(); x != nil && x.Key == sc.parentKey() {
				sr2 = x
			}
		}
		if sr2 != nil {
			retried = true
			judge(sr2, "retry")
		}
	}
	rep.Case("C13", id, called, c.Cfg.Name+"/"+c.Hook+"/"+c.Desc+"/"+fmt.Sprint(c.Status), map[string]interface{}{"cfg": c.Cfg, "hook": c.Hook, "desc": c.Desc, "status": c.Status, "outcome": class, "hookCalled": called, "retried": retried})
}

func jsonDecode(b []byte) interface{} {
	var v interface{}
	json.Unmarshal(b, &v)
	return v
}

func truncate(s string, n int) string {
	if len(s) > n {
		return s[:n] + "..."
	}
	return s
}
