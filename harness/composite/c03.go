//go:build verif

package composite

import (
	"fmt"
	"sort"
	"strings"
	"testing"

	sim "metacontroller/pkg/verifsim"
)

// C03 - the hook sees exactly the children the parent owns, in the documented shape.

type c03Cfg struct {
	ClusterParent bool     `json:"clusterParent"`
	Kinds         []string `json:"kinds"`
	GenSel        bool     `json:"generateSelector"`
	Finalizing    bool     `json:"finalizing"`
	Roles         []string `json:"roles"`
}

var c03Roles = []string{"owned", "orphan-match", "orphan-nomatch", "foreign", "other-parent", "other-ns-owned", "owned-deleting", "orphan-deleting", "owned-nomatch", "undeclared-owned"}

func (c c03Cfg) id() string {
	return fmt.Sprintf("c03-cl%v-%s-gs%v-fin%v-%s", c.ClusterParent, strings.ToLower(strings.Join(c.Kinds, "+")), c.GenSel, c.Finalizing, sim.Hash(c.Roles)[:6])
}

func TestVerif_C03_View(t *testing.T) {
	rng := sim.Rand("C03")
	var cfgs []c03Cfg
	for _, cl := range []bool{false, true} {
		kindSets := [][]string{{"ConfigMap"}, {"Widget"}, {"ConfigMap", "Widget"}, {"Widget", "ClusterWidget"}, {"PersistentVolume"}, {"Pod", "ClusterWidget"}}
		for _, ks := range kindSets {
			for _, gs := range []bool{false, true} {
				for _, fin := range []bool{false, true} {
					cfgs = append(cfgs, c03Cfg{ClusterParent: cl, Kinds: ks, GenSel: gs, Finalizing: fin, Roles: c03Roles})
					// random subsets of roles
					for k := 0; k < sim.Pick(1, 12); k++ {
						var roles []string
						for _, r := range c03Roles {
							if rng.Intn(2) == 0 {
								roles = append(roles, r)
							}
						}
						cfgs = append(cfgs, c03Cfg{ClusterParent: cl, Kinds: ks, GenSel: gs, Finalizing: fin, Roles: roles})
					}
				}
			}
		}
	}
	for _, cfg := range cfgs {
		cfg := cfg
		if !sim.WantCase(cfg.id()) {
			continue
		}
		t.Run(cfg.id(), func(t *testing.T) {
			t.Parallel()
			runC03(t, cfg)
		})
	}
}

func runC03(t *testing.T, cfg c03Cfg) {
	rep := sim.R()
	id := cfg.id()
	rep.Begin("C03", id)
	uid := uniqueID("v")
	sc := &scenario{ID: uid, ClusterParent: cfg.ClusterParent, GenerateSelector: cfg.GenSel, Finalize: cfg.Finalizing, ParentSelector: true}
	for _, k := range cfg.Kinds {
		sc.Kinds = append(sc.Kinds, kindCfg{Kind: k, Method: "InPlace"})
	}
	// one brand-new desired child per namespaced kind, returned without a namespace when the
	// parent is namespaced
	for _, k := range cfg.Kinds {
		if !cfg.ClusterParent && !kindInfo(k).Namespaced {
			continue // a namespaced parent cannot have cluster-scoped children
		}
		sc.Kids = append(sc.Kids, kidCfg{Kind: k, Name: "new-" + lower(k) + "-" + uid, Value: "v1"})
	}
	r := prepareScenario(sc)
	defer r.close()
	s := r.w.sim
	parent := r.parent
	// a second parent of the same kind with its own children (not selected by the controller's
	// labelSelector, so it is a pure look-alike and never competes for orphans)
	p2 := sim.NewObject(sc.parentInfo(), sc.ns(), "p2-"+uid)
	p2["spec"] = sim.Obj{"selector": sim.Obj{"matchLabels": sim.Obj{"app": "a-" + uid}}}
	p2 = s.MustCreate(sc.parentInfo().GVR(), p2)

	expected := map[string]map[string]string{} // hookKey -> inner key -> uid
	adoptions := map[string]bool{}             // resource/ns/name expected to be adopted
	releases := map[string]bool{}
	for _, k := range cfg.Kinds {
		ri := kindInfo(k)
		expected[sim.HookKey(ri)] = map[string]string{}
	}
	hasRole := func(role string) bool {
		for _, x := range cfg.Roles {
			if x == role {
				return true
			}
		}
		return false
	}
	match := r.matchingLabels()
	for _, k := range cfg.Kinds {
		ri := kindInfo(k)
		baseNS := sc.childNS(kidCfg{Kind: k})
		mk := func(name, ns string, labels map[string]string) sim.Obj {
			o := sim.NewObject(ri, ns, name+"-"+uid)
			sim.SetLabels(o, labels)
			if k == "ConfigMap" {
				o["data"] = sim.Obj{"value": "x"}
			} else {
				o["spec"] = sim.Obj{"value": "x"}
			}
			return o
		}
		inView := func(o sim.Obj) {
			name := sim.Name(o)
			if sc.ClusterParent && ri.Namespaced {
				name = sim.NS(o) + "/" + name
			}
			expected[sim.HookKey(ri)][name] = sim.UID(o)
		}
		visibleNS := sc.ClusterParent || ri.Namespaced // cluster-scoped kinds are invisible to namespaced parents
		for _, role := range cfg.Roles {
			switch role {
			case "owned":
				o := s.MustCreate(ri.GVR(), sim.AddOwner(mk("owned", baseNS, match), parent, true))
				if visibleNS {
					inView(o)
				}
			case "orphan-match":
				o := s.MustCreate(ri.GVR(), mk("orphan", baseNS, match))
				if visibleNS && !cfg.Finalizing {
					inView(o)
					adoptions[ri.Resource+"/"+sim.Key(o)] = true
				}
			case "orphan-nomatch":
				s.MustCreate(ri.GVR(), mk("orphan-nm", baseNS, map[string]string{"app": "zzz"}))
			case "foreign":
				other := sim.Obj{"apiVersion": "apps/v1", "kind": "ReplicaSet", "metadata": sim.Obj{"name": "rs", "uid": "rs-uid-" + uid}}
				s.MustCreate(ri.GVR(), sim.AddOwner(mk("foreign", baseNS, match), other, true))
			case "other-parent":
				s.MustCreate(ri.GVR(), sim.AddOwner(mk("p2child", baseNS, match), p2, true))
			case "other-ns-owned":
				if ri.Namespaced {
					o := s.MustCreate(ri.GVR(), sim.AddOwner(mk("elsewhere", "other-"+uid, match), parent, true))
					if sc.ClusterParent {
						inView(o) // for a cluster-scoped parent every namespace is in scope
					}
				}
			case "owned-deleting":
				o := mk("owned-del", baseNS, match)
				sim.SetNested(o, []interface{}{"example.com/hold"}, "metadata", "finalizers")
				o = s.MustCreate(ri.GVR(), sim.AddOwner(o, parent, true))
				s.ExtDelete(ri.GVR(), sim.NS(o), sim.Name(o), "")
				if visibleNS {
					inView(o)
				}
			case "orphan-deleting":
				o := mk("orphan-del", baseNS, match)
				sim.SetNested(o, []interface{}{"example.com/hold"}, "metadata", "finalizers")
				o = s.MustCreate(ri.GVR(), o)
				s.ExtDelete(ri.GVR(), sim.NS(o), sim.Name(o), "")
			case "owned-nomatch":
				o := s.MustCreate(ri.GVR(), sim.AddOwner(mk("owned-nm", baseNS, map[string]string{"app": "zzz"}), parent, true))
				if visibleNS && !cfg.Finalizing {
					releases[ri.Resource+"/"+sim.Key(o)] = true
				}
			}
		}
	}
	if hasRole("undeclared-owned") {
		// an object of an undeclared type, owned by the parent and with matching labels
		o := sim.NewObject(sim.SecretInfo, "ns-"+uid, "secret-"+uid)
		sim.SetLabels(o, match)
		s.MustCreate(sim.SecretInfo.GVR(), sim.AddOwner(o, parent, true))
	}
	if cfg.Finalizing {
		// parent carries the finalizer and is being deleted: the finalize hook is asked instead
		fin := "metacontroller.io/compositecontroller-" + uid
		s.ExtMutate(sc.parentInfo().GVR(), sc.ns(), sc.parentName(), func(o sim.Obj) {
			sim.SetNested(o, []interface{}{fin}, "metadata", "finalizers")
		})
		s.ExtDelete(sc.parentInfo().GVR(), sc.ns(), sc.parentName(), "")
	}
	if err := r.w.start(); err != nil {
		inconclusive(t, "C03", id, err)
		return
	}
	defer r.w.flushCounters("C03")
	syncs, ok := r.w.round()
	if !ok {
		inconclusive(t, "C03", id, r.w.watchdog)
		return
	}
	viol := func(sig, detail string, s *syncResult) {
		w := map[string]interface{}{"cfg": cfg, "expected": expected}
		if s != nil {
			w["hooks"] = describeHooks(s.Hooks)
			w["requests"] = sim.DescribeLog(s.Requests, false)
		}
		rep.Violation("C03", id, sig, detail, w)
	}
	var first *syncResult
	for _, sr := range syncs {
		if sr.Key == sc.parentKey() {
			first = sr
			break
		}
	}
	if first == nil || len(first.Hooks) == 0 {
		viol("no-hook-call", "the parent was not synced or no hook was called", first)
		return
	}
	wantPath := "sync"
	if cfg.Finalizing {
		wantPath = "finalize"
	}
	var call *sim.HookCall
	for _, c := range first.Hooks {
		if c.Path == wantPath {
			call = c
		}
	}
	if call == nil {
		viol("wrong-hook", fmt.Sprintf("expected a call of the %s hook", wantPath), first)
		return
	}
	if fz, _ := call.Req["finalizing"].(bool); fz != cfg.Finalizing {
		viol("finalizing-flag", fmt.Sprintf("finalizing=%v in the request, want %v", fz, cfg.Finalizing), first)
	}
	got, _ := call.Req["children"].(map[string]interface{})
	// outer keys: exactly the declared child resources, present even when empty
	var gotKeys, wantKeys []string
	for k := range got {
		gotKeys = append(gotKeys, k)
	}
	for k := range expected {
		wantKeys = append(wantKeys, k)
	}
	sort.Strings(gotKeys)
	sort.Strings(wantKeys)
	if strings.Join(gotKeys, ",") != strings.Join(wantKeys, ",") {
		viol("outer-keys", fmt.Sprintf("children map has entries %v, declared child resources are %v", gotKeys, wantKeys), first)
	}
	for hk, want := range expected {
		g, _ := got[hk].(map[string]interface{})
		var gk, wk []string
		for k := range g {
			gk = append(gk, k)
		}
		for k := range want {
			wk = append(wk, k)
		}
		sort.Strings(gk)
		sort.Strings(wk)
		if strings.Join(gk, ",") != strings.Join(wk, ",") {
			var miss, extra []string
			for _, k := range wk {
				if _, ok := g[k]; !ok {
					miss = append(miss, roleOf(k))
				}
			}
			for _, k := range gk {
				if _, ok := want[k]; !ok {
					extra = append(extra, roleOf(k))
				}
			}
			viol(fmt.Sprintf("inner-keys:missing=%v:extra=%v", miss, extra), fmt.Sprintf("children[%s] has keys %v, expected exactly %v (cluster parent=%v)", hk, gk, wk, sc.ClusterParent), first)
			continue
		}
		for k, wantUID := range want {
			o, _ := g[k].(map[string]interface{})
			if sim.UID(o) != wantUID {
				viol("wrong-object", fmt.Sprintf("children[%s][%s] has uid %s want %s", hk, k, sim.UID(o), wantUID), first)
			}
		}
	}
	// adoptions / releases that justify the view must have been accepted in this sync
	for _, q := range first.Requests {
		if q.Actor != "mc" || q.Verb != "update" || !q.OK() || !q.Applied {
			continue
		}
		k := q.GVR.Resource + "/" + sim.Key(q.Post)
		preC, postC := sim.ControllerOf(q.Pre), sim.ControllerOf(q.Post)
		if preC == nil && postC != nil && postC.UID == sim.UID(parent) {
			delete(adoptions, k)
		}
		if preC != nil && preC.UID == sim.UID(parent) && postC == nil {
			delete(releases, k)
		}
	}
	if len(adoptions) > 0 {
		viol("shown-but-not-adopted", fmt.Sprintf("orphans expected to be adopted before being shown were not: %v", adoptions), first)
	}
	if len(releases) > 0 {
		viol("not-released", fmt.Sprintf("owned children that stopped matching were not released: %v", releases), first)
	}
	// desired children returned without a namespace are placed in the parent's namespace
	if !cfg.Finalizing {
		for _, sr := range syncs {
			for _, q := range sr.Requests {
				if q.Actor == "mc" && q.Verb == "create" && strings.HasPrefix(q.Name, "new-") {
					ri, _ := r.w.sim.Info(q.GVR)
					want := ""
					if ri.Namespaced {
						want = sc.childNS(kidCfg{Kind: ri.Kind})
					}
					if q.NS != want {
						viol("create-namespace", fmt.Sprintf("new desired child %s created in namespace %q, want %q", q.Name, q.NS, want), sr)
					}
				}
			}
		}
	}
	rep.Case("C03", id, true, id, map[string]interface{}{"cfg": cfg, "expectedView": expected})
}

func roleOf(key string) string {
	name := key
	if i := strings.LastIndex(key, "/"); i >= 0 {
		name = key[i+1:]
	}
	if i := strings.LastIndex(name, "-"); i >= 0 {
		name = name[:i]
	}
	return name
}
