//go:build verif

package composite

import (
	"fmt"
	"sync/atomic"
	"testing"

	sim "metacontroller/pkg/verifsim"
)

// C08 - a rolling update of healthy children always completes and cleans up (bounded progress:
// within 4n+8 syncs after the parent edit, under a fair environment that makes every child
// healthy after each sync).

type c08Case struct {
	Cfg        rolloutCfg `json:"cfg"`
	SecondEdit int        `json:"secondEditAfterSyncs"` // -1: none
	Edit       string     `json:"edit,omitempty"`       // "" = template change; scale-down, scale-up, template+scale-down, template+scale-up
	// FailRevUpdate k > 0: the k-th ControllerRevision update after the edit is refused once (500); the
	// failed sync is retried and the rollout still completes within the bound
	FailRevUpdate int `json:"failRevisionUpdate,omitempty"`
	// SecondKind: what the second edit is - "" a new revision; "drop-first" the first desired child
	// (already moved to the latest revision by then) is no longer desired (not a revisioned change
	// when the field paths are ["spec.template"])
	SecondKind string `json:"secondEditKind,omitempty"`
}

func (c c08Case) id() string {
	id := fmt.Sprintf("c08-%s-%s-n%d-%s-fp%v-gs%v-cl%v-e%d", lower(c.Cfg.Kind), c.Cfg.Method, c.Cfg.N, c.Cfg.StatusCheck, c.Cfg.FieldPaths, c.Cfg.GenSel, c.Cfg.Cluster, c.SecondEdit)
	if c.Edit != "" {
		id += "-" + c.Edit
	}
	if c.FailRevUpdate > 0 {
		id += fmt.Sprintf("-failrev%d", c.FailRevUpdate)
	}
	if c.SecondKind != "" {
		id += "-" + c.SecondKind
	}
	return id
}

func TestVerif_C08_Progress(t *testing.T) {
	var cases []c08Case
	maxN := sim.Pick(4, 6)
	for _, kind := range []string{"Widget", "ConfigMap"} {
		for _, method := range []string{"RollingInPlace", "RollingRecreate"} {
			for _, check := range []string{"", "type+status", "type+status+reason"} {
				if kind == "ConfigMap" && check != "" {
					continue
				}
				for _, fp := range []bool{false, true} {
					for _, gs := range []bool{false, true} {
						for n := 1; n <= maxN; n++ {
							cfg := rolloutCfg{Kind: kind, Method: method, N: n, StatusCheck: check, FieldPaths: fp, GenSel: gs}
							cases = append(cases, c08Case{Cfg: cfg, SecondEdit: -1})
							if n >= 2 && n <= 3 && (check == "" || sim.Thorough()) {
								// the revisioned change also changes the set of children
								for _, ed := range []string{"scale-down", "scale-up", "template+scale-down", "template+scale-up"} {
									cases = append(cases, c08Case{Cfg: cfg, SecondEdit: -1, Edit: ed})
									if sim.Thorough() || ed == "template+scale-down" {
										cases = append(cases, c08Case{Cfg: cfg, SecondEdit: 2, Edit: ed})
									}
								}
							}
							if n >= 2 && n <= 3 && check == "" {
								// one transient failure of a revision write during the rollout
								for k := 1; k <= sim.Pick(3, 6); k++ {
									cases = append(cases, c08Case{Cfg: cfg, SecondEdit: -1, FailRevUpdate: k})
									if sim.Thorough() {
										cases = append(cases, c08Case{Cfg: cfg, SecondEdit: 2, FailRevUpdate: k})
									}
								}
							}
							if n <= 3 {
								for e := 0; e <= 2*n+2; e++ {
									if !sim.Thorough() && e%2 == 1 {
										continue
									}
									cases = append(cases, c08Case{Cfg: cfg, SecondEdit: e})
								}
							}
						}
					}
				}
			}
		}
	}
	// mid-rollout the hook stops desiring a child that has already moved to the latest revision
	for _, method := range []string{"RollingInPlace", "RollingRecreate"} {
		for _, fp := range []bool{false, true} {
			for _, n := range []int{2, 3} {
				for _, after := range []int{1, 2} {
					cases = append(cases, c08Case{Cfg: rolloutCfg{Kind: "Widget", Method: method, N: n, FieldPaths: fp}, SecondEdit: after, SecondKind: "drop-first"})
				}
			}
		}
	}
	// a rollout that starts from a revision without any child (scaled to zero, then up again)
	for _, method := range []string{"RollingInPlace", "RollingRecreate"} {
		for _, fp := range []bool{false, true} {
			for _, ed := range []string{"scale-up", "template+scale-up"} {
				cases = append(cases, c08Case{Cfg: rolloutCfg{Kind: "Widget", Method: method, N: 0, FieldPaths: fp}, SecondEdit: -1, Edit: ed})
			}
		}
	}
	// cluster-scoped parents (the statement quantifies over them too)
	for _, method := range []string{"RollingInPlace", "RollingRecreate"} {
		cases = append(cases, c08Case{Cfg: rolloutCfg{Kind: "ClusterWidget", Method: method, N: 2, Cluster: true}, SecondEdit: -1})
		cases = append(cases, c08Case{Cfg: rolloutCfg{Kind: "Widget", Method: method, N: 2, Cluster: true, GenSel: true}, SecondEdit: -1})
	}
	for _, c := range cases {
		c := c
		if !sim.WantCase(c.id()) {
			continue
		}
		t.Run(c.id(), func(t *testing.T) {
			t.Parallel()
			runC08(t, c)
		})
	}
}

func runC08(t *testing.T, c c08Case) {
	rep := sim.R()
	id := c.id()
	rep.Begin("C08", id)
	ro := newRollout(c.Cfg, id)
	defer ro.close()
	ro.r.w.prop = "C08"
	if err := ro.r.w.start(); err != nil {
		inconclusive(t, "C08", id, err)
		return
	}
	defer ro.r.w.flushCounters("C08")
	fairRound := func() (int, bool) {
		srs, _, ok := ro.syncOnce(false)
		if !ok {
			return 0, false
		}
		ro.healAll()
		return len(srs), true
	}
	// initial creation of the children
	for i := 0; i < 2*c.Cfg.N+8; i++ {
		n, ok := fairRound()
		if !ok {
			inconclusive(t, "C08", id, ro.r.w.watchdog)
			return
		}
		if n == 0 {
			break
		}
	}
	var lastErr string
	runEdit := func(label string, secondAfter int) bool {
		bound := 4*c.Cfg.N + 8
		syncs := 0
		for round := 0; round < 3*bound; round++ {
			if secondAfter >= 0 && syncs >= secondAfter && c.SecondKind == "drop-first" {
				ro.editParent(func() { ro.r.kids = ro.r.kids[1:] })
				secondAfter = -1
				syncs = 0
			}
			if secondAfter >= 0 && syncs >= secondAfter {
				ro.newRev()
				secondAfter = -1
				syncs = 0 // the bound counts from the last change of the revisioned fields
			}
			srs, _, ok := ro.syncOnce(false)
			if !ok {
				inconclusive(t, "C08", id, ro.r.w.watchdog)
				return false
			}
			for _, sr := range srs {
				if sr.Err != nil {
					lastErr = sr.Err.Error()
				}
			}
			ro.healAll()
			syncs += len(srs)
			if len(srs) == 0 {
				if !ro.r.w.quiesce() {
					inconclusive(t, "C08", id, ro.r.w.watchdog)
					return false
				}
				if ro.r.w.q.Len() == 0 {
					break
				}
			}
			if syncs > bound {
				break
			}
		}
		done, why := ro.complete()
		if !done || syncs > bound {
			cause := "stalled"
			if lastErr != "" {
				cause = "error:" + normalizeErr(ro.sc.ID, lastErr)
			} else if p := ro.r.liveParent(); p != nil {
				cause = "stalled:" + ro.r.rolloutClass(c.Cfg.Kind)
			}
			ro.viol("C08", "rollout-not-complete:"+cause, fmt.Sprintf("%s: after %d syncs (bound %d = 4n+8) under a fair environment the rollout is not complete: %s", label, syncs, bound, why), nil, ro.snapshot())
			return false
		}
		return true
	}
	if c.FailRevUpdate > 0 {
		var revUpdates int32
		ro.r.w.sim.SetFault(func(ri *sim.ReqInfo) *sim.Fault {
			if ri.GVR.Resource == "controllerrevisions" && ri.Verb == "update" && int(atomic.AddInt32(&revUpdates, 1)) == c.FailRevUpdate {
				return &sim.Fault{Code: 500}
			}
			return nil
		})
	}
	switch c.Edit {
	case "":
		ro.newRev()
	case "scale-down":
		ro.scale(-1)
	case "scale-up":
		ro.scale(1)
	case "template+scale-down":
		ro.editParent(func() {
			if ro.cfg.FieldPaths {
				ro.revN++
				ro.r.rev = fmt.Sprintf("r%d", ro.revN+1)
			}
			ro.r.kids = ro.r.kids[:len(ro.r.kids)-1]
		})
	case "template+scale-up":
		ro.editParent(func() {
			if ro.cfg.FieldPaths {
				ro.revN++
				ro.r.rev = fmt.Sprintf("r%d", ro.revN+1)
			}
			ro.r.kids = append(ro.r.kids, kidCfg{Kind: ro.cfg.Kind, Name: fmt.Sprintf("c%d-%s", len(ro.r.kids)+ro.revN+ro.extN+10, ro.sc.ID), Value: "v1"})
		})
	}
	ok := runEdit("first edit", c.SecondEdit)
	rep.Counter("C08", "syncs_judged", int64(ro.syncs))
	rep.Counter("C08", "moves_observed", int64(ro.moves))
	rep.Case("C08", id, ro.syncs > 0, id, map[string]interface{}{"case": c, "completed": ok, "syncs": ro.syncs, "moves": ro.moves})
}
