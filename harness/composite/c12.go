//go:build verif

package composite

import (
	"fmt"
	"reflect"
	"sort"
	"strings"
	"sync/atomic"
	"testing"
	"time"

	sim "metacontroller/pkg/verifsim"
)

// C12 - failures are retried, benign races tolerated, one bad child blocks nothing.
// Fault enumeration: for each scenario the fault-free run fixes the number of requests and hook
// calls; then every position x every hard-fault kind is injected singly, and truthful benign
// races at every child-request position. The real worker code (processNextWorkItem) does the
// queue bookkeeping.

type c12Scenario struct {
	Name    string `json:"name"`
	Rolling bool   `json:"rolling"`
	Fin     bool   `json:"finalizeHook"`
	GenSel  bool   `json:"generateSelector"`
	// Deleting: the parent carries the finalizer and is pending deletion from the start: every hook
	// call is a finalize call (answering step by step), every child write is part of finalization
	Deleting bool `json:"parentPendingDeletion,omitempty"`
}

type c12Fault struct {
	Target string `json:"target"` // api | hook
	Pos    int    `json:"pos"`
	Kind   string `json:"kind"`
}

var c12APIFaults = []string{"500", "422", "410", "404-on-create", "409conflict-on-create", "504-before", "504-after", "transport-before", "transport-after"}
var c12HookFaults = []string{"500", "503", "refused", "garbage", "429"}
var c12Races = []string{"race-delete", "race-create", "race-edit"}

type c12Ref struct {
	apiOps   int
	hookOps  int
	final    map[string]interface{}
	perSync  []map[string]bool // i-th sync of the parent -> set of "verb resource name" child requests
	statusIn []bool
}

func (sc c12Scenario) build(caseID string) (*scenarioRun, *scenario) {
	uid := uniqueID("e")
	method := "InPlace"
	if sc.Rolling {
		method = "RollingInPlace"
	}
	s := &scenario{ID: uid, GenerateSelector: sc.GenSel, Finalize: sc.Fin, ResyncAfter: 45, Kinds: []kindCfg{{Kind: "Widget", Method: method}, {Kind: "ConfigMap", Method: "Recreate"}}}
	s.Kids = []kidCfg{
		{Kind: "Widget", Name: "upd-" + uid, Value: "v1"},
		{Kind: "Widget", Name: "new-" + uid, Value: "v1"},
		{Kind: "Widget", Name: "ado-" + uid, Value: "v1"},
		{Kind: "ConfigMap", Name: "cm-" + uid, Value: "v1"},
		{Kind: "ConfigMap", Name: "cmnew-" + uid, Value: "v1"},
	}
	r := prepareScenario(s)
	r.w.caseID = caseID
	st := r.w.sim
	st.MustCreate(sim.WidgetInfo.GVR(), r.asCreatedByMC(s.Kids[0], "old"))
	st.MustCreate(sim.WidgetInfo.GVR(), r.asCreatedByMC(kidCfg{Kind: "Widget", Name: "stale-" + uid}, "v1"))
	orphan := r.desiredChild(s.Kids[2], "v1")
	sim.SetNested(orphan, s.ns(), "metadata", "namespace")
	sim.SetLabels(orphan, r.matchingLabels())
	st.MustCreate(sim.WidgetInfo.GVR(), orphan)
	st.MustCreate(sim.ConfigMapInfo.GVR(), r.asCreatedByMC(s.Kids[3], "old"))
	if sc.Deleting {
		pgvr := s.parentInfo().GVR()
		st.ExtMutate(pgvr, s.ns(), s.parentName(), func(o sim.Obj) {
			sim.SetNested(o, []interface{}{"metacontroller.io/compositecontroller-" + uid}, "metadata", "finalizers")
		})
		st.ExtDelete(pgvr, s.ns(), s.parentName(), "")
		r.parent = st.Peek(pgvr, s.ns(), s.parentName())
	}
	return r, s
}

func c12Normalize(r *scenarioRun) map[string]interface{} {
	out := map[string]interface{}{}
	for k, v := range r.w.sim.Normalized() {
		if m, ok := v.(map[string]interface{}); ok {
			// the outside writer's own mark is legitimately preserved
			if ann, ok := sim.Nested(m, "metadata", "annotations"); ok {
				if am, ok := ann.(map[string]interface{}); ok {
					delete(am, "touched-by")
				}
			}
		}
		key := reHex.ReplaceAllString(strings.ReplaceAll(k, r.sc.ID, "ID"), "HASH")
		if m, ok := v.(map[string]interface{}); ok && m["kind"] == "ControllerRevision" {
			// revisions of different incarnations of the parent differ only in the hash: keep them apart
			for _, ref := range sim.OwnerRefs(m) {
				key += "@" + strings.ReplaceAll(ref.UID, r.sc.ID, "ID")
			}
		}
		out[key] = normalizeIDs(v, r.sc.ID)
	}
	return out
}

// c12Run executes the scenario with at most one fault; returns reference data when f == nil.
func c12Run(t *testing.T, sc c12Scenario, f *c12Fault, ref *c12Ref) *c12Ref {
	rep := sim.R()
	id := "c12-ref-" + sc.Name
	if f != nil {
		id = fmt.Sprintf("c12-%s-%s-p%d-%s", sc.Name, f.Target, f.Pos, f.Kind)
		rep.Begin("C12", id)
	}
	r, s := sc.build(id)
	defer r.close()
	w := r.w
	st := w.sim
	if err := w.start(); err != nil {
		if f != nil {
			inconclusive(t, "C12", id, err)
		}
		return nil
	}
	if f != nil {
		defer w.flushCounters("C12")
	}
	out := &c12Ref{}
	pgvr := s.parentInfo().GVR()
	base := st.OpSeq()
	var hookN int32
	var fired int32
	faultSync := ""
	benign := false
	if f != nil && f.Target == "api" {
		isRace := strings.HasPrefix(f.Kind, "race-")
		if isRace {
			st.SetGate(func(ri *sim.ReqInfo) {
				if ri.OpSeq == 0 || int(ri.OpSeq-base) != f.Pos || !atomic.CompareAndSwapInt32(&fired, 0, 1) {
					return
				}
				// only meaningful on child requests; the outside writer makes the server's
				// answer true
				info, ok := st.Info(ri.GVR)
				if !ok || ri.GVR == pgvr || ri.GVR.Resource == "controllerrevisions" {
					atomic.StoreInt32(&fired, 2)
					return
				}
				faultSync = ri.Tag
				switch {
				case f.Kind == "race-delete" && (ri.Verb == "update" || ri.Verb == "delete") && ri.Name != "":
					if st.ExtDelete(ri.GVR, ri.NS, ri.Name, "") == nil {
						benign = true
					}
				case f.Kind == "race-edit" && ri.Verb == "update" && ri.Name != "":
					if _, err := st.ExtMutate(ri.GVR, ri.NS, ri.Name, func(o sim.Obj) { sim.SetNested(o, "x", "metadata", "annotations", "touched-by") }); err == nil {
						benign = true
					}
				case f.Kind == "race-create" && ri.Verb == "create":
					// we do not know the name from the path of a POST; use the scenario's new kids
					for _, k := range s.Kids {
						if kindInfo(k.Kind).GVR() == ri.GVR && st.Peek(ri.GVR, s.ns(), k.Name) == nil {
							o := r.desiredChild(k, k.Value)
							sim.SetNested(o, s.ns(), "metadata", "namespace")
							sim.SetLabels(o, r.matchingLabels())
							st.ExtCreate(ri.GVR, o)
							benign = true
						}
					}
				default:
					atomic.StoreInt32(&fired, 2) // not applicable at this position
				}
				_ = info
			})
		} else {
			st.SetFault(func(ri *sim.ReqInfo) *sim.Fault {
				if ri.OpSeq == 0 || int(ri.OpSeq-base) != f.Pos || !atomic.CompareAndSwapInt32(&fired, 0, 1) {
					return nil
				}
				faultSync = ri.Tag
				switch f.Kind {
				case "500":
					return &sim.Fault{Code: 500}
				case "422":
					return &sim.Fault{Code: 422}
				case "410":
					return &sim.Fault{Code: 410}
				case "404-on-create", "409conflict-on-create":
					// a create refused for another reason than "already exists" (namespace gone, ...)
					// is not one of the benign races
					if ri.Verb != "create" {
						atomic.StoreInt32(&fired, 2) // not applicable at this position
						return nil
					}
					if f.Kind == "404-on-create" {
						return &sim.Fault{Code: 404, Reason: "NotFound"}
					}
					return &sim.Fault{Code: 409, Reason: "Conflict"}
				case "504-before":
					return &sim.Fault{Code: 504}
				case "504-after":
					return &sim.Fault{Code: 504, After: true}
				case "transport-before":
					return &sim.Fault{Transport: true}
				case "transport-after":
					return &sim.Fault{Transport: true, After: true}
				}
				return nil
			})
		}
	}
	if f != nil && f.Target == "hook" {
		w.hooks.SetOverride(func(call *sim.HookCall) *sim.HookResponse {
			n := int(atomic.AddInt32(&hookN, 1))
			if n != f.Pos || !atomic.CompareAndSwapInt32(&fired, 0, 1) {
				if sc.Rolling {
					// the per-revision calls of a rollout run in parallel: the one that fails answers at
					// once, its siblings take a little longer (a sync returns only when all were answered)
					time.Sleep(120 * time.Millisecond)
				}
				return nil
			}
			faultSync = call.Tag
			switch f.Kind {
			case "500":
				return &sim.HookResponse{Status: 500, Body: []byte("boom")}
			case "503":
				return &sim.HookResponse{Status: 503, Body: []byte("unavailable")}
			case "refused":
				return &sim.HookResponse{Err: fmt.Errorf("dial tcp: connect: connection refused")}
			case "garbage":
				return &sim.HookResponse{Status: 200, Body: []byte(`{"children": [`)}
			case "429":
				return &sim.HookResponse{Status: 429, Header: map[string]string{"Retry-After": "7"}}
			}
			return nil
		})
	} else {
		w.hooks.SetOverride(func(call *sim.HookCall) *sim.HookResponse { atomic.AddInt32(&hookN, 1); return nil })
	}

	viol := func(sig, detail string, sr *syncResult) {
		wit := map[string]interface{}{"scenario": sc, "fault": f}
		if sr != nil {
			wit["sync"] = sr.Tag
			wit["requests"] = sim.DescribeLog(sr.Requests, false)
			wit["hooks"] = describeHooks(sr.Hooks)
			wit["queue"] = sr.QueueOps
		}
		rep.Violation("C12", id, sig, detail, wit)
	}
	parentSyncs := 0
	errored := map[string]bool{}
	converged := false
	for round := 0; round < 60 && !converged; round++ {
		if !w.quiesce() {
			if f != nil {
				inconclusive(t, "C12", id, w.watchdog)
			}
			return nil
		}
		if w.q.Len() == 0 {
			if w.q.ReleaseDue(10*time.Second) == 0 {
				converged = true
			}
			continue
		}
		sr := w.stepWorker()
		if sr == nil {
			continue
		}
		if sr.Key == s.parentKey() {
			parentSyncs++
		}
		// reference data per sync
		set := map[string]bool{}
		status := false
		for _, q := range sr.Requests {
			if q.Actor != "mc" || !q.Mutating() {
				continue
			}
			if q.GVR == pgvr {
				if q.Sub == "status" {
					status = true
				}
				continue
			}
			if q.GVR.Resource == "controllerrevisions" {
				continue
			}
			name := q.Name
			if q.Verb == "create" {
				if b, ok := q.Body.(map[string]interface{}); ok {
					name = sim.Name(b)
				}
			}
			if q.Verb == "update" && isClaimWrite(q) {
				continue // claims
			}
			set[q.Verb+" "+q.GVR.Resource+" "+strings.ReplaceAll(name, s.ID, "ID")] = true
		}
		out.perSync = append(out.perSync, set)
		out.statusIn = append(out.statusIn, status)
		if f == nil {
			if sr.Err != nil {
				rep.Violation("C12", id, "fault-free-sync-failed", "a sync of the fault-free reference run reported an error", map[string]interface{}{"requests": sim.DescribeLog(sr.Requests, false), "hooks": describeHooks(sr.Hooks)})
			}
			continue
		}
		// ---- judge this sync
		hit := faultSync != "" && sr.Tag == faultSync && atomic.LoadInt32(&fired) == 1
		var addRL, forget, addAfter int
		var afterDelay time.Duration
		for _, op := range sr.QueueOps {
			if op.Key != sr.Key {
				continue
			}
			switch op.Op {
			case "AddRateLimited":
				addRL++
			case "Forget":
				forget++
			case "AddAfter":
				addAfter++
				afterDelay = op.Delay
			}
		}
		if sr.Panic != "" {
			continue // reported by M-PANIC (C13) and below as lost work if so
		}
		switch {
		case hit && f.Target == "hook" && f.Kind == "429":
			if addRL > 0 {
				viol("429-counted-as-error", "a 429 answer of the hook must re-queue the parent after the advertised delay without counting as an error; the key was re-queued rate-limited", sr)
			}
			if addAfter == 0 || afterDelay != 7*time.Second {
				viol("429-not-requeued-after-delay", fmt.Sprintf("a 429 answer with Retry-After: 7 must re-queue the parent after 7s; AddAfter calls=%d delay=%v", addAfter, afterDelay), sr)
			}
		case hit && !strings.HasPrefix(f.Kind, "race-"):
			// a 410 answer is not "object already gone": the object the request addressed still exists
			// in the store afterwards, so it is a hard fault like any other
			if addRL == 0 {
				viol("hard-fault-not-reported:"+f.Target+":"+f.Kind+":"+faultedVerb(sr), fmt.Sprintf("a %s fault hit this sync, yet the worker did not re-queue the parent with back-off (no error reported)", f.Kind), sr)
			}
			if addRL > 0 && forget > 0 {
				viol("forget-on-error", "the key was re-queued rate-limited and forgotten in the same sync", sr)
			}
		case hit && benign:
			if addRL > 0 {
				viol("benign-race-reported:"+f.Kind+":"+faultedVerb(sr), fmt.Sprintf("only a benign race (%s) happened in this sync, yet it was reported as an error", f.Kind), sr)
			}
		case !hit:
			// (4) a sync with no fault in it never fails
			if addRL > 0 {
				viol("fault-free-sync-failed", "a sync in which no fault was injected reported an error", sr)
			}
		}
		if addRL > 0 {
			errored[sr.Key] = true
		}
		if forget > 0 {
			delete(errored, sr.Key)
		}
		// (2) isolation: a failing child request must not stop the other children nor the status write
		if hit && f.Target == "api" && ref != nil && sr.Key == s.parentKey() && parentSyncs-1 < len(ref.perSync) {
			var faulted *sim.Request
			for _, q := range sr.Requests {
				if q.Fault != "" {
					faulted = q
				}
			}
			if faulted != nil && faulted.Mutating() && faulted.GVR != pgvr && faulted.GVR.Resource != "controllerrevisions" && !(faulted.Verb == "update" && isClaimWrite(faulted)) {
				want := ref.perSync[parentSyncs-1]
				var missing []string
				for k := range want {
					if !set[k] {
						missing = append(missing, k)
					}
				}
				sort.Strings(missing)
				if len(missing) > 0 {
					viol("one-bad-child-blocked-others", fmt.Sprintf("the request %s failed; compared with the fault-free run this sync did not issue: %v", faulted.String(), missing), sr)
				}
				if ref.statusIn[parentSyncs-1] && !statusAttempted(sr, pgvr) {
					viol("status-skipped-after-child-error", "a child request failed and the parent status write was not attempted", sr)
				}
			}
		}
	}
	out.apiOps = int(st.OpSeq() - base)
	out.hookOps = int(atomic.LoadInt32(&hookN))
	st.SetFault(nil)
	st.SetGate(nil)
	if !converged {
		if f != nil {
			viol("no-convergence-after-fault", "60 worker steps after a single fault the controller still has not gone quiet", nil)
		}
		return out
	}
	out.final = c12Normalize(r)
	if f == nil {
		return out
	}
	if len(errored) > 0 {
		viol("work-dropped", fmt.Sprintf("keys that failed were never synced successfully again: %v", errored), nil)
	}
	applicable := atomic.LoadInt32(&fired) == 1
	if applicable && ref != nil && f.Kind != "race-create" && !reflect.DeepEqual(out.final, ref.final) {
		viol("final-state-differs:"+f.Target+":"+f.Kind, "after the fault stopped the cluster converged to a state different from the fault-free run:\n"+diffMaps(ref.final, out.final), nil)
	}
	rep.Case("C12", id, applicable, fmt.Sprintf("%s/%s/%s/p%d", sc.Name, f.Target, f.Kind, f.Pos), map[string]interface{}{"scenario": sc, "fault": f, "applicable": applicable, "parentSyncs": parentSyncs})
	return out
}

func faultedVerb(sr *syncResult) string {
	for _, q := range sr.Requests {
		if q.Fault != "" {
			s := q.Verb + ":" + q.GVR.Resource
			if q.Sub != "" {
				s += "/" + q.Sub
			}
			return s
		}
	}
	for _, h := range sr.Hooks {
		if h.Status != 200 || h.Err != "" {
			return "hook:" + h.Path
		}
	}
	return "?"
}

func isClaimWrite(q *sim.Request) bool {
	body, _ := q.Body.(map[string]interface{})
	if body == nil || q.Pre == nil {
		return false
	}
	return sameExceptOwners(q.Pre, body)
}

func statusAttempted(sr *syncResult, pgvr interface{}) bool {
	for _, q := range sr.Requests {
		if q.Actor == "mc" && q.GVR.Resource == "things" && (q.Sub == "status" || q.Verb == "get") {
			// the status write starts with a fresh GET; the GET alone counts as an attempt when the
			// status is already equal
			if q.Sub == "status" {
				return true
			}
		}
	}
	// no PUT: acceptable only if the status was already equal, which the fault-free run excludes
	return false
}

func TestVerif_C12_Faults(t *testing.T) {
	scenarios := []c12Scenario{
		{Name: "plain", GenSel: false},
		{Name: "fin-gensel", Fin: true, GenSel: true},
		{Name: "rolling", Rolling: true},
		{Name: "finalizing", Fin: true, Deleting: true},
	}
	for _, sc := range scenarios {
		sc := sc
		ref := c12Run(t, sc, nil, nil)
		if ref == nil || ref.final == nil {
			sim.R().Inconclusive("C12", "c12-ref-"+sc.Name, "reference run failed")
			continue
		}
		sim.R().Note("C12", fmt.Sprintf("scenario %s: fault-free run = %d API requests, %d hook calls", sc.Name, ref.apiOps, ref.hookOps))
		var faults []c12Fault
		for p := 1; p <= ref.apiOps; p++ {
			for _, k := range c12APIFaults {
				faults = append(faults, c12Fault{"api", p, k})
			}
			for _, k := range c12Races {
				faults = append(faults, c12Fault{"api", p, k})
			}
		}
		for p := 1; p <= ref.hookOps; p++ {
			for _, k := range c12HookFaults {
				faults = append(faults, c12Fault{"hook", p, k})
			}
		}
		for _, f := range faults {
			f := f
			id := fmt.Sprintf("c12-%s-%s-p%d-%s", sc.Name, f.Target, f.Pos, f.Kind)
			if !sim.WantCase(id) {
				continue
			}
			t.Run(id, func(t *testing.T) {
				t.Parallel()
				c12Run(t, sc, &f, ref)
			})
		}
	}
}
