//go:build verif

package composite

import (
	"encoding/json"
	"fmt"
	"sort"
	"strings"

	env "metacontroller/pkg/verifenv"
	sim "metacontroller/pkg/verifsim"
)

// Rolling-update harness shared by C07, C08 and C09. Histories are made unambiguous by stamping:
// the hook program copies the revisioned parent field spec.template.rev and the (optionally)
// non-revisioned field spec.extra into every child, every parent edit uses a fresh value, so the
// store itself says which parent revision each child is at.

type rolloutCfg struct {
	Kind        string `json:"kind"`   // Widget | ConfigMap
	Method      string `json:"method"` // RollingInPlace | RollingRecreate
	N           int    `json:"n"`
	StatusCheck string `json:"statusCheck"`
	FieldPaths  bool   `json:"customFieldPaths"` // true: ["spec.template"]; false: default ["spec"]
	GenSel      bool   `json:"generateSelector"`
	OwnCond     bool   `json:"hookReturnsUpdatedCondition"`
	SSA         bool   `json:"ssa,omitempty"`
	Cluster     bool   `json:"clusterParent,omitempty"`
}

func (c rolloutCfg) key() string {
	return fmt.Sprintf("%s/%s/n%d/%s/fp%v/gs%v/oc%v", c.Kind, c.Method, c.N, c.StatusCheck, c.FieldPaths, c.GenSel, c.OwnCond)
}

type rollout struct {
	cfg  rolloutCfg
	sc   *scenario
	r    *scenarioRun
	revN int
	extN int
	// every sync judged
	syncs int
	moves int
	// violation sink
	caseID string
	// children whose content (not status) the environment edited; they may legitimately look
	// "not up to date" to metacontroller even when their stamps are right
	touchedByEnv map[string]bool
}

func newRollout(cfg rolloutCfg, caseID string) *rollout {
	uid := uniqueID("ro")
	sc := &scenario{ID: uid, GenerateSelector: cfg.GenSel, SSA: cfg.SSA, ClusterParent: cfg.Cluster,
		Kinds: []kindCfg{{Kind: cfg.Kind, Method: cfg.Method, StatusCheck: cfg.StatusCheck}}}
	if cfg.FieldPaths {
		sc.FieldPaths = []string{"spec.template"}
		if h := sim.Hash(caseID); h[0] >= '8' {
			// several field paths, some of which this parent never sets (optional fields listed
			// before and after the one that changes)
			sc.FieldPaths = []string{"spec.podAnnotations", "spec.template", "spec.neverSet.deep"}
		}
	}
	for i := 0; i < cfg.N; i++ {
		sc.Kids = append(sc.Kids, kidCfg{Kind: cfg.Kind, Name: fmt.Sprintf("c%d-%s", i, uid), Value: "v1"})
	}
	ro := &rollout{cfg: cfg, sc: sc, caseID: caseID, touchedByEnv: map[string]bool{}}
	ro.r = prepareScenario(sc)
	ro.r.w.caseID = caseID
	if cfg.OwnCond {
		ro.r.w.sim.ExtMutate(sc.parentInfo().GVR(), sc.ns(), sc.parentName(), func(o sim.Obj) {
			sim.SetNested(o, sim.Obj{"conditions": []interface{}{
				sim.Obj{"type": "Available", "status": "True"},
				ownUpdatedCondition(caseID),
			}}, "spec", "statusExtra")
		})
	}
	return ro
}

// hookMadeMessage is the message of the Updated condition the hook itself returns: whatever the
// sync writes must be the controller's own account of the rollout, so this text must never survive.
const hookMadeMessage = "hook-made message"

// ownUpdatedCondition is the Updated condition a hook returns on its own (determined by the case):
// with a status that the rollout never computes, or with the very status - and even the reason -
// the rollout is about to compute, so that "same status, nothing to do" short cuts show.
func ownUpdatedCondition(caseID string) sim.Obj {
	switch sim.Hash("owncond" + caseID)[0] % 5 {
	case 0:
		return sim.Obj{"type": "Updated", "status": "Unknown", "reason": "HookSaysSo", "message": hookMadeMessage}
	case 1:
		return sim.Obj{"type": "Updated", "status": "False", "reason": "HookSaysSo", "message": hookMadeMessage}
	case 2:
		return sim.Obj{"type": "Updated", "status": "True", "reason": "HookSaysSo", "message": hookMadeMessage}
	case 3:
		return sim.Obj{"type": "Updated", "status": "False", "reason": "RolloutWaiting", "message": hookMadeMessage}
	}
	return sim.Obj{"type": "Updated", "status": "True", "reason": "OnLatestRevision", "message": hookMadeMessage}
}

func (ro *rollout) close() { ro.r.close() }

func (ro *rollout) gvr() sim.ResourceInfo { return kindInfo(ro.cfg.Kind) }

func (ro *rollout) field() string {
	if ro.cfg.Kind == "ConfigMap" {
		return "data"
	}
	return "spec"
}

func (ro *rollout) stamp(o sim.Obj, which string) string {
	return sim.NestedString(o, ro.field(), which)
}

func (ro *rollout) children() []sim.Obj {
	var out []sim.Obj
	for _, o := range ro.r.w.sim.PeekAll(ro.gvr().GVR()) {
		if c := sim.ControllerOf(o); c != nil && c.UID == sim.UID(ro.r.parent) {
			out = append(out, o)
		}
	}
	return out
}

func (ro *rollout) childNS() string { return ro.sc.childNS(kidCfg{Kind: ro.cfg.Kind}) }

func (ro *rollout) child(name string) sim.Obj {
	return ro.r.w.sim.Peek(ro.gvr().GVR(), ro.childNS(), name)
}

// ---- environment actions ----

func (ro *rollout) editParent(fn func()) {
	fn()
	if !ro.cfg.FieldPaths {
		// default fieldPaths ["spec"]: every spec edit opens a new parent revision; give it a fresh
		// stamp so that revisions stay distinguishable in the store
		ro.revN++
		ro.r.rev = fmt.Sprintf("r%d", ro.revN+1)
	}
	s := ro.r.w.sim
	s.ExtMutate(ro.sc.parentInfo().GVR(), ro.sc.ns(), ro.sc.parentName(), func(o sim.Obj) {
		np := ro.sc.parentObject(ro.r.kids, ro.r.rev, ro.r.extra)
		nspec := np["spec"].(map[string]interface{})
		if se, ok := sim.Nested(o, "spec", "statusExtra"); ok {
			nspec["statusExtra"] = se
		}
		o["spec"] = nspec
	})
}

func (ro *rollout) newRev() {
	ro.editParent(func() {
		if ro.cfg.FieldPaths {
			ro.revN++
			ro.r.rev = fmt.Sprintf("r%d", ro.revN+1)
		}
	})
}

func (ro *rollout) newExtra() {
	ro.extN++
	ro.editParent(func() { ro.r.extra = fmt.Sprintf("e%d", ro.extN+1) })
}

func (ro *rollout) scale(delta int) bool {
	if delta < 0 && len(ro.r.kids) <= 1 {
		return false
	}
	ro.editParent(func() {
		if delta > 0 {
			ro.r.kids = append(ro.r.kids, kidCfg{Kind: ro.cfg.Kind, Name: fmt.Sprintf("c%d-%s", len(ro.r.kids)+ro.revN+ro.extN+10, ro.sc.ID), Value: "v1"})
		} else {
			ro.r.kids = ro.r.kids[:len(ro.r.kids)-1]
		}
	})
	return true
}

// health patterns
var healthPatterns = []string{"healthy", "no-condition", "status-false", "reason-wrong", "stale-generation", "no-status"}

func (ro *rollout) setHealth(name, pattern string) bool {
	if !ro.gvr().HasStatus {
		return false
	}
	s := ro.r.w.sim
	o := s.Peek(ro.gvr().GVR(), ro.childNS(), name)
	if o == nil {
		return false
	}
	gen, _ := sim.Nested(o, "metadata", "generation")
	g, _ := gen.(int64)
	st := sim.Obj{"ready": pattern == "healthy"}
	cond := sim.Obj{"type": "Ready", "status": "True", "reason": "Ok"}
	switch pattern {
	case "healthy":
		st["conditions"] = []interface{}{cond}
		st["observedGeneration"] = g
	case "no-condition":
		st["conditions"] = []interface{}{sim.Obj{"type": "Other", "status": "True"}}
		st["observedGeneration"] = g
	case "status-false":
		cond["status"] = "False"
		st["conditions"] = []interface{}{cond}
		st["observedGeneration"] = g
	case "reason-wrong":
		cond["reason"] = "Nope"
		st["conditions"] = []interface{}{cond}
		st["observedGeneration"] = g
	case "stale-generation":
		st["conditions"] = []interface{}{cond}
		if g > 1 {
			st["observedGeneration"] = g - 1
		} else {
			st["observedGeneration"] = g
		}
	case "no-status":
		st = nil
	}
	o2 := sim.DeepCopy(o)
	if st == nil {
		delete(o2, "status")
	} else {
		o2["status"] = st
	}
	delete(o2["metadata"].(map[string]interface{}), "resourceVersion")
	_, err := s.ExtUpdateStatus(ro.gvr().GVR(), o2)
	return err == nil
}

func (ro *rollout) healAll() {
	for _, o := range ro.children() {
		ro.setHealth(sim.Name(o), "healthy")
	}
}

func (ro *rollout) deleteChild(name string) bool {
	return ro.r.w.sim.ExtDelete(ro.gvr().GVR(), ro.childNS(), name, "") == nil
}

// passesChecks mirrors the *documented* meaning of the configured status checks.
func (ro *rollout) passesChecks(o sim.Obj) bool {
	if ro.cfg.StatusCheck == "" {
		return true
	}
	conds, _ := sim.Nested(o, "status", "conditions")
	cl, _ := conds.([]interface{})
	for _, c := range cl {
		cm, _ := c.(map[string]interface{})
		if t, _ := cm["type"].(string); t != "Ready" {
			continue
		}
		if strings.Contains(ro.cfg.StatusCheck, "status") {
			if s, _ := cm["status"].(string); s != "True" {
				return false
			}
		}
		if strings.Contains(ro.cfg.StatusCheck, "reason") {
			if s, _ := cm["reason"].(string); s != "Ok" {
				return false
			}
		}
		return true
	}
	return false
}

func (ro *rollout) observedLatestGeneration(o sim.Obj) bool {
	if ro.cfg.Method != "RollingInPlace" {
		return true
	}
	og, _ := sim.Nested(o, "status", "observedGeneration")
	ogv, _ := og.(int64)
	if ogv <= 0 {
		return true // not reported
	}
	gen, _ := sim.Nested(o, "metadata", "generation")
	g, _ := gen.(int64)
	return ogv >= g
}

// ---- revisions ----

type revInfo struct {
	Name     string
	Rev      string // stamp recorded in the revision's parentPatch
	Children []string
	UID      string
}

func (ro *rollout) revisions() []revInfo {
	var out []revInfo
	for _, o := range ro.r.w.sim.PeekAll(env.RevisionGVR) {
		if sim.NS(o) != ro.sc.ns() {
			continue
		}
		ri := revInfo{Name: sim.Name(o), UID: sim.UID(o)}
		ri.Rev = sim.NestedString(o, "parentPatch", "spec", "template", "rev")
		cl, _ := o["children"].([]interface{})
		for _, c := range cl {
			cm, _ := c.(map[string]interface{})
			names, _ := cm["names"].([]interface{})
			for _, n := range names {
				if s, ok := n.(string); ok {
					ri.Children = append(ri.Children, s)
				}
			}
		}
		out = append(out, ri)
	}
	return out
}

// ---- per-sync trace monitor (C07) and order oracle (C09) ----

type rolloutSnapshot struct {
	Children map[string]sim.Obj // name -> object before the sync
	Revs     []revInfo
	Parent   sim.Obj
}

func (ro *rollout) snapshot() rolloutSnapshot {
	snap := rolloutSnapshot{Children: map[string]sim.Obj{}, Revs: ro.revisions(), Parent: ro.r.liveParent()}
	for _, o := range ro.children() {
		snap.Children[sim.Name(o)] = o
	}
	return snap
}

type rolloutVerdict struct {
	Moves      []string
	Condition  sim.Obj
	NumUpdated int
}

func (ro *rollout) viol(prop, sig, detail string, sr *syncResult, before rolloutSnapshot) {
	w := map[string]interface{}{"cfg": ro.cfg}
	if sr != nil {
		w["sync"] = sr.Tag
		w["err"] = fmt.Sprint(sr.Err)
		w["requests"] = sim.DescribeLog(sr.Requests, false)
		w["hooks"] = describeHooks(sr.Hooks)
	}
	var kids []string
	for n, o := range before.Children {
		kids = append(kids, fmt.Sprintf("%s rev=%s extra=%s status=%v", n, ro.stamp(o, "rev"), ro.stamp(o, "extra"), o["status"]))
	}
	sort.Strings(kids)
	w["childrenBefore"] = kids
	w["revisionsBefore"] = before.Revs
	sim.R().Violation(prop, ro.caseID, sig, detail, w)
}

// latestHookChildren returns the order of children in the response of the hook call made for the
// latest parent revision (the request whose parent carries the current rev stamp).
func (ro *rollout) latestHookChildren(sr *syncResult, latestRev string) ([]string, bool) {
	for _, h := range sr.Hooks {
		if h.Path != "sync" || h.Status != 200 {
			continue
		}
		if sim.NestedString(h.Req, "parent", "spec", "template", "rev") != latestRev {
			continue
		}
		var resp sim.Obj
		if err := json.Unmarshal(h.RespRaw, &resp); err != nil {
			continue
		}
		var names []string
		cl, _ := resp["children"].([]interface{})
		for _, c := range cl {
			if cm, ok := c.(map[string]interface{}); ok {
				names = append(names, sim.Name(cm))
			}
		}
		return names, true
	}
	return nil, false
}

// judgeSync applies the C07 trace monitor and the C09 order oracle to one sync.
func (ro *rollout) judgeSync(before rolloutSnapshot, sr *syncResult) rolloutVerdict {
	v := rolloutVerdict{}
	ro.syncs++
	if sr.Cached == nil {
		return v
	}
	cachedParent := sim.Obj(sr.Cached.Object)
	latestRev := sim.NestedString(cachedParent, "spec", "template", "rev")
	latestExtra := sim.NestedString(cachedParent, "spec", "extra")
	gvr := ro.gvr().GVR()

	// --- C09 order oracle: revision writes precede child writes; a failed one forbids child writes
	firstChildMut, lastRevMut := int64(-1), int64(-1)
	revFailed := false
	for _, q := range sr.Requests {
		if q.Actor != "mc" || !q.Mutating() {
			continue
		}
		if q.GVR == env.RevisionGVR {
			// adoption/release of revisions are ownership edits, not rollout records
			lastRevMut = q.Seq
			if !q.OK() {
				revFailed = true
			}
		}
		if q.GVR == gvr && firstChildMut < 0 {
			// claims (adopt/release) of children happen before the hook; only content writes count
			if q.Verb == "update" && q.Pre != nil && q.Post != nil && sameExceptOwners(q.Pre, q.Post) {
				continue
			}
			firstChildMut = q.Seq
		}
	}
	if firstChildMut >= 0 && lastRevMut > firstChildMut {
		ro.viol("C09", "revision-write-after-child-write", "a ControllerRevision was written after a child had already been created/updated/deleted in the same sync", sr, before)
	}
	if revFailed && firstChildMut >= 0 {
		ro.viol("C09", "child-write-after-failed-revision-write", "a ControllerRevision write was not accepted, yet a child was written in the same sync", sr, before)
	}

	// which revision recorded each child before the sync
	recorded := map[string]string{} // child -> rev stamp of the revision that names it
	var latestRecorded []string
	// a child named by two revisions (possible after an interrupted sync) belongs to the newer
	// one: "latest wins" is the documented resolution
	for _, r := range before.Revs {
		for _, c := range r.Children {
			if prev, dup := recorded[c]; !dup || r.Rev == latestRev || (prev != latestRev && revIndex(r.Rev) > revIndex(prev)) {
				recorded[c] = r.Rev
			}
		}
	}
	for c, rv := range recorded {
		if rv == latestRev {
			latestRecorded = append(latestRecorded, c)
		}
	}
	sort.Strings(latestRecorded)
	order, haveOrder := ro.latestHookChildren(sr, latestRev)
	desired := map[string]bool{}
	for _, n := range order {
		desired[n] = true
	}

	// --- moves: the ControllerRevision objects are the durable record of which parent revision
	// a child is assigned to; a child "moves" when its record goes from an older revision to the
	// latest one during this sync and it needs a real change to get there.
	recordedAfter := map[string]string{}
	for _, r := range ro.revisions() {
		for _, c := range r.Children {
			prev, dup := recordedAfter[c]
			if dup && prev != r.Rev && sr.Err == nil {
				ro.viol("C09", "child-recorded-in-two-revisions", fmt.Sprintf("after a successful sync child %s is still named by two ControllerRevisions (%s and %s)", c, prev, r.Rev), sr, before)
			}
			if !dup || r.Rev == latestRev || (prev != latestRev && revIndex(r.Rev) > revIndex(prev)) {
				recordedAfter[c] = r.Rev
			}
		}
	}
	written := map[string][]*sim.Request{}
	for _, q := range sr.Requests {
		if q.Actor == "mc" && q.Mutating() && q.GVR == gvr && q.OK() && q.Applied {
			if q.Verb == "update" && sameExceptOwners(q.Pre, q.Post) {
				continue
			}
			written[q.Name] = append(written[q.Name], q)
		}
	}
	needsChange := func(name string) bool {
		o := before.Children[name]
		if o == nil {
			return true
		}
		return ro.stamp(o, "rev") != latestRev || ro.stamp(o, "extra") != latestExtra || !ro.kidValueCurrent(name, o)
	}
	for name, was := range recorded {
		if was == latestRev || recordedAfter[name] != latestRev {
			continue
		}
		if needsChange(name) {
			v.Moves = append(v.Moves, name)
		}
	}
	sort.Strings(v.Moves)
	ro.moves += len(v.Moves)
	if len(v.Moves) > 1 {
		ro.viol("C07", "more-than-one-move:"+ro.cfg.Method, fmt.Sprintf("one sync moved %d children that need a real change from an older parent revision to the latest: %v", len(v.Moves), v.Moves), sr, before)
	}
	if len(v.Moves) == 1 && haveOrder {
		moved := v.Moves[0]
		// (b) first, in hook order, among the children that needed a real change
		for _, n := range order {
			if n == moved {
				break
			}
			if was, ok := recorded[n]; ok && was != latestRev && needsChange(n) {
				ro.viol("C07", "move-out-of-hook-order:"+ro.cfg.Method, fmt.Sprintf("moved %s although %s comes earlier in the hook's list and also needs the update", moved, n), sr, before)
				break
			}
		}
		// (c) health gate
		for _, n := range latestRecorded {
			if !desired[n] {
				continue
			}
			o := before.Children[n]
			why := ""
			switch {
			case o == nil:
				why = "was not observed (missing)"
			case ro.stamp(o, "rev") != latestRev || ro.stamp(o, "extra") != latestExtra:
				why = fmt.Sprintf("is not up to date (rev=%s extra=%s, latest rev=%s extra=%s)", ro.stamp(o, "rev"), ro.stamp(o, "extra"), latestRev, latestExtra)
			case !ro.observedLatestGeneration(o):
				why = "has not observed its latest generation"
			case !ro.passesChecks(o):
				why = fmt.Sprintf("fails the configured status check %q (status=%v)", ro.cfg.StatusCheck, o["status"])
			}
			if why != "" {
				cls := strings.SplitN(why, " (", 2)[0]
				ro.viol("C07", "moved-despite-unhealthy:"+ro.cfg.Method+":"+cls, fmt.Sprintf("moved %s although child %s, already on the latest revision, %s", moved, n, why), sr, before)
				break
			}
		}
	}
	// (d) every child written in this sync is written towards the desired state of the revision it
	// is assigned to once this sync's bookkeeping is done (intent first, then action)
	for name, qs := range written {
		want, isRecorded := recordedAfter[name]
		if !isRecorded {
			continue
		}
		for _, q := range qs {
			if q.Post == nil {
				continue
			}
			if got := ro.stamp(q.Post, "rev"); got != want {
				ro.viol("C07", "child-written-at-wrong-revision:"+q.Verb, fmt.Sprintf("child %s is assigned to parent revision %s but was %sd with rev=%s (latest is %s)", name, want, q.Verb, got, latestRev), sr, before)
			}
		}
	}
	// (e) a change of the non-revisioned field reaches all children in one sync
	if ro.cfg.FieldPaths && sr.Err == nil {
		for n, o := range before.Children {
			if !desired[n] || sim.IsDeleting(o) {
				continue
			}
			if ro.stamp(o, "extra") != latestExtra && len(written[n]) == 0 {
				ro.viol("C07", "non-revisioned-change-not-applied-at-once", fmt.Sprintf("child %s still carries extra=%s; the parent's non-revisioned field is %s, but this sync did not write it", n, ro.stamp(o, "extra"), latestExtra), sr, before)
				break
			}
		}
	}
	// (f) the Updated condition
	if sr.Err == nil && !sr.noStatusStage() {
		after := ro.r.liveParent()
		conds, _ := sim.Nested(after, "status", "conditions")
		cl, _ := conds.([]interface{})
		var upd []sim.Obj
		for _, c := range cl {
			if cm, ok := c.(map[string]interface{}); ok {
				if t, _ := cm["type"].(string); t == "Updated" {
					upd = append(upd, cm)
				}
			}
		}
		v.NumUpdated = len(upd)
		if len(upd) != 1 {
			ro.viol("C07", fmt.Sprintf("updated-condition-count:%d:hookcond=%v", len(upd), ro.cfg.OwnCond), fmt.Sprintf("parent status carries %d Updated conditions, want exactly one: %v", len(upd), cl), sr, before)
		} else {
			v.Condition = upd[0]
			st, _ := upd[0]["status"].(string)
			reason, _ := upd[0]["reason"].(string)
			msg, _ := upd[0]["message"].(string)
			okShape := (st == "True" && reason == "OnLatestRevision") || (st == "False" && (reason == "RolloutWaiting" || reason == "RolloutProgressing"))
			if msg == hookMadeMessage {
				ro.viol("C07", fmt.Sprintf("updated-condition-is-the-hooks-own:%s/%s", st, reason), fmt.Sprintf("the Updated condition still carries the message the hook returned (status=%q reason=%q message=%q); it must be the controller's account of this sync", st, reason, msg), sr, before)
			} else if !okShape {
				ro.viol("C07", fmt.Sprintf("updated-condition-shape:%s/%s:hookcond=%v", st, reason, ro.cfg.OwnCond), fmt.Sprintf("the Updated condition is status=%q reason=%q message=%q; it must tell waiting / progressing / complete", st, reason, msg), sr, before)
			} else {
				// complete must mean complete: no desired child left on an older revision record
				stale := []string{}
				for _, r := range ro.revisions() {
					if r.Rev != latestRev {
						for _, c := range r.Children {
							if desired[c] {
								stale = append(stale, c)
							}
						}
					}
				}
				if st == "True" && len(stale) > 0 && haveOrder {
					ro.viol("C07", "updated-true-while-rolling", fmt.Sprintf("Updated=True although %v are still assigned to an older revision", stale), sr, before)
				}
				if reason == "RolloutProgressing" && len(v.Moves) == 0 && ro.cfg.Method == "RollingInPlace" && !ro.cfg.SSA {
					// with in-place updates a progressing rollout must have changed the child it names
					if !strings.Contains(msg, "updating") {
						ro.viol("C07", "progressing-without-message", "RolloutProgressing without saying which child", sr, before)
					}
				}
				if reason == "RolloutProgressing" && len(v.Moves) == 1 && !strings.Contains(msg, v.Moves[0]) {
					// "progressing" says which child this sync is updating: the one whose record moved
					ro.viol("C07", "progressing-names-another-child", fmt.Sprintf("RolloutProgressing says %q, but the child moved to the latest revision in this sync is %s", msg, v.Moves[0]), sr, before)
				}
				if reason == "RolloutWaiting" && msg == "" {
					ro.viol("C07", "waiting-without-reason", "RolloutWaiting without a message saying why", sr, before)
				}
			}
		}
	}
	// C08: a rollout never waits on a child that exists, is up to date and passes its checks
	if v.Condition != nil {
		if reason, _ := v.Condition["reason"].(string); reason == "RolloutWaiting" {
			allFine := true
			// the children the latest revision names once this sync's bookkeeping is done (children
			// added to it during this very sync included), judged by their state before the sync
			var latestAfter []string
			for c, rv := range recordedAfter {
				if rv == latestRev {
					latestAfter = append(latestAfter, c)
				}
			}
			sort.Strings(latestAfter)
			if len(latestAfter) == 0 {
				allFine = false // nothing on the latest revision: the message cannot be about a healthy child
			}
			for _, n := range latestAfter {
				if !desired[n] {
					continue
				}
				o := before.Children[n]
				if o == nil || sim.IsDeleting(o) || ro.stamp(o, "rev") != latestRev || ro.stamp(o, "extra") != latestExtra || !ro.kidValueCurrent(n, o) ||
					!ro.observedLatestGeneration(o) || !ro.passesChecks(o) || ro.touchedByEnv[n] {
					allFine = false
				}
			}
			if allFine && haveOrder {
				msg, _ := v.Condition["message"].(string)
				ro.viol("C08", "waits-on-healthy-children:"+normalizeErr(ro.sc.ID, msg), fmt.Sprintf("the rollout reports RolloutWaiting (%q) although every child on the latest revision %v exists, is up to date and passes its status checks", msg, latestAfter), sr, before)
			}
		}
	}
	return v
}

// kidValueCurrent tells whether the child's value stamp equals what the parent currently wants
// (so that a delete cannot be explained by a value change).
func (ro *rollout) kidValueCurrent(name string, o sim.Obj) bool {
	for _, k := range ro.r.kids {
		if k.Name == name {
			return ro.stamp(o, "value") == k.Value
		}
	}
	return false
}

func sameExceptOwners(a, b sim.Obj) bool {
	if a == nil || b == nil {
		return false
	}
	strip := func(o sim.Obj) sim.Obj {
		c := sim.DeepCopy(o)
		m := c["metadata"].(map[string]interface{})
		delete(m, "ownerReferences")
		delete(m, "resourceVersion")
		return c
	}
	x, _ := json.Marshal(strip(a))
	y, _ := json.Marshal(strip(b))
	return string(x) == string(y)
}

// noStatusStage: the sync ended before the status write stage (no parent status request at all and
// nothing to judge), e.g. parent not found.
func (sr *syncResult) noStatusStage() bool {
	return len(sr.Hooks) == 0
}

// syncOnce quiesces, snapshots, runs every queued sync of the parent and judges each.
func (ro *rollout) syncOnce(force bool) ([]*syncResult, []rolloutVerdict, bool) {
	w := ro.r.w
	if !w.quiesce() {
		return nil, nil, false
	}
	if force {
		w.q.Add(ro.sc.parentKey())
	}
	var srs []*syncResult
	var vs []rolloutVerdict
	n := w.q.Len()
	for i := 0; i < n; i++ {
		before := ro.snapshot()
		sr := w.step()
		if sr == nil {
			break
		}
		srs = append(srs, sr)
		vs = append(vs, ro.judgeSync(before, sr))
		if !w.quiesce() {
			return srs, vs, false
		}
	}
	return srs, vs, true
}

// settle runs rounds until the queue stays empty (bounded).
func (ro *rollout) settle(max int) (int, bool, bool) {
	for i := 0; i < max; i++ {
		srs, _, ok := ro.syncOnce(false)
		if !ok {
			return i, false, false
		}
		if len(srs) == 0 {
			return i, true, true
		}
	}
	return max, false, true
}

// complete reports whether the rollout has finished: every desired child carries the latest
// stamps, Updated is True and exactly one ControllerRevision (the latest) remains.
func (ro *rollout) complete() (bool, string) {
	for _, k := range ro.r.kids {
		o := ro.child(k.Name)
		if o == nil {
			return false, "child " + k.Name + " missing"
		}
		if ro.stamp(o, "rev") != ro.r.rev || ro.stamp(o, "extra") != ro.r.extra {
			return false, fmt.Sprintf("child %s at rev=%s extra=%s, parent at rev=%s extra=%s", k.Name, ro.stamp(o, "rev"), ro.stamp(o, "extra"), ro.r.rev, ro.r.extra)
		}
	}
	p := ro.r.liveParent()
	want := map[string]bool{}
	for _, k := range ro.r.kids {
		want[k.Name] = true
	}
	for _, o := range ro.r.w.sim.PeekAll(ro.gvr().GVR()) {
		if c := sim.ControllerOf(o); p != nil && c != nil && c.UID == sim.UID(p) && !want[sim.Name(o)] && !sim.IsDeleting(o) {
			return false, "child " + sim.Name(o) + " is no longer desired by the latest revision but still exists"
		}
	}
	conds, _ := sim.Nested(p, "status", "conditions")
	cl, _ := conds.([]interface{})
	okCond := false
	for _, c := range cl {
		cm, _ := c.(map[string]interface{})
		if t, _ := cm["type"].(string); t == "Updated" {
			if s, _ := cm["status"].(string); s == "True" {
				okCond = true
			}
		}
	}
	if !okCond {
		return false, fmt.Sprintf("Updated condition is not True: %v", cl)
	}
	revs := ro.revisions()
	if len(revs) != 1 || revs[0].Rev != ro.r.rev {
		return false, fmt.Sprintf("ControllerRevisions left: %v (latest rev %s)", revs, ro.r.rev)
	}
	return true, ""
}
