//go:build verif

package composite

import (
	"encoding/json"
	"fmt"
	"math/rand"
	"sync/atomic"
	"testing"

	sim "metacontroller/pkg/verifsim"
)

// C10 - finalizer: added first, honoured on deletion, removed only when finalized.
// Random walks over the parent's life cycle, judged by a temporal monitor over the merged
// request + hook log.

type c10Step struct {
	Op  string `json:"op"`
	Arg string `json:"arg,omitempty"`
}

type c10Walk struct {
	Finalize  string    `json:"finalizeProgram"` // step | all | never
	HookAtT0  bool      `json:"finalizeHookInitially"`
	Rolling   bool      `json:"rolling"`
	Kids      int       `json:"kids"`
	Steps     []c10Step `json:"steps"`
	FaultKind string    `json:"faultKind,omitempty"` // "", 409, 500, 422
}

var c10Ops = []string{"unmatch", "rematch", "delete-background", "delete-foreground", "delete-orphan", "strip-finalizer", "toggle-finalize-hook", "edit-spec", "gc", "fault-next-parent-write", "resync"}

func genC10(rng *rand.Rand) c10Walk {
	w := c10Walk{Finalize: eagerTurn([]string{"step", "all", "never"}[rng.Intn(3)]), HookAtT0: rng.Intn(4) != 0, Rolling: rng.Intn(4) == 0, Kids: 1 + rng.Intn(3)}
	n := 4 + rng.Intn(8)
	for i := 0; i < n; i++ {
		w.Steps = append(w.Steps, c10Step{Op: c10Ops[rng.Intn(len(c10Ops))], Arg: []string{"409", "500", "422"}[rng.Intn(3)]})
	}
	return w
}

func TestVerif_C10_Walks(t *testing.T) {
	rng := sim.Rand("C10")
	n := sim.Pick(150, 3000)
	for i := 0; i < n; i++ {
		w := genC10(rng)
		id := fmt.Sprintf("c10-w%d", i)
		if !sim.WantCase(id) {
			continue
		}
		t.Run(id, func(t *testing.T) {
			t.Parallel()
			runC10(t, id, w)
		})
	}
	// all short walks, exhaustively (thorough)
	if sim.Thorough() {
		ops := []string{"unmatch", "rematch", "delete-background", "delete-foreground", "strip-finalizer", "toggle-finalize-hook"}
		var rec func(prefix []c10Step, depth int)
		k := 0
		rec = func(prefix []c10Step, depth int) {
			if depth == 0 {
				for _, fin := range []string{"step", "never"} {
					w := c10Walk{Finalize: fin, HookAtT0: true, Kids: 2, Steps: append([]c10Step(nil), prefix...)}
					id := fmt.Sprintf("c10-x%d", k)
					k++
					if sim.WantCase(id) {
						t.Run(id, func(t *testing.T) {
							t.Parallel()
							runC10(t, id, w)
						})
					}
				}
				return
			}
			for _, op := range ops {
				rec(append(prefix, c10Step{Op: op}), depth-1)
			}
		}
		for d := 1; d <= 4; d++ {
			rec(nil, d)
		}
	}
}

func runC10(t *testing.T, id string, walk c10Walk) {
	rep := sim.R()
	rep.Begin("C10", id)
	uid := uniqueID("f")
	method := "InPlace"
	if walk.Rolling {
		method = "RollingInPlace"
	}
	sc := &scenario{ID: uid, Finalize: walk.HookAtT0, ParentSelector: true, Kinds: []kindCfg{{Kind: "Widget", Method: method}}}
	for i := 0; i < walk.Kids; i++ {
		sc.Kids = append(sc.Kids, kidCfg{Kind: "Widget", Name: fmt.Sprintf("k%d-%s", i, uid), Value: "v1"})
	}
	r := prepareScenario(sc)
	defer r.close()
	w := r.w
	w.caseID = id
	s := w.sim
	pgvr := sc.parentInfo().GVR()
	finName := "metacontroller.io/compositecontroller-" + uid
	// finalize program selection travels in the parent's spec
	s.ExtMutate(pgvr, sc.ns(), sc.parentName(), func(o sim.Obj) { sim.SetNested(o, walk.Finalize, "spec", "finalize") })
	if walk.Finalize == "never" {
		w.hooks.HandleJSON("finalize", func(req sim.Obj) sim.Obj {
			// keep every observed child, never finalized
			resp := sim.CompositeProgram(sim.Obj{"parent": req["parent"], "children": req["children"], "finalizing": false})
			resp["finalized"] = false
			return resp
		})
	}
	if err := w.start(); err != nil {
		inconclusive(t, "C10", id, err)
		return
	}
	defer func() { w.flushCounters("C10") }()
	hookOn := walk.HookAtT0
	parentUID := sim.UID(r.parent)
	var pendingFault int32
	faultCode := 0
	s.SetFault(func(ri *sim.ReqInfo) *sim.Fault {
		if ri.GVR == pgvr && ri.Verb == "update" && ri.Sub == "" && atomic.CompareAndSwapInt32(&pendingFault, 1, 0) {
			return &sim.Fault{Code: faultCode}
		}
		return nil
	})

	viol := func(sig, detail string, sr *syncResult) {
		wit := map[string]interface{}{"walk": walk}
		if sr != nil {
			wit["sync"] = sr.Tag
			wit["requests"] = sim.DescribeLog(sr.Requests, false)
			wit["hooks"] = describeHooks(sr.Hooks)
			wit["err"] = fmt.Sprint(sr.Err)
			if sr.Cached != nil {
				wit["cachedParentMeta"] = sr.Cached.Object["metadata"]
			}
		}
		rep.Violation("C10", id, sig, detail, wit)
	}
	hasFin := func(o sim.Obj, f string) bool { return o != nil && sim.HasFinalizer(o, f) }
	judged := 0
	finalizeCalls, finalizerRemovals, finalizerAdds := 0, 0, 0

	judge := func(sr *syncResult) {
		if sr.Cached == nil || string(sr.Cached.GetUID()) != parentUID {
			return
		}
		judged++
		cached := sim.Obj(sr.Cached.Object)
		deleting := sim.IsDeleting(cached)
		matches := sim.Labels(cached)["managed-by"] == uid
		hasOurs := hasFin(cached, finName)
		gcFin := hasFin(cached, "foregroundDeletion") || hasFin(cached, "orphan")
		// state of the stored parent as the sync progresses
		cur := sim.DeepCopy(cached)
		firstCreateChecked := false
		allFinalized := len(sr.Hooks) > 0
		syncURL, finalizeURL := 0, 0
		for _, h := range sr.Hooks {
			switch h.Path {
			case "sync":
				syncURL++
				if fz, _ := h.Req["finalizing"].(bool); fz {
					viol("sync-hook-with-finalizing-true", "the sync hook was called with finalizing: true", sr)
				}
			case "finalize":
				finalizeURL++
				finalizeCalls++
				if fz, _ := h.Req["finalizing"].(bool); !fz {
					viol("finalize-hook-without-finalizing", "the finalize hook was called with finalizing: false", sr)
				}
			}
			var resp sim.Obj
			if h.Status != 200 || json.Unmarshal(h.RespRaw, &resp) != nil {
				allFinalized = false
				continue
			}
			if f, _ := resp["finalized"].(bool); !f {
				allFinalized = false
			}
		}
		if syncURL+finalizeURL > 0 {
			wantFinalize := hookOn && (deleting || !matches)
			// the finalizer may have been added/removed at the start of this very sync; what matters
			// for hook selection is deletion and selector, as the statement says
			if wantFinalize && syncURL > 0 {
				viol("sync-hook-instead-of-finalize", fmt.Sprintf("parent deleting=%v matches=%v with a finalize hook configured: the sync hook was called", deleting, matches), sr)
			}
			if !wantFinalize && finalizeURL > 0 {
				viol("finalize-hook-instead-of-sync", fmt.Sprintf("parent deleting=%v matches=%v finalizeHook=%v: the finalize hook was called", deleting, matches, hookOn), sr)
			}
		}
		childMut := 0
		finalizerJustRemoved := false
		for _, q := range sr.Requests {
			if q.GVR == pgvr && q.Name == sc.parentName() && q.Applied && q.Post != nil {
				cur = q.Post
			}
			if q.Actor != "mc" {
				continue
			}
			if q.GVR == pgvr && q.Name == sc.parentName() && q.Verb == "update" && q.Sub == "" {
				body, _ := q.Body.(map[string]interface{})
				bodyHas := body != nil && sim.HasFinalizer(body, finName)
				preHas := hasFin(q.Pre, finName)
				if bodyHas && !preHas {
					finalizerAdds++
					if deleting {
						viol("finalizer-added-to-deleting-parent", "an add-finalizer request was issued in a sync whose cached parent is already being deleted", sr)
					}
					if !hookOn {
						viol("finalizer-added-without-finalize-hook", "the finalizer was added although no finalize hook is configured", sr)
					}
				}
				if preHas && !bodyHas && q.OK() && q.Applied {
					finalizerRemovals++
					if sim.IsDeleting(q.Pre) {
						finalizerJustRemoved = true // (the store may have let the object go with it)
					}
					if hookOn && !allFinalized {
						viol("finalizer-removed-without-finalized", fmt.Sprintf("the finalizer was removed in a sync whose hook answers did not all say finalized: true (hooks: %v)", describeHooks(sr.Hooks)), sr)
					}
				}
			}
			if q.Mutating() && q.GVR != pgvr && q.GVR.Resource == "widgets" {
				childMut++
				// (6b) ... and once this very sync has taken the finalizer off a parent that is pending
				// deletion, that parent "has already lost the finalizer": no child is touched after that
				if finalizerJustRemoved {
					viol("child-written-after-finalizer-removal", "the finalizer had just been removed from the parent pending deletion, yet a child was created, updated or deleted afterwards in the same sync: "+q.String(), sr)
				}
				if q.Verb == "create" && q.OK() && hookOn && !firstCreateChecked {
					firstCreateChecked = true
					if !hasFin(cur, finName) {
						viol("child-created-before-finalizer", "a child was created while the stored parent did not (yet) carry the controller's finalizer", sr)
					}
				}
			}
		}
		// (6) no child is touched for a dying parent that cannot be finalized by us
		if deleting && childMut > 0 && (!hookOn || !hasOurs || gcFin) {
			viol(fmt.Sprintf("children-managed-for-dying-parent:hook=%v:finalizer=%v:gc=%v", hookOn, hasOurs, gcFin), "a parent pending deletion without finalize hook / without our finalizer / with a garbage-collector finalizer had children created, updated or deleted", sr)
		}
		// (5) leftover finalizer is removed when no finalize hook is configured
		if !hookOn && hasOurs && sr.Err == nil && len(sr.Requests) > 0 {
			if p := s.Peek(pgvr, sc.ns(), sc.parentName()); p != nil && sim.UID(p) == parentUID && hasFin(p, finName) && atomic.LoadInt32(&pendingFault) == 0 {
				viol("leftover-finalizer-kept", "no finalize hook is configured but a successful sync left the controller's finalizer on the parent", sr)
			}
		}
	}

	lastErr := false
	settle := func() bool {
		for i := 0; i < 40; i++ {
			syncs, ok := w.round()
			if !ok {
				return false
			}
			for _, sr := range syncs {
				r.syncs = append(r.syncs, sr)
				judge(sr)
				lastErr = sr.Err != nil
			}
			if len(syncs) == 0 {
				if !w.quiesce() {
					return false
				}
				if w.q.Len() == 0 {
					// quiet: "children are still reconciled to its answer" - a finalization that we are
					// entitled to carry out cannot be left half-way with nothing queued
					if cur := s.Peek(pgvr, sc.ns(), sc.parentName()); cur != nil && sim.UID(cur) == parentUID && hookOn && walk.Finalize != "never" && !lastErr && atomic.LoadInt32(&pendingFault) == 0 {
						gc := hasFin(cur, "foregroundDeletion") || hasFin(cur, "orphan")
						if hasFin(cur, finName) && !gc && (sim.IsDeleting(cur) || sim.Labels(cur)["managed-by"] != uid) {
							var left []string
							for _, o := range s.PeekAll(sim.WidgetInfo.GVR()) {
								if c := sim.ControllerOf(o); c != nil && c.UID == parentUID {
									left = append(left, sim.Name(o))
								}
							}
							rep.Violation("C10", id, "finalization-stalled", fmt.Sprintf("the parent still carries the finalizer and must be finalized (deleting=%v, matches=%v), yet nothing is queued any more; children left: %v", sim.IsDeleting(cur), sim.Labels(cur)["managed-by"] == uid, left), map[string]interface{}{"walk": walk})
						}
					}
					return true
				}
			}
		}
		return true
	}
	if !settle() {
		inconclusive(t, "C10", id, w.watchdog)
		return
	}
	for _, st := range walk.Steps {
		alive := s.Peek(pgvr, sc.ns(), sc.parentName())
		if alive == nil || sim.UID(alive) != parentUID {
			break
		}
		switch st.Op {
		case "unmatch":
			s.ExtMutate(pgvr, sc.ns(), sc.parentName(), func(o sim.Obj) { sim.SetLabels(o, map[string]string{"managed-by": "nobody"}) })
		case "rematch":
			s.ExtMutate(pgvr, sc.ns(), sc.parentName(), func(o sim.Obj) { sim.SetLabels(o, map[string]string{"managed-by": uid}) })
		case "delete-background":
			s.ExtDelete(pgvr, sc.ns(), sc.parentName(), "")
		case "delete-foreground":
			s.ExtDelete(pgvr, sc.ns(), sc.parentName(), "Foreground")
		case "delete-orphan":
			s.ExtDelete(pgvr, sc.ns(), sc.parentName(), "Orphan")
		case "strip-finalizer":
			s.ExtMutate(pgvr, sc.ns(), sc.parentName(), func(o sim.Obj) {
				var keep []interface{}
				for _, f := range sim.Finalizers(o) {
					if f != finName {
						keep = append(keep, f)
					}
				}
				if len(keep) == 0 {
					delete(o["metadata"].(map[string]interface{}), "finalizers")
				} else {
					sim.SetNested(o, keep, "metadata", "finalizers")
				}
			})
		case "toggle-finalize-hook":
			w.stop()
			hookOn = !hookOn
			w.cfg.FinalizeHook = hookOn
			w.cc = w.cfg.compositeController(w.hooks)
			if err := w.start(); err != nil {
				inconclusive(t, "C10", id, err)
				return
			}
		case "edit-spec":
			s.ExtMutate(pgvr, sc.ns(), sc.parentName(), func(o sim.Obj) { sim.SetNested(o, "e-"+st.Arg, "spec", "extra") })
		case "gc":
			s.GCStep()
		case "fault-next-parent-write":
			faultCode, _ = map[string]int{"409": 409, "500": 500, "422": 422}[st.Arg]
			atomic.StoreInt32(&pendingFault, 1)
		case "resync":
			w.q.Add(sc.parentKey())
		}
		if !settle() {
			inconclusive(t, "C10", id, w.watchdog)
			return
		}
	}
	rep.Counter("C10", "syncs_judged", int64(judged))
	rep.Counter("C10", "finalize_hook_calls", int64(finalizeCalls))
	rep.Counter("C10", "finalizer_adds", int64(finalizerAdds))
	rep.Counter("C10", "finalizer_removals", int64(finalizerRemovals))
	rep.Case("C10", id, finalizeCalls > 0 || finalizerRemovals > 0 || finalizerAdds > 0, sim.Hash(walk), map[string]interface{}{"walk": walk, "syncs": judged, "finalizeCalls": finalizeCalls})
}


// eagerTurn turns every fourth pick of the finalize program into the "eager" one (finalized: true
// at once, whatever is still there) without changing the number of draws from the walk generator.
var eagerCounter int64

func eagerTurn(f string) string {
	if atomic.AddInt64(&eagerCounter, 1)%4 == 0 {
		return "eager"
	}
	return f
}
