//go:build verif

package composite

import (
	"encoding/json"
	"fmt"

	"metacontroller/pkg/apis/metacontroller/v1alpha1"
	sim "metacontroller/pkg/verifsim"
)

// M-STRATEGY: the C06 oracle as an always-on monitor over one sync's hook answers and requests
// (dynamic apply only; under server-side apply the strategy is not consulted). For every request
// metacontroller sent for an object of a child resource during the sync:
//   - a child that is pending deletion (as the server saw it when the request arrived) gets no write;
//   - an UPDATE that changes more than owner references (i.e. is not an adoption or release) is only
//     sent under InPlace / RollingInPlace;
//   - a DELETE of a child that the hook still desires in this sync (named in every answer of the
//     sync) is only sent under Recreate / RollingRecreate;
//   - every DELETE asks for background propagation.
func (w *world) judgeStrategy(res *syncResult) {
	if w.cfg.SSA || res.Cached == nil {
		return
	}
	methods := map[string]v1alpha1.ChildUpdateMethod{}
	for _, c := range w.cfg.Children {
		m := c.Method
		if c.NoStrategy {
			m = ""
		}
		methods[c.Info.GVR().String()] = m
	}
	// desired children: those named by every sync/finalize answer of this sync (a child named
	// without a namespace is meant to live in the parent's)
	parentNS := res.Cached.GetNamespace()
	key := func(o map[string]interface{}) string {
		ns := sim.NS(o)
		if ns == "" {
			ns = parentNS
		}
		for _, c := range w.cfg.Children {
			if c.Info.APIVersion() == fmt.Sprint(o["apiVersion"]) && c.Info.Kind == fmt.Sprint(o["kind"]) && !c.Info.Namespaced {
				ns = ""
			}
		}
		return fmt.Sprint(o["apiVersion"], "|", o["kind"], "|", ns, "|", sim.Name(o))
	}
	var answers []map[string]bool
	for _, h := range res.Hooks {
		if (h.Path != "sync" && h.Path != "finalize") || h.Status != 200 || h.Err != "" {
			continue
		}
		var resp struct {
			Children []map[string]interface{} `json:"children"`
		}
		if json.Unmarshal(h.RespRaw, &resp) != nil {
			return
		}
		set := map[string]bool{}
		for _, c := range resp.Children {
			if c == nil {
				continue
			}
			set[key(c)] = true
		}
		answers = append(answers, set)
	}
	if len(answers) == 0 {
		return
	}
	desired := func(o sim.Obj) bool {
		k := key(o)
		for _, a := range answers {
			if !a[k] {
				return false
			}
		}
		return true
	}
	viol := func(sig, detail string, q *sim.Request) {
		sim.R().Violation("C06", w.reportID(), "mstrategy:"+sig, detail+"\n  request: "+q.String(), map[string]interface{}{"sync": res.Tag, "log": sim.DescribeLog(res.Requests, false), "hooks": describeHooks(res.Hooks)})
	}
	for _, q := range res.Requests {
		if q.Actor != "mc" || !q.Mutating() {
			continue
		}
		m, isChild := methods[q.GVR.String()]
		if !isChild || q.Pre == nil {
			continue
		}
		if !q.OK() || !q.Applied {
			continue // refused or without effect: not a write
		}
		if q.Verb == "update" && q.Post != nil && sameExceptOwners(q.Pre, q.Post) {
			continue // adoption / release: judged by C04
		}
		w.strategyJudged++
		if sim.IsDeleting(q.Pre) {
			viol("write-to-deleting-child:"+q.Verb, "a child that is pending deletion received a write", q)
			continue
		}
		switch q.Verb {
		case "update":
			if m != v1alpha1.ChildUpdateInPlace && m != v1alpha1.ChildUpdateRollingInPlace {
				viol(fmt.Sprintf("updated-in-place-under:%q", string(m)), fmt.Sprintf("a child was updated in place although the update method of its resource is %q", string(m)), q)
			}
		case "delete":
			opts, _ := q.Body.(map[string]interface{})
			if p, _ := opts["propagationPolicy"].(string); p != "Background" {
				viol("delete-not-background", fmt.Sprintf("a child delete asks for propagationPolicy %q", p), q)
			}
			if desired(q.Pre) && m != v1alpha1.ChildUpdateRecreate && m != v1alpha1.ChildUpdateRollingRecreate {
				viol(fmt.Sprintf("desired-child-deleted-under:%q", string(m)), fmt.Sprintf("a child the hook still desires was deleted although the update method of its resource is %q", string(m)), q)
			}
		}
	}
}
