//go:build verif

package composite

import (
	"fmt"
	"math/rand"
	"testing"

	"k8s.io/apimachinery/pkg/labels"
	"k8s.io/apimachinery/pkg/runtime/schema"

	sim "metacontroller/pkg/verifsim"
)

// C14, random part: in the converged state of a generated scenario (all strategies, both apply
// modes, cluster-scoped parents, several kinds, look-alike objects) one outside change after the
// other is made to an object of a child resource, or to the parent, and the work queue is watched:
// a change to a child the parent controls, to an orphan matching its selector (before or after
// the change) or to the parent itself queues the parent; a change to an object controlled by
// someone else or to an orphan that matches neither before nor after queues nothing.

func TestVerif_C14_RandomWake(t *testing.T) {
	n := sim.Pick(60, 4000)
	rng := sim.Rand("C14-random")
	for i := 0; i < n; i++ {
		scSeed, eSeed := rng.Int63(), rng.Int63()
		id := fmt.Sprintf("c14r%d", i)
		if !sim.WantCase(id) {
			continue
		}
		t.Run(id, func(t *testing.T) {
			t.Parallel()
			runC14Random(t, id, scSeed, eSeed)
		})
	}
}

func runC14Random(t *testing.T, id string, scSeed, eSeed int64) {
	rep := sim.R()
	rep.Begin("C14", id)
	sc := genScenario(rand.New(rand.NewSource(scSeed)), id)
	sc.Edits = nil
	r, err := startScenario(sc)
	if err != nil {
		inconclusive(t, "C14", id, fmt.Errorf("start: %v", err))
		return
	}
	defer r.close()
	w := r.w
	w.caseID = id
	defer w.flushCounters("C14")
	s := w.sim
	_, converged, ok := r.converge()
	if !ok {
		inconclusive(t, "C14", id, w.watchdog)
		return
	}
	if !converged {
		// scenarios that never go quiet are C01's business (known findings); nothing to watch here
		rep.Case("C14", id, false, "random/"+sc.shapeKey(), map[string]interface{}{"skipped": "scenario does not go quiet"})
		return
	}
	erng := rand.New(rand.NewSource(eSeed))
	pgvr := sc.parentInfo().GVR()
	pkey := sc.parentKey()
	type evt struct {
		What string `json:"what"`
		Want bool   `json:"wantQueued"`
		Got  bool   `json:"gotQueued"`
	}
	var events []evt
	drain := func() bool {
		if !w.quiesce() {
			return false
		}
		for w.q.Len() > 0 {
			k, _ := w.q.Get()
			w.q.Forget(k)
			w.q.Done(k)
		}
		return true
	}
	for step := 0; step < 8; step++ {
		if !drain() {
			inconclusive(t, "C14", id, w.watchdog)
			return
		}
		parent := s.Peek(pgvr, sc.ns(), sc.parentName())
		if parent == nil || sim.IsDeleting(parent) {
			break
		}
		sel := w.selectorFor(parent)
		puid := sim.UID(parent)
		// candidates: every object of a child resource, plus the parent
		type cand struct {
			gvr schema.GroupVersionResource
			o   sim.Obj
		}
		var cands []cand
		for _, ri := range r.childGVRs() {
			for _, o := range s.PeekAll(ri.GVR()) {
				if sim.IsDeleting(o) {
					continue
				}
				if !sc.ClusterParent && ri.Namespaced && sim.NS(o) != sc.ns() {
					continue // another namespace is out of a namespaced parent's sight; not judged
				}
				cands = append(cands, cand{ri.GVR(), o})
			}
		}
		cands = append(cands, cand{pgvr, parent})
		c := cands[erng.Intn(len(cands))]
		what, want := "", false
		mark := w.q.Mark()
		matches := func(o sim.Obj) bool { return sel != nil && sel.Matches(labels.Set(sim.Labels(o))) }
		ctl := sim.ControllerOf(c.o)
		switch {
		case c.gvr == pgvr:
			what, want = "parent spec edit", true
			s.ExtMutate(pgvr, sc.ns(), sc.parentName(), func(o sim.Obj) { sim.SetNested(o, fmt.Sprint("n", step), "spec", "note") })
		case ctl != nil && ctl.UID == puid:
			if erng.Intn(3) == 0 {
				what, want = "delete of a controlled child "+c.gvr.Resource, true
				s.ExtDelete(c.gvr, sim.NS(c.o), sim.Name(c.o), "")
			} else {
				what, want = "edit of a controlled child "+c.gvr.Resource, true
				s.ExtMutate(c.gvr, sim.NS(c.o), sim.Name(c.o), func(o sim.Obj) { sim.SetNested(o, fmt.Sprint("n", step), "metadata", "annotations", "touched") })
			}
		case ctl != nil:
			what, want = "edit of an object controlled by someone else "+c.gvr.Resource, false
			s.ExtMutate(c.gvr, sim.NS(c.o), sim.Name(c.o), func(o sim.Obj) { sim.SetNested(o, fmt.Sprint("n", step), "metadata", "annotations", "touched") })
		case matches(c.o):
			what, want = "edit of a matching orphan "+c.gvr.Resource, true
			s.ExtMutate(c.gvr, sim.NS(c.o), sim.Name(c.o), func(o sim.Obj) { sim.SetNested(o, fmt.Sprint("n", step), "metadata", "annotations", "touched") })
		default:
			what, want = "edit of a non-matching orphan "+c.gvr.Resource, false
			s.ExtMutate(c.gvr, sim.NS(c.o), sim.Name(c.o), func(o sim.Obj) { sim.SetNested(o, fmt.Sprint("n", step), "metadata", "annotations", "touched") })
		}
		if !w.quiesce() {
			inconclusive(t, "C14", id, w.watchdog)
			return
		}
		got := w.q.AddedSince(mark)[pkey] > 0
		events = append(events, evt{what, want, got})
		if got != want {
			kind := "missing"
			if got {
				kind = "extra"
			}
			rep.Violation("C14", id, "random:"+kind+":"+what, fmt.Sprintf("in the quiet state of the scenario: %s - parent queued: %v, expected: %v", what, got, want), map[string]interface{}{"scenario": sc, "events": events, "object": c.o})
			break
		}
		// let the controller digest the change (a deleted child is recreated, ...) before the next one
		if _, _, ok := r.converge(); !ok {
			inconclusive(t, "C14", id, w.watchdog)
			return
		}
	}
	rep.Counter("C14", "random_events", int64(len(events)))
	rep.Case("C14", id, len(events) > 0, "random/"+sc.shapeKey()+"/"+sim.Hash(events)[:6], map[string]interface{}{"scenario": sc, "events": events})
}
