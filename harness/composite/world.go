//go:build verif

package composite

import (
	"fmt"
	"runtime"
	"sort"
	"strings"
	"sync/atomic"
	"testing"
	"time"

	metav1 "k8s.io/apimachinery/pkg/apis/meta/v1"
	"k8s.io/apimachinery/pkg/apis/meta/v1/unstructured"
	"k8s.io/apimachinery/pkg/labels"
	"k8s.io/apimachinery/pkg/runtime/schema"

	"metacontroller/pkg/apis/metacontroller/v1alpha1"
	"metacontroller/pkg/controller/common"
	"metacontroller/pkg/logging"
	env "metacontroller/pkg/verifenv"
	sim "metacontroller/pkg/verifsim"
)

// world is one scenario: a simulated cluster, a hook site, one life of metacontroller's client
// stack and one real parentController driven in stepped mode (numWorkers = 0, so Start() wires the
// real event handlers but the harness plays the worker).

type worldCfg struct {
	ID               string
	Parent           sim.ResourceInfo
	Children         []childCfg
	GenerateSelector bool
	FinalizeHook     bool
	CustomizeHook    bool
	SSA              bool
	ParentSelector   *metav1.LabelSelector
	FieldPaths       []string
	IgnoreStatus     bool
	NoSyncHook       bool
}

type childCfg struct {
	Info       sim.ResourceInfo
	Method     v1alpha1.ChildUpdateMethod // "" = unset
	Checks     []v1alpha1.StatusConditionCheck
	NoStrategy bool // leave updateStrategy nil
}

type world struct {
	cfg   worldCfg
	sim   *sim.Server
	hooks *sim.HookSite
	env   *env.Env
	pc    *parentController
	q     *sim.RecQueue
	cc    *v1alpha1.CompositeController

	syncN      int
	watchdog   error // set when a watchdog fired: the scenario is inconclusive
	ownCounts  map[string]int
	cacheObjs  int64 // objects fingerprinted by M-CACHE
	syncs      int64
	noMonitors bool
	// overlapView: syncs of several parents overlap (M-VIEW's equality is not defined then); the
	// one-sided rule still is: no object shown to a hook is, at that moment, controlled by another
	overlapView bool
	// ownSig lets a scenario that manipulates ownership itself refine the signature of an M-OWN
	// finding (e.g. to mark the known stale-observation shape).
	ownSig func(f sim.Finding) string
	// statusJudged counts the parent writes judged by M-STATUS
	statusJudged int
	// viewsJudged counts the hook requests judged by M-VIEW; noViewMonitor switches it off for
	// tests in which an outside writer acts while hook calls are in flight
	viewsJudged   int
	noViewMonitor bool
	// strategyJudged counts the child requests judged by M-STRATEGY
	strategyJudged int
	// caseID is the case id used in reports (defaults to cfg.ID)
	caseID string
	// prop: the property a lost worker is reported under (default C01); hung: a sync never returned
	prop string
	hung bool
}

func (w *world) reportID() string {
	if w.caseID != "" {
		return w.caseID
	}
	return w.cfg.ID
}

var worldSeq int64

func uniqueID(prefix string) string {
	// the id is substituted textually when runs are compared, so it must not collide with stamps
	// such as "e1", "r1", "v1"
	return fmt.Sprintf("%sq%dq", prefix, atomic.AddInt64(&worldSeq, 1))
}

func (c worldCfg) compositeController(h *sim.HookSite) *v1alpha1.CompositeController {
	cc := &v1alpha1.CompositeController{
		TypeMeta:   metav1.TypeMeta{APIVersion: "metacontroller.k8s.io/v1alpha1", Kind: "CompositeController"},
		ObjectMeta: metav1.ObjectMeta{Name: c.ID, UID: "cc-uid"},
	}
	cc.Spec.ParentResource.APIVersion = c.Parent.APIVersion()
	cc.Spec.ParentResource.Resource = c.Parent.Resource
	cc.Spec.ParentResource.LabelSelector = c.ParentSelector
	if len(c.FieldPaths) > 0 {
		cc.Spec.ParentResource.RevisionHistory = &v1alpha1.CompositeControllerRevisionHistory{FieldPaths: c.FieldPaths}
	}
	if c.IgnoreStatus {
		t := true
		cc.Spec.ParentResource.IgnoreStatusChanges = &t
	}
	for _, ch := range c.Children {
		rule := v1alpha1.CompositeControllerChildResourceRule{}
		rule.APIVersion = ch.Info.APIVersion()
		rule.Resource = ch.Info.Resource
		if !ch.NoStrategy {
			rule.UpdateStrategy = &v1alpha1.CompositeControllerChildUpdateStrategy{Method: ch.Method}
			rule.UpdateStrategy.StatusChecks.Conditions = ch.Checks
		}
		cc.Spec.ChildResources = append(cc.Spec.ChildResources, rule)
	}
	gs := c.GenerateSelector
	cc.Spec.GenerateSelector = &gs
	hk := func(path string) *v1alpha1.Hook {
		u := h.URL(path)
		return &v1alpha1.Hook{Webhook: &v1alpha1.Webhook{URL: &u}}
	}
	cc.Spec.Hooks = &v1alpha1.CompositeControllerHooks{}
	if !c.NoSyncHook {
		cc.Spec.Hooks.Sync = hk("sync")
	}
	if c.FinalizeHook {
		cc.Spec.Hooks.Finalize = hk("finalize")
	}
	if c.CustomizeHook {
		cc.Spec.Hooks.Customize = hk("customize")
	}
	return cc
}

// newWorld creates cluster and hook site; the controller is started by w.start() once the
// scenario has populated the store.
func newWorld(cfg worldCfg) *world {
	s := sim.NewCluster()
	w := &world{cfg: cfg, sim: s, ownCounts: map[string]int{}}
	w.hooks = sim.NewHookSite(s.Clock(), s.Tag)
	w.hooks.HandleJSON("sync", sim.CompositeProgram)
	w.hooks.HandleJSON("finalize", sim.CompositeProgram)
	w.hooks.SetObserver(func(call *sim.HookCall) {
		if !w.noMonitors && !w.noViewMonitor {
			w.observeHookCall(call)
		} else if w.overlapView {
			w.observeHookCallOverlapping(call)
		}
	})
	w.cc = cfg.compositeController(w.hooks)
	return w
}

func (w *world) ssaOptions() *common.ApplyOptions {
	if w.cfg.SSA {
		return &common.ApplyOptions{FieldManager: "metacontroller", Strategy: common.ApplyStrategyServerSideApply}
	}
	return &common.ApplyOptions{Strategy: common.ApplyStrategyDynamicApply}
}

// start builds one process life: client stack, informers, a real parentController with the real
// handler wiring, and the recording queue in place of the rate-limited one.
func (w *world) start() error {
	e, err := env.New(w.sim, true)
	if err != nil {
		return err
	}
	w.env = e
	pc, err := newParentController(e.Resources, e.DynClient, e.DynInformers, env.NopRecorder{}, e.McClient, e.RevLister, w.cc, 0, w.ssaOptions(), logging.Logger)
	if err != nil {
		e.Close()
		w.env = nil
		return err
	}
	pc.queue.ShutDown()
	w.q = sim.NewRecQueue()
	pc.queue = w.q
	w.pc = pc
	if err := e.Track(w.cfg.Parent.APIVersion(), w.cfg.Parent.Resource); err != nil {
		return err
	}
	for _, ch := range w.cfg.Children {
		if err := e.Track(ch.Info.APIVersion(), ch.Info.Resource); err != nil {
			return err
		}
	}
	pc.Start()
	// numWorkers == 0: the start goroutine ends once the caches have synced. (Should it not end - a
	// Start that parks until the stop - the stepped harness needs only the synced caches, which
	// every test waits for through quiesce() anyway.)
	select {
	case <-pc.doneCh:
	case <-time.After(2 * time.Second):
	}
	return nil
}

// stop ends the process life (controller stopped, informers closed, caches discarded).
func (w *world) stop() {
	if w.pc != nil {
		w.pc.Stop()
		w.pc = nil
	}
	if w.env != nil {
		w.env.Close()
		w.env = nil
	}
}

func (w *world) close() {
	w.stop()
	w.hooks.Close()
}

// restart = crash: everything in-process is discarded, a new life starts on the same store.
func (w *world) restart() error {
	w.stop()
	w.sim.Cut(false)
	w.sim.SetFault(nil)
	w.sim.SetGate(nil)
	return w.start()
}

func (w *world) quiesce() bool {
	if w.env == nil || w.hung {
		return false
	}
	if err := w.env.Quiesce(); err != nil {
		w.watchdog = err
		return false
	}
	return true
}

func (w *world) parentGVR() schema.GroupVersionResource { return w.cfg.Parent.GVR() }

func (w *world) selectorFor(parent sim.Obj) labels.Selector {
	if w.cfg.GenerateSelector {
		return labels.SelectorFromSet(labels.Set{"controller-uid": sim.UID(parent)})
	}
	ls := &metav1.LabelSelector{}
	raw, ok := sim.Nested(parent, "spec", "selector")
	if !ok {
		return nil
	}
	m, _ := raw.(map[string]interface{})
	if ml, ok := m["matchLabels"].(map[string]interface{}); ok {
		ls.MatchLabels = map[string]string{}
		for k, v := range ml {
			ls.MatchLabels[k], _ = v.(string)
		}
	}
	if me, ok := m["matchExpressions"].([]interface{}); ok {
		for _, it := range me {
			em, _ := it.(map[string]interface{})
			req := metav1.LabelSelectorRequirement{}
			req.Key, _ = em["key"].(string)
			op, _ := em["operator"].(string)
			req.Operator = metav1.LabelSelectorOperator(op)
			if vs, ok := em["values"].([]interface{}); ok {
				for _, v := range vs {
					s, _ := v.(string)
					req.Values = append(req.Values, s)
				}
			}
			ls.MatchExpressions = append(ls.MatchExpressions, req)
		}
	}
	if len(ls.MatchLabels) == 0 && len(ls.MatchExpressions) == 0 {
		return nil
	}
	sel, err := metav1.LabelSelectorAsSelector(ls)
	if err != nil {
		return nil
	}
	return sel
}

// syncResult is what one stepped sync looked like from outside.
type syncResult struct {
	N        int
	Key      string
	Tag      string
	Err      error
	Panic    string
	Requests []*sim.Request // everything the simulator logged during the sync (mc + ext)
	Hooks    []*sim.HookCall
	QueueOps []sim.QueueOp
	Cached   *unstructured.Unstructured // the cached parent the sync started from (nil if absent)
}

func (r *syncResult) mcMutations() []*sim.Request {
	var out []*sim.Request
	for _, q := range r.Requests {
		if q.Actor == "mc" && q.Mutating() {
			out = append(out, q)
		}
	}
	return out
}

func splitKey(key string) (string, string) {
	if i := strings.Index(key, "/"); i >= 0 {
		return key[:i], key[i+1:]
	}
	return "", key
}

// syncKey runs pc.sync(key) once under the always-on monitors (M-PANIC, M-CACHE, M-OWN) and does
// the worker's queue bookkeeping (the key must have been taken from the queue by the caller).
func (w *world) syncKey(key string) *syncResult {
	return w.observe(key, func() error { return w.pc.sync(key) })
}

// stepWorker lets the real worker code (processNextWorkItem: Get, sync, AddRateLimited/Forget,
// Done) handle one queued key, under the same monitors. The error value is not visible; the
// queue operations tell whether the sync failed.
func (w *world) stepWorker() *syncResult {
	if w.q.Len() == 0 {
		return nil
	}
	n := w.syncN + 1
	w.sim.SetTagFunc(func() string { return fmt.Sprintf("sync%d:%s", n, w.q.Current()) })
	res := w.observe("", func() error {
		w.pc.processNextWorkItem()
		return nil
	})
	w.sim.SetTagFunc(nil)
	res.Key = w.q.Current()
	res.Tag = fmt.Sprintf("sync%d:%s", n, res.Key)
	for _, op := range res.QueueOps {
		if op.Op == "AddRateLimited" && op.Key == res.Key {
			res.Err = fmt.Errorf("sync failed (key was re-queued rate-limited by the worker)")
		}
	}
	return res
}

func (w *world) observe(key string, run func() error) *syncResult {
	w.syncN++
	res := &syncResult{N: w.syncN, Key: key, Tag: fmt.Sprintf("sync%d:%s", w.syncN, key)}
	var before map[string]env.Fingerprint
	if !w.noMonitors {
		before = w.env.SnapshotCaches()
	}
	mark, hmark, qmark := w.sim.Mark(), w.hooks.Mark(), w.q.Mark()
	lookup := func(key string) {
		ns, name := splitKey(key)
		if p, err := common.GetObject(w.pc.parentInformer, ns, name); err == nil {
			res.Cached = p.DeepCopy()
		}
	}
	if key != "" {
		w.sim.SetTag(res.Tag)
		lookup(key) // the cached parent the sync starts from
	}
	stack, panicked, hung := w.runGuarded(func() { res.Err = run() })
	w.sim.SetTag("")
	if hung != "" {
		// the sync waits for goroutines that no longer exist: it will never return
		prop := w.prop
		if id := w.reportID(); prop == "" && len(id) >= 3 && id[0] == 'c' && id[1] >= '0' && id[1] <= '2' && id[2] >= '0' && id[2] <= '9' {
			prop = "C" + id[1:3] // the property of the test case that lost its worker
		}
		if prop == "" {
			prop = "C01"
		}
		res.Err = fmt.Errorf("sync never returned")
		w.watchdog = fmt.Errorf("a sync is blocked for good; the scenario cannot continue")
		w.hung = true
		kind := strings.SplitN(hung, "\n", 2)[0]
		sim.R().Violation(prop, w.reportID(), "sync-blocked-forever:"+kind, "the sync is parked on "+kind+" while nothing is in flight and no goroutine exists that could wake it (two goroutine dumps 2 s apart); the worker is lost for good:\n"+hung,
			map[string]interface{}{"key": key})
		res.Requests = w.sim.Since(mark)
		res.Hooks = w.hooks.Since(hmark)
		res.QueueOps = w.q.Since(qmark)
		return res
	}
	if key == "" {
		key = w.q.Current()
		res.Key = key
		lookup(key)
	}
	res.Requests = w.sim.Since(mark)
	res.Hooks = w.hooks.Since(hmark)
	if panicked {
		res.Panic = stack
		res.Err = fmt.Errorf("panic: %s", strings.SplitN(stack, "\n", 2)[0])
		sim.R().Violation("C13", w.reportID(), "panic:"+sim.PanicSite(stack), "sync panicked (a worker panic terminates the whole process): "+stack,
			map[string]interface{}{"key": key, "hooks": describeHooks(res.Hooks), "requests": sim.DescribeLog(res.Requests, false)})
	}
	res.QueueOps = w.q.Since(qmark)
	atomic.AddInt64(&w.syncs, 1)
	if !w.noMonitors {
		// a sync that has returned has no hook call of its own still in flight (the parallel
		// per-revision calls are all waited for): whoever stops the controller next relies on it
		if n := w.hooks.InFlight(); n != 0 {
			sim.R().Violation("C20", w.reportID(), "hook-call-outlives-its-sync", fmt.Sprintf("the sync returned while %d hook call(s) it had started were still in flight; a Stop() that waits for the workers would return with calls of the stopped instance outstanding", n),
				map[string]interface{}{"key": key, "hooks": describeHooks(res.Hooks)})
		}
		after := w.env.SnapshotCaches()
		atomic.AddInt64(&w.cacheObjs, int64(len(before)))
		for _, d := range env.CompareCaches(before, after) {
			res := strings.SplitN(d, "|", 2)[0]
			sim.R().Violation("C17", w.reportID(), "cache-mutated:"+res, "an object in a shared informer cache changed during a sync although its resourceVersion did not (mutated in place):\n"+d,
				map[string]interface{}{"key": key})
		}
		w.judgeParentWrites(res)
		w.judgeStrategy(res)
		if res.Cached != nil {
			parentObj := sim.Obj(res.Cached.Object)
			ctx := sim.OwnCtx{ParentGVR: w.parentGVR(), ParentKey: key, ParentUID: string(res.Cached.GetUID()), Selector: w.selectorFor(parentObj), RevisionGVR: env.RevisionGVR}
			for _, f := range sim.JudgeOwnership(ctx, res.Requests, w.ownCounts) {
				if w.ownSig != nil {
					f.Sig = w.ownSig(f)
				}
				sim.R().Violation("C02", w.reportID(), f.Sig, f.Detail, map[string]interface{}{"sync": res.Tag, "log": sim.DescribeLog(res.Requests, false)})
			}
		}
	}
	return res
}

// runGuarded runs one sync like sim.Guard does, on a goroutine of its own, and watches for one
// structural dead end: the goroutine of the sync parked in sync.WaitGroup.Wait while nothing is in
// flight (no API request, no hook call) and no goroutine started by syncRevisions exists that could
// ever call Done. The clock only decides when to look (after 5 s, twice 2 s apart); the verdict is
// read from the goroutine dumps. Anything else that takes long is left to the outer watchdogs.
func (w *world) runGuarded(fn func()) (stack string, panicked bool, hung string) {
	done := make(chan struct{})
	go func() {
		defer close(done)
		stack, panicked = sim.Guard(fn)
	}()
	timer := time.NewTimer(5 * time.Second)
	defer timer.Stop()
	select {
	case <-done:
		return stack, panicked, ""
	case <-timer.C:
	}
	evidence := func() string {
		if w.sim.InFlight() != 0 || w.hooks.InFlight() != 0 {
			return ""
		}
		buf := make([]byte, 8<<20)
		buf = buf[:runtime.Stack(buf, true)]
		var waiter string
		perRevision := false
		// second dead end: parked on the process-wide lock of the server-side-apply memo
		// (common.cacheLock, locked and unlocked only inside updateChildren / deleteChildren) while every
		// goroutine that is inside those functions is itself parked on that lock: nobody holds it in a
		// place that could release it
		inMemoFuncs, parkedOnMemoLock := 0, 0
		var memoWaiter string
		for _, g := range strings.Split(string(buf), "\n\n") {
			if strings.Contains(g, "syncRevisions.func") || strings.Contains(g, "syncRevisions.gowrap") {
				perRevision = true // a per-revision goroutine is still alive
			}
			if strings.Contains(g, "sync.(*WaitGroup).Wait") && strings.Contains(g, "(*parentController).syncRevisions") && strings.Contains(g, "runGuarded") {
				waiter = g
			}
			if strings.Contains(g, "controller/common.updateChildren(") || strings.Contains(g, "controller/common.deleteChildren(") {
				inMemoFuncs++
				head := g
				if len(head) > 600 {
					head = head[:600]
				}
				if strings.Contains(head, "sync.(*RWMutex).Lock") || strings.Contains(head, "sync.(*RWMutex).RLock") {
					parkedOnMemoLock++
					if strings.Contains(g, "runGuarded") {
						memoWaiter = g
					}
				}
			}
		}
		if memoWaiter != "" && inMemoFuncs == parkedOnMemoLock {
			return "RWMutex(common.cacheLock)\n" + memoWaiter
		}
		if waiter != "" && !perRevision {
			return "WaitGroup.Wait\n" + waiter
		}
		return ""
	}
	for i := 0; i < 600; i++ { // (outer bound: 20 minutes, then the test's own deadline takes over)
		select {
		case <-done:
			return stack, panicked, ""
		case <-time.After(2 * time.Second):
		}
		if first := evidence(); first != "" {
			select {
			case <-done:
				return stack, panicked, ""
			case <-time.After(2 * time.Second):
			}
			if second := evidence(); second != "" {
				return "", false, second
			}
		}
	}
	<-done
	return stack, panicked, ""
}

func describeHooks(calls []*sim.HookCall) []string {
	var out []string
	for _, c := range calls {
		body := string(c.RespRaw)
		if len(body) > 400 {
			body = body[:400] + "..."
		}
		out = append(out, fmt.Sprintf("#%d %s -> %d %s %s", c.Seq, c.Path, c.Status, body, c.Err))
	}
	return out
}

// step takes one key from the queue (if any) and syncs it like a worker would.
func (w *world) step() *syncResult {
	if w.q.Len() == 0 {
		return nil
	}
	item, shutdown := w.q.Get()
	if shutdown {
		return nil
	}
	key := item.(string)
	res := w.syncKey(key)
	if res.Err != nil {
		w.q.AddRateLimited(key)
	} else {
		w.q.Forget(key)
	}
	w.q.Done(key)
	return res
}

// round = quiesce, then sync every key that is queued right now (keys added meanwhile wait for
// the next round). Returns the syncs made; nil,false if a watchdog fired.
func (w *world) round() ([]*syncResult, bool) {
	if !w.quiesce() {
		return nil, false
	}
	n := w.q.Len()
	var out []*syncResult
	for i := 0; i < n; i++ {
		r := w.step()
		if r == nil {
			break
		}
		out = append(out, r)
		if !w.quiesce() {
			return out, false
		}
	}
	return out, true
}

// flushCounters reports what the always-on monitors looked at.
func (w *world) flushCounters(prop string) {
	r := sim.R()
	r.Counter("C17", "syncs_fingerprinted", atomic.LoadInt64(&w.syncs))
	r.Counter("C17", "cached_objects_fingerprinted", atomic.LoadInt64(&w.cacheObjs))
	var keys []string
	for k := range w.ownCounts {
		keys = append(keys, k)
	}
	sort.Strings(keys)
	for _, k := range keys {
		r.Counter("C02", "judged_"+k, int64(w.ownCounts[k]))
	}
	r.Counter(prop, "syncs", atomic.LoadInt64(&w.syncs))
	r.Counter("C11", "parent_writes_judged_by_mstatus", int64(w.statusJudged))
	r.Counter("C03", "hook_requests_judged_by_mview", int64(w.viewsJudged))
	r.Counter("C06", "child_requests_judged_by_mstrategy", int64(w.strategyJudged))
	if !w.noMonitors {
		// every scenario is also a C17 case: its syncs ran under the cache-fingerprint oracle
		r.Case("C17", "mcache-"+w.reportID(), atomic.LoadInt64(&w.cacheObjs) > 0, "mcache/"+w.reportID(), nil)
	}
}

func inconclusive(t *testing.T, prop, id string, err error) {
	sim.R().Inconclusive(prop, id, fmt.Sprint(err))
	t.Logf("INCONCLUSIVE %s %s: %v", prop, id, err)
}
