//go:build verif

package composite

import (
	"fmt"
	"reflect"
	"strings"
	"sync"
	"testing"
	"time"

	"k8s.io/apimachinery/pkg/labels"

	env "metacontroller/pkg/verifenv"
	sim "metacontroller/pkg/verifsim"
)

// C04 - adoption, release and creation obey the ControllerRef rules.

type c04Cfg struct {
	Selector string `json:"selector"` // labels expr generated
	Target   string `json:"target"`   // child revision
	Owners   string `json:"owners"`   // none ours other ours+extra none+extra
	Labels   string `json:"labels"`   // match nomatch
	Child    string `json:"child"`    // alive deleting
	Parent   string `json:"parent"`   // alive deleting live-deleting live-replaced
}

func (c c04Cfg) id() string {
	return fmt.Sprintf("c04-%s-%s-%s-%s-%s-%s", c.Selector, c.Target, strings.ReplaceAll(c.Owners, "+", "_"), c.Labels, c.Child, c.Parent)
}

func TestVerif_C04_ClaimTable(t *testing.T) {
	n := 0
	for _, sel := range []string{"labels", "expr", "generated"} {
		for _, target := range []string{"child", "revision"} {
			for _, owners := range []string{"none", "ours", "other", "ours+extra", "none+extra"} {
				for _, labels := range []string{"match", "nomatch"} {
					for _, child := range []string{"alive", "deleting"} {
						for _, parent := range []string{"alive", "deleting", "live-deleting", "live-replaced"} {
							c := c04Cfg{sel, target, owners, labels, child, parent}
							if !sim.WantCase(c.id()) {
								continue
							}
							n++
							t.Run(c.id(), func(t *testing.T) {
								t.Parallel()
								runC04(t, c)
							})
						}
					}
				}
			}
		}
	}
	sim.R().Note("C04", fmt.Sprintf("claim table cells enumerated: %d", n))
}

// ownerRefsOnlyOursChanged checks clause (2): post.refs minus ours == pre.refs minus ours, order kept.
func ownerRefsOnlyOursChanged(pre, post sim.Obj, ourUID string) bool {
	strip := func(o sim.Obj) []sim.OwnerRef {
		var out []sim.OwnerRef
		for _, r := range sim.OwnerRefs(o) {
			if r.UID != ourUID {
				out = append(out, r)
			}
		}
		return out
	}
	return reflect.DeepEqual(strip(pre), strip(post))
}

func runC04(t *testing.T, c c04Cfg) {
	rep := sim.R()
	id := c.id()
	rep.Begin("C04", id)
	uid := uniqueID("k")
	rolling := c.Target == "revision"
	method := "InPlace"
	if rolling {
		method = "RollingInPlace"
	}
	sc := &scenario{ID: uid, GenerateSelector: c.Selector == "generated", Finalize: true, ParentSelector: true,
		Kinds: []kindCfg{{Kind: "Widget", Method: method}}}
	tgt := kidCfg{Kind: "Widget", Name: "tgt-" + uid, Value: "v1"}
	sc.Kids = []kidCfg{tgt}
	r := prepareScenario(sc)
	defer r.close()
	r.w.caseID = id
	s := r.w.sim
	pgvr := sc.parentInfo().GVR()
	if c.Selector == "expr" {
		s.ExtMutate(pgvr, sc.ns(), sc.parentName(), func(o sim.Obj) {
			sim.SetNested(o, sim.Obj{"matchExpressions": []interface{}{sim.Obj{"key": "app", "operator": "In", "values": []interface{}{"a-" + uid, "zz"}}}}, "spec", "selector")
		})
	}
	finName := "metacontroller.io/compositecontroller-" + uid
	// the parent already carries the finalizer (so a deleting parent is still synced)
	s.ExtMutate(pgvr, sc.ns(), sc.parentName(), func(o sim.Obj) {
		sim.SetNested(o, []interface{}{finName}, "metadata", "finalizers")
	})
	parent := s.Peek(pgvr, sc.ns(), sc.parentName())
	r.parent = parent
	ourUID := sim.UID(parent)

	// the object under test
	var gvr = sim.WidgetInfo.GVR()
	var obj sim.Obj
	lbl := r.matchingLabels()
	if c.Labels == "nomatch" {
		lbl = map[string]string{"app": "nobody"}
	}
	if c.Target == "child" {
		obj = r.desiredChild(tgt, "v1")
		sim.SetNested(obj, sc.ns(), "metadata", "namespace")
		sim.SetLabels(obj, lbl)
	} else {
		gvr = env.RevisionGVR
		obj = sim.NewObject(sim.RevisionInfo, sc.ns(), "rev-"+uid)
		l2 := map[string]string{"metacontroller.k8s.io/apiGroup": "ctest.dev", "metacontroller.k8s.io/resource": "things"}
		for k, v := range lbl {
			l2[k] = v
		}
		sim.SetLabels(obj, l2)
		obj["parentPatch"] = sim.Obj{"spec": sim.Obj{"template": sim.Obj{"rev": "ancient"}}}
		obj["children"] = []interface{}{sim.Obj{"apiGroup": "kids.dev", "kind": "Widget", "names": []interface{}{tgt.Name}}}
	}
	other := sim.Obj{"apiVersion": "apps/v1", "kind": "ReplicaSet", "metadata": sim.Obj{"name": "rs", "uid": "rs-" + uid}}
	extra := sim.Obj{"apiVersion": "v1", "kind": "ConfigMap", "metadata": sim.Obj{"name": "cm", "uid": "cm-" + uid}}
	switch c.Owners {
	case "ours":
		sim.AddOwner(obj, parent, true)
	case "other":
		sim.AddOwner(obj, other, true)
	case "ours+extra":
		sim.AddOwner(obj, extra, false)
		sim.AddOwner(obj, parent, true)
	case "none+extra":
		sim.AddOwner(obj, extra, false)
	}
	if c.Child == "deleting" {
		sim.SetNested(obj, []interface{}{"example.com/hold"}, "metadata", "finalizers")
	}
	created := s.MustCreate(gvr, obj)
	// two more matching orphans of the same resource, so that one claim pass has several
	// adoption candidates (the verdict of the fresh parent read must hold for all of them)
	for _, sn := range []string{"aaa-sib-" + uid, "zzz-sib-" + uid} {
		sib := sim.DeepCopy(obj)
		sim.SetNested(sib, sn, "metadata", "name")
		sim.SetLabels(sib, func() map[string]string {
			l := map[string]string{}
			for k, v := range sim.Labels(obj) {
				l[k] = v
			}
			for k, v := range r.matchingLabels() {
				l[k] = v
			}
			return l
		}())
		delete(sib["metadata"].(map[string]interface{}), "ownerReferences")
		delete(sib["metadata"].(map[string]interface{}), "finalizers")
		if c.Target == "revision" {
			delete(sib, "children") // (the typed client omits an empty list)
		}
		s.MustCreate(gvr, sib)
	}
	if c.Child == "deleting" {
		s.ExtDelete(gvr, sim.NS(created), sim.Name(created), "")
	}
	if c.Parent == "deleting" {
		s.ExtDelete(pgvr, sc.ns(), sc.parentName(), "")
	}
	if err := r.w.start(); err != nil {
		inconclusive(t, "C04", id, err)
		return
	}
	defer r.w.flushCounters("C04")
	if !r.w.quiesce() {
		inconclusive(t, "C04", id, r.w.watchdog)
		return
	}
	switch c.Parent {
	case "live-deleting":
		s.HoldWatch(pgvr, true)
		s.ExtDelete(pgvr, sc.ns(), sc.parentName(), "")
	case "live-replaced":
		s.HoldWatch(pgvr, true)
		s.ExtMutate(pgvr, sc.ns(), sc.parentName(), func(o sim.Obj) { delete(o["metadata"].(map[string]interface{}), "finalizers") })
		s.ExtDelete(pgvr, sc.ns(), sc.parentName(), "")
		np := sc.parentObject(r.kids, r.rev, r.extra)
		s.MustCreate(pgvr, np)
	}
	// someone adds an owner reference of their own to the object after metacontroller's cache saw
	// it (the child watch is held back): whatever the sync does, that reference must survive
	s.HoldWatch(gvr, true)
	late := sim.Obj{"apiVersion": "v1", "kind": "ConfigMap", "metadata": sim.Obj{"name": "late", "uid": "late-" + uid}}
	lateAdded := false
	if _, err := s.ExtMutate(gvr, sim.NS(created), sim.Name(created), func(o sim.Obj) { sim.AddOwner(o, late, false) }); err == nil {
		lateAdded = true
	}
	r.w.q.Add(sc.parentKey())
	// exactly one sync of the parent
	var sr *syncResult
	for r.w.q.Len() > 0 {
		x := r.w.step()
		if x != nil && x.Key == sc.parentKey() && sr == nil {
			sr = x
			break
		}
	}
	s.HoldWatch(pgvr, false)
	s.HoldWatch(gvr, false)
	if sr == nil {
		inconclusive(t, "C04", id, fmt.Errorf("parent was not synced"))
		return
	}
	viol := func(sig, detail string) {
		rep.Violation("C04", id, sig, detail, map[string]interface{}{"cfg": c, "requests": sim.DescribeLog(sr.Requests, false), "err": fmt.Sprint(sr.Err)})
	}
	cachedDeleting := sr.Cached != nil && sr.Cached.GetDeletionTimestamp() != nil

	// classify what happened to the object under test
	adopted, released := false, false
	siblingsAdopted := 0
	var canAdoptGet *sim.Request
	for _, q := range sr.Requests {
		if q.Actor != "mc" {
			continue
		}
		if q.Verb == "get" && q.GVR == pgvr && q.Name == sc.parentName() && canAdoptGet == nil && !adopted {
			canAdoptGet = q
		}
		if q.GVR == gvr && q.Name != sim.Name(created) && q.Verb == "update" && q.OK() && q.Applied {
			// a sibling orphan: every accepted adoption is held to clause (1)
			preC, postC := sim.ControllerOf(q.Pre), sim.ControllerOf(q.Post)
			if (preC == nil || preC.UID != ourUID) && postC != nil && postC.UID == ourUID {
				siblingsAdopted++
				if canAdoptGet == nil {
					viol("adopt-without-recheck", "adoption of "+q.Name+" accepted without a preceding uncached GET of the parent in this sync")
				} else if canAdoptGet.Pre == nil || sim.UID(canAdoptGet.Pre) != ourUID {
					viol("adopt-after-parent-replaced", fmt.Sprintf("adoption of %s accepted although the fresh read of the parent returned uid %q (cached %q)", q.Name, sim.UID(canAdoptGet.Pre), ourUID))
				} else if sim.IsDeleting(canAdoptGet.Pre) {
					viol("adopt-by-deleting-parent", "adoption of "+q.Name+" accepted although the fresh read of the parent shows a deletionTimestamp")
				}
			}
		}
		if q.GVR != gvr || q.Name != sim.Name(created) {
			continue
		}
		if (q.Verb == "update" || q.Verb == "patch" || q.Verb == "delete") && c.Owners == "other" {
			viol("write-to-foreign-owned", "an object controlled by another owner received a request although its labels match: "+q.String())
		}
		if q.Verb == "update" && q.OK() && q.Applied {
			preC, postC := sim.ControllerOf(q.Pre), sim.ControllerOf(q.Post)
			if !ownerRefsOnlyOursChanged(q.Pre, q.Post, ourUID) {
				viol("foreign-owner-refs-changed", fmt.Sprintf("an update changed owner references that are not the parent's own: pre=%v post=%v", sim.OwnerRefs(q.Pre), sim.OwnerRefs(q.Post)))
			}
			if (preC == nil || preC.UID != ourUID) && postC != nil && postC.UID == ourUID {
				adopted = true
				// clause (1): state of the world at the moment the adoption was accepted
				if canAdoptGet == nil {
					viol("adopt-without-recheck", "adoption accepted without a preceding uncached GET of the parent in this sync")
				} else {
					if canAdoptGet.Pre == nil || sim.UID(canAdoptGet.Pre) != ourUID {
						viol("adopt-after-parent-replaced", fmt.Sprintf("adoption accepted although the fresh read of the parent returned uid %q (cached %q)", sim.UID(canAdoptGet.Pre), ourUID))
					} else if sim.IsDeleting(canAdoptGet.Pre) {
						viol("adopt-by-deleting-parent", "adoption accepted although the fresh read of the parent shows a deletionTimestamp")
					}
				}
				sel := r.w.selectorFor(sim.Obj(sr.Cached.Object))
				if sel == nil || !selectorMatchesObj(sel, q.Pre, c.Target == "revision") {
					viol("adopt-nonmatching", fmt.Sprintf("adopted an object whose labels %v do not match the selector", sim.Labels(q.Pre)))
				}
				if sim.IsDeleting(q.Pre) {
					viol("adopt-deleting-orphan", "adopted an orphan that is being deleted")
				}
			}
			if preC != nil && preC.UID == ourUID && (postC == nil || postC.UID != ourUID) {
				released = true
			}
		}
	}
	if cachedDeleting && siblingsAdopted > 0 {
		viol("claim-change-by-deleting-parent", fmt.Sprintf("a parent whose cached object is being deleted adopted %d sibling orphans", siblingsAdopted))
	}
	if cachedDeleting && (adopted || released) {
		viol("claim-change-by-deleting-parent", fmt.Sprintf("a parent whose cached object is being deleted adopted=%v released=%v", adopted, released))
	}
	// expected outcome
	parentOK := c.Parent == "alive"
	noController := c.Owners == "none" || c.Owners == "none+extra"
	ours := c.Owners == "ours" || c.Owners == "ours+extra"
	wantAdopt := parentOK && noController && c.Labels == "match" && c.Child == "alive"
	// release is decided on the cached parent (only adoption is re-checked live)
	wantRelease := !cachedDeleting && ours && c.Labels == "nomatch"
	if adopted != wantAdopt {
		viol(fmt.Sprintf("adoption-mismatch:want=%v:got=%v:%s:%s", wantAdopt, adopted, c.Parent, c.Owners), fmt.Sprintf("expected adoption=%v, observed %v", wantAdopt, adopted))
	}
	if released != wantRelease {
		viol(fmt.Sprintf("release-mismatch:want=%v:got=%v:%s", wantRelease, released, c.Parent), fmt.Sprintf("expected release=%v, observed %v", wantRelease, released))
	}
	// clause (4): no object with two controller references anywhere in the store
	for res, objs := range s.Snapshot() {
		for k, o := range objs {
			n := 0
			for _, ref := range sim.OwnerRefs(o) {
				if ref.Controller {
					n++
				}
			}
			if n > 1 {
				viol("two-controllers", fmt.Sprintf("%s %s has %d controller references", res, k, n))
			}
		}
	}
	if lateAdded {
		if cur := s.Peek(gvr, sim.NS(created), sim.Name(created)); cur != nil && sim.UID(cur) == sim.UID(created) {
			found := false
			for _, ref := range sim.OwnerRefs(cur) {
				if ref.UID == "late-"+uid {
					found = true
				}
			}
			if !found {
				viol("foreign-owner-ref-lost:added-after-cache-snapshot", "an owner reference that someone else added after metacontroller's cache saw the object disappeared")
			}
		}
	}
	// extra (non-controller) owner must survive
	if strings.Contains(c.Owners, "extra") {
		if cur := s.Peek(gvr, sim.NS(created), sim.Name(created)); cur != nil {
			found := false
			for _, ref := range sim.OwnerRefs(cur) {
				if ref.UID == "cm-"+uid {
					found = true
				}
			}
			if !found {
				viol("foreign-owner-ref-lost", "an owner reference that belongs to someone else disappeared")
			}
		}
	}
	rep.Case("C04", id, true, id, map[string]interface{}{"cfg": c, "adopted": adopted, "released": released, "siblingsAdopted": siblingsAdopted, "requests": sim.DescribeLog(sr.Requests, true)})
}

func selectorMatchesObj(sel labels.Selector, o sim.Obj, _ bool) bool {
	return sel.Matches(labels.Set(sim.Labels(o)))
}

// ---------------------------------------------------------------------------------------------
// label invariants on desired children (clauses 6 and 7)

func TestVerif_C04_DesiredLabels(t *testing.T) {
	type lc struct {
		Name   string
		GenSel bool
		Labels map[string]interface{} // childLabels the hook stamps
		SelRaw sim.Obj                // parent's spec.selector (nil = leave as generated by scenario)
		NoSel  bool
		WantOK bool
	}
	cases := []lc{
		{Name: "match", Labels: nil, WantOK: true},
		{Name: "mismatch-value", Labels: map[string]interface{}{"app": "other"}, WantOK: false},
		{Name: "missing-label", Labels: map[string]interface{}{"x": "y"}, WantOK: false},
		{Name: "empty-selector", SelRaw: sim.Obj{}, WantOK: false},
		{Name: "no-selector", NoSel: true, WantOK: false},
		{Name: "expr-match", SelRaw: sim.Obj{"matchExpressions": []interface{}{sim.Obj{"key": "app", "operator": "Exists"}}}, WantOK: true},
		{Name: "expr-mismatch", SelRaw: sim.Obj{"matchExpressions": []interface{}{sim.Obj{"key": "tier", "operator": "Exists"}}}, WantOK: false},
		{Name: "generated", GenSel: true, WantOK: true},
		{Name: "generated-own-label", GenSel: true, Labels: map[string]interface{}{"x": "y"}, WantOK: true},
		{Name: "generated-wrong-uid-label", GenSel: true, Labels: map[string]interface{}{"controller-uid": "someone-else"}, WantOK: false},
	}
	for _, kinds := range [][]string{{"Widget"}, {"ConfigMap", "Widget"}} {
		for _, c := range cases {
			c := c
			kinds := kinds
			id := fmt.Sprintf("c04-labels-%s-%d", c.Name, len(kinds))
			if !sim.WantCase(id) {
				continue
			}
			t.Run(id, func(t *testing.T) {
				t.Parallel()
				rep := sim.R()
				rep.Begin("C04", id)
				uid := uniqueID("l")
				sc := &scenario{ID: uid, GenerateSelector: c.GenSel}
				for _, k := range kinds {
					sc.Kinds = append(sc.Kinds, kindCfg{Kind: k, Method: "InPlace"})
					sc.Kids = append(sc.Kids, kidCfg{Kind: k, Name: lower(k) + "-0-" + uid, Value: "v1"}, kidCfg{Kind: k, Name: lower(k) + "-1-" + uid, Value: "v1"})
				}
				r := prepareScenario(sc)
				defer r.close()
				r.w.caseID = id
				s := r.w.sim
				s.ExtMutate(sc.parentInfo().GVR(), sc.ns(), sc.parentName(), func(o sim.Obj) {
					if c.Labels != nil {
						sim.SetNested(o, sim.Obj(c.Labels), "spec", "childLabels")
					}
					if c.SelRaw != nil {
						sim.SetNested(o, sim.DeepCopy(c.SelRaw), "spec", "selector")
					}
					if c.NoSel {
						delete(o["spec"].(map[string]interface{}), "selector")
					}
				})
				// an owned stale child: must not be deleted when the response is rejected
				stale := r.asCreatedByMC(kidCfg{Kind: kinds[0], Name: "stale-" + uid}, "v1")
				s.MustCreate(kindInfo(kinds[0]).GVR(), stale)
				if err := r.w.start(); err != nil {
					inconclusive(t, "C04", id, err)
					return
				}
				defer r.w.flushCounters("C04")
				syncs, ok := r.w.round()
				if !ok || len(syncs) == 0 {
					inconclusive(t, "C04", id, fmt.Errorf("no sync: %v", r.w.watchdog))
					return
				}
				sr := syncs[0]
				// claims (adopt/release) happen before the hook is asked; what counts is what is
				// written on the strength of the hook's answer
				var hookSeq int64
				for _, h := range sr.Hooks {
					if h.EndSeq > hookSeq {
						hookSeq = h.EndSeq
					}
				}
				var childMut []*sim.Request
				for _, q := range sr.Requests {
					if q.Actor == "mc" && q.Mutating() && q.GVR != sc.parentInfo().GVR() && (q.Seq > hookSeq || len(sr.Hooks) == 0) {
						childMut = append(childMut, q)
					}
				}
				viol := func(sig, detail string) {
					rep.Violation("C04", id, sig, detail, map[string]interface{}{"case": c.Name, "requests": sim.DescribeLog(sr.Requests, false), "err": fmt.Sprint(sr.Err)})
				}
				if !c.WantOK {
					if sr.Err == nil {
						viol("bad-labels-accepted:"+c.Name, "desired children whose labels cannot satisfy the parent's selector (or an empty selector) did not make the sync fail")
					}
					if len(childMut) > 0 {
						viol("bad-labels-wrote:"+c.Name, fmt.Sprintf("the sync was rejected for its labels/selector but still issued %d mutating child request(s)", len(childMut)))
					}
				} else {
					if sr.Err != nil {
						viol("good-labels-rejected:"+c.Name, "sync failed: "+sr.Err.Error())
					}
					for _, q := range childMut {
						if q.Verb == "create" && q.OK() && c.GenSel {
							if sim.Labels(q.Post)["controller-uid"] != sim.UID(r.parent) {
								viol("created-without-controller-uid", fmt.Sprintf("with selector generation a created child lacks controller-uid=%s: labels=%v", sim.UID(r.parent), sim.Labels(q.Post)))
							}
						}
						if q.Verb == "create" && q.OK() {
							sel := r.w.selectorFor(r.liveParent())
							if sel == nil || !sel.Matches(labels.Set(sim.Labels(q.Post))) {
								viol("created-child-would-be-orphaned", fmt.Sprintf("created a child whose labels %v do not satisfy the parent's selector", sim.Labels(q.Post)))
							}
						}
					}
				}
				rep.Case("C04", id, true, id, map[string]interface{}{"case": c.Name, "kinds": kinds, "err": fmt.Sprint(sr.Err), "childRequests": len(childMut)})
			})
		}
	}
}

// ---------------------------------------------------------------------------------------------
// two parents racing to adopt the same orphan, every interleaving of their GET/PUT pairs

func TestVerif_C04_AdoptRace(t *testing.T) {
	orders := [][]string{
		{"A", "A", "B", "B"}, {"A", "B", "A", "B"}, {"A", "B", "B", "A"},
		{"B", "B", "A", "A"}, {"B", "A", "B", "A"}, {"B", "A", "A", "B"},
	}
	for _, target := range []string{"child", "revision"} {
		for oi, order := range orders {
			order := order
			target := target
			id := fmt.Sprintf("c04-race-%s-%s", target, strings.Join(order, ""))
			_ = oi
			if !sim.WantCase(id) {
				continue
			}
			t.Run(id, func(t *testing.T) {
				t.Parallel()
				runC04Race(t, id, target, order)
			})
		}
	}
}

func runC04Race(t *testing.T, id, target string, order []string) {
	rep := sim.R()
	rep.Begin("C04", id)
	uid := uniqueID("r")
	method := "InPlace"
	if target == "revision" {
		method = "RollingInPlace"
	}
	sc := &scenario{ID: uid, Kinds: []kindCfg{{Kind: "Widget", Method: method}}}
	orphanKid := kidCfg{Kind: "Widget", Name: "shared-" + uid, Value: "v1"}
	sc.Kids = []kidCfg{orphanKid}
	r := prepareScenario(sc)
	defer r.close()
	r.w.caseID = id
	r.w.noMonitors = true // two syncs overlap; judged below per goroutine
	r.w.overlapView = true
	s := r.w.sim
	pgvr := sc.parentInfo().GVR()
	// second parent with the same selector and the same desired child
	p2 := sc.parentObject(r.kids, r.rev, r.extra)
	sim.SetNested(p2, "q-"+uid, "metadata", "name")
	p2 = s.MustCreate(pgvr, p2)
	gvr := sim.WidgetInfo.GVR()
	var orphan sim.Obj
	if target == "child" {
		orphan = r.desiredChild(orphanKid, "v1")
		sim.SetNested(orphan, sc.ns(), "metadata", "namespace")
	} else {
		gvr = env.RevisionGVR
		orphan = sim.NewObject(sim.RevisionInfo, sc.ns(), "rev-"+uid)
		l2 := map[string]string{"metacontroller.k8s.io/apiGroup": "ctest.dev", "metacontroller.k8s.io/resource": "things"}
		for k, v := range sc.labels() {
			l2[k] = v
		}
		sim.SetLabels(orphan, l2)
		orphan["parentPatch"] = sim.Obj{"spec": sim.Obj{"template": sim.Obj{"rev": "ancient"}}}
		orphan["children"] = []interface{}{sim.Obj{"apiGroup": "kids.dev", "kind": "Widget", "names": []interface{}{orphanKid.Name}}}
	}
	orphan = s.MustCreate(gvr, orphan)
	if err := r.w.start(); err != nil {
		inconclusive(t, "C04", id, err)
		return
	}
	if !r.w.quiesce() {
		inconclusive(t, "C04", id, r.w.watchdog)
		return
	}
	keys := map[string]string{"A": sc.parentKey(), "B": sc.ns() + "/q-" + uid}
	uids := map[string]string{"A": sim.UID(r.parent), "B": sim.UID(p2)}
	var mu sync.Mutex
	cond := sync.NewCond(&mu)
	gids := map[int64]string{}
	pos := 0
	waiting := map[string]bool{}
	done := map[string]bool{}
	isGated := func(ri *sim.ReqInfo) bool {
		return ri.GVR == gvr && ri.Name == sim.Name(orphan) && (ri.Verb == "get" || ri.Verb == "update")
	}
	s.SetGate(func(ri *sim.ReqInfo) {
		if !isGated(ri) {
			return
		}
		mu.Lock()
		defer mu.Unlock()
		who := gids[ri.GID]
		if who == "" {
			return
		}
		for pos < len(order) && order[pos] != who {
			// if the goroutine whose turn it is has already finished, skip its remaining turns
			if done[order[pos]] {
				pos++
				cond.Broadcast()
				continue
			}
			waiting[who] = true
			cond.Wait()
			waiting[who] = false
		}
	})
	s.SetAfter(func(ri *sim.ReqInfo) {
		if !isGated(ri) {
			return
		}
		mu.Lock()
		if who := gids[ri.GID]; who != "" && pos < len(order) && order[pos] == who {
			pos++
		}
		cond.Broadcast()
		mu.Unlock()
	})
	var wg sync.WaitGroup
	errs := map[string]error{}
	panics := map[string]string{}
	marks := s.Mark()
	for _, who := range []string{"A", "B"} {
		who := who
		wg.Add(1)
		go func() {
			defer wg.Done()
			mu.Lock()
			gids[sim.GoID()] = who
			mu.Unlock()
			var err error
			stack, p := sim.Guard(func() { err = r.w.pc.sync(keys[who]) })
			mu.Lock()
			errs[who] = err
			if p {
				panics[who] = stack
			}
			done[who] = true
			for pos < len(order) && done[order[pos]] {
				pos++
			}
			cond.Broadcast()
			mu.Unlock()
		}()
	}
	finished := make(chan struct{})
	go func() { wg.Wait(); close(finished) }()
	select {
	case <-finished:
	case <-time.After(env.WatchdogTimeout):
		s.SetGate(nil)
		mu.Lock()
		pos = len(order)
		cond.Broadcast()
		mu.Unlock()
		inconclusive(t, "C04", id, fmt.Errorf("racing syncs did not finish (schedule %v, pos %d)", order, pos))
		<-finished
		return
	}
	s.SetGate(nil)
	s.SetAfter(nil)
	reqs := s.Since(marks)
	viol := func(sig, detail string) {
		rep.Violation("C04", id, sig, detail, map[string]interface{}{"order": order, "requests": sim.DescribeLog(reqs, false), "errA": fmt.Sprint(errs["A"]), "errB": fmt.Sprint(errs["B"])})
	}
	for who, st := range panics {
		rep.Violation("C13", id, "panic:"+sim.PanicSite(st), "sync "+who+" panicked: "+st, nil)
	}
	// judge per goroutine with M-OWN
	byWho := map[string][]*sim.Request{}
	for _, q := range reqs {
		if w := gids[q.GID]; w != "" {
			byWho[w] = append(byWho[w], q)
		}
	}
	for who, qs := range byWho {
		p := r.parent
		if who == "B" {
			p = p2
		}
		ctx := sim.OwnCtx{ParentGVR: pgvr, ParentKey: keys[who], ParentUID: uids[who], Selector: r.w.selectorFor(p), RevisionGVR: env.RevisionGVR}
		for _, f := range sim.JudgeOwnership(ctx, qs, r.w.ownCounts) {
			rep.Violation("C02", id, f.Sig, f.Detail, map[string]interface{}{"order": order, "who": who})
		}
		for _, q := range qs {
			if q.GVR == gvr && q.Name == sim.Name(orphan) && q.Verb == "update" && q.OK() && q.Applied {
				if !ownerRefsOnlyOursChanged(q.Pre, q.Post, uids[who]) {
					viol("foreign-owner-refs-changed", fmt.Sprintf("sync %s changed owner references other than its own: pre=%v post=%v", who, sim.OwnerRefs(q.Pre), sim.OwnerRefs(q.Post)))
				}
			}
		}
	}
	// at the end the orphan has at most one controller; attempts at a second one were rejected
	rejected := 0
	for _, q := range reqs {
		if q.Code == 422 {
			rejected++
		}
	}
	for res, objs := range s.Snapshot() {
		for k, o := range objs {
			n := 0
			for _, ref := range sim.OwnerRefs(o) {
				if ref.Controller {
					n++
				}
			}
			if n > 1 {
				viol("two-controllers", fmt.Sprintf("%s %s ended up with %d controller references", res, k, n))
			}
		}
	}
	winners := 0
	if cur := s.Peek(gvr, sim.NS(orphan), sim.Name(orphan)); cur != nil {
		if c := sim.ControllerOf(cur); c != nil && (c.UID == uids["A"] || c.UID == uids["B"]) {
			winners = 1
		}
	}
	rep.Counter("C04", "race_second_controller_attempts_rejected", int64(rejected))
	rep.Case("C04", id, true, id, map[string]interface{}{"order": order, "winnerExists": winners == 1, "rejectedSecondController": rejected, "errA": fmt.Sprint(errs["A"]), "errB": fmt.Sprint(errs["B"])})
	r.w.flushCounters("C04")
}
