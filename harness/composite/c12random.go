//go:build verif

package composite

import (
	"fmt"
	"math/rand"
	"reflect"
	"strings"
	"testing"
	"time"

	sim "metacontroller/pkg/verifsim"
)

// C12, random part: "for every explored scenario ... plus random multi-fault sequences". Scenarios
// come from the C01 generator (dynamic and server-side apply, rolling and plain strategies,
// cluster-scoped parents, several kinds, pre-existing objects, parent edits). Each is run twice in
// separate worlds: fault-free (the reference) and with API and hook faults injected at random
// positions during a window at the start of every phase. The real worker code does the queue
// bookkeeping. Judged: a sync hit by a hard fault is re-queued with back-off, a sync hit only by a
// 429 is re-queued after the delay, a sync without fault does not fail, nothing panics, no key is
// dropped, and after the faults stop each phase ends in the state the reference run ended in.

var c12rAPIFaults = []string{"500", "422", "410", "504-before", "504-after", "transport-before", "transport-after"}
var c12rHookFaults = []string{"500", "503", "refused", "garbage", "429"}

type c12rFault struct {
	Phase  int    `json:"phase"`
	Target string `json:"target"`
	Seq    int    `json:"nthRequestOfPhase"`
	Kind   string `json:"kind"`
	What   string `json:"what"`
}

func TestVerif_C12_RandomScenarios(t *testing.T) {
	n := sim.Pick(80, 15000)
	rng := sim.Rand("C12-random")
	for i := 0; i < n; i++ {
		scSeed, fSeed := rng.Int63(), rng.Int63()
		id := fmt.Sprintf("c12r%d", i)
		if !sim.WantCase(id) {
			continue
		}
		i := i
		t.Run(id, func(t *testing.T) {
			t.Parallel()
			runC12Random(t, id, i, scSeed, fSeed)
		})
	}
}

type c12rPhaseEnd struct {
	converged bool
	state     map[string]interface{}
}

// c12rDrive runs one world through all phases of its scenario. inject == nil: reference run.
func c12rDrive(t *testing.T, id string, r *scenarioRun, frng *rand.Rand, faults *[]c12rFault, viol func(sig, detail string, sr *syncResult)) (ends []c12rPhaseEnd, refClean bool, ok bool) {
	w := r.w
	st := w.sim
	refClean = true
	errored := map[string]bool{}
	phases := 1 + len(r.sc.Edits)
	for phase := 0; phase < phases; phase++ {
		if phase > 0 && !r.applyEdit(r.sc.Edits[phase-1]) {
			ends = append(ends, c12rPhaseEnd{converged: true, state: c12Normalize(r)})
			continue
		}
		// ---- arm the faults of this phase
		faultedSync := map[string]string{} // sync tag -> "hard" | "429"
		if frng != nil {
			window := 4 + frng.Intn(30)
			p := 0.08 + 0.25*frng.Float64()
			nreq, nhook := 0, 0
			st.SetFault(func(ri *sim.ReqInfo) *sim.Fault {
				if ri.OpSeq == 0 {
					return nil
				}
				nreq++
				if nreq > window || frng.Float64() > p {
					return nil
				}
				k := c12rAPIFaults[frng.Intn(len(c12rAPIFaults))]
				*faults = append(*faults, c12rFault{phase, "api", nreq, k, ri.Verb + " " + ri.GVR.Resource + " " + ri.Name})
				if prev := faultedSync[ri.Tag]; prev == "429" || prev == "mixed" {
					faultedSync[ri.Tag] = "mixed"
				} else {
					faultedSync[ri.Tag] = "hard"
				}
				switch k {
				case "500":
					return &sim.Fault{Code: 500}
				case "422":
					return &sim.Fault{Code: 422}
				case "410":
					return &sim.Fault{Code: 410}
				case "504-before":
					return &sim.Fault{Code: 504}
				case "504-after":
					return &sim.Fault{Code: 504, After: true}
				case "transport-before":
					return &sim.Fault{Transport: true}
				}
				return &sim.Fault{Transport: true, After: true}
			})
			w.hooks.SetOverride(func(call *sim.HookCall) *sim.HookResponse {
				nhook++
				if nreq > window || frng.Float64() > p {
					return nil
				}
				k := c12rHookFaults[frng.Intn(len(c12rHookFaults))]
				*faults = append(*faults, c12rFault{phase, "hook", nhook, k, call.Path})
				// (the per-revision hook calls of one sync run in parallel: a sync can see a 429 and a
				// hard failure at once, and which of the two it reports is not prescribed)
				switch prev := faultedSync[call.Tag]; {
				case k == "429" && prev == "":
					faultedSync[call.Tag] = "429"
				case k == "429" && prev == "hard", k != "429" && prev == "429":
					faultedSync[call.Tag] = "mixed"
				case k != "429" && prev == "":
					faultedSync[call.Tag] = "hard"
				}
				switch k {
				case "500":
					return &sim.HookResponse{Status: 500, Body: []byte("boom")}
				case "503":
					return &sim.HookResponse{Status: 503}
				case "refused":
					return &sim.HookResponse{Err: fmt.Errorf("dial tcp: connect: connection refused")}
				case "garbage":
					return &sim.HookResponse{Status: 200, Body: []byte(`{"children": [`)}
				}
				return &sim.HookResponse{Status: 429, Header: map[string]string{"Retry-After": "7"}}
			})
		}
		converged := false
		maxSteps := 10*r.roundBound() + 60
		for step := 0; step < maxSteps; step++ {
			if !w.quiesce() {
				return nil, false, false
			}
			if w.q.Len() == 0 {
				if r.envStep() {
					continue
				}
				if w.q.ReleaseDue(10*time.Second) == 0 {
					converged = true
					break
				}
				continue
			}
			sr := w.stepWorker()
			if sr == nil {
				continue
			}
			r.syncs = append(r.syncs, sr)
			var addRL, forget, addAfter int
			var afterDelay time.Duration
			for _, op := range sr.QueueOps {
				if op.Key != sr.Key {
					continue
				}
				switch op.Op {
				case "AddRateLimited":
					addRL++
				case "Forget":
					forget++
				case "AddAfter":
					addAfter++
					afterDelay = op.Delay
				}
			}
			if frng == nil {
				if addRL > 0 || sr.Panic != "" {
					refClean = false
				}
				continue
			}
			if sr.Panic != "" {
				continue // M-PANIC reports it
			}
			switch faultedSync[sr.Tag] {
			case "hard":
				if addRL == 0 {
					viol("random:hard-fault-not-reported:"+faultedVerb(sr), "a sync that was hit by an injected hard fault did not re-queue its parent with back-off", sr)
				}
				if addRL > 0 && forget > 0 {
					viol("random:forget-on-error", "the key was re-queued rate-limited and forgotten in the same sync", sr)
				}
			case "mixed":
				if addRL == 0 && addAfter == 0 {
					viol("random:faulted-sync-not-requeued:"+faultedVerb(sr), "a sync that was hit by a hard fault and a 429 answer re-queued its parent neither with back-off nor after the delay", sr)
				}
			case "429":
				if addRL > 0 {
					viol("random:429-counted-as-error", "only a 429 answer of the hook happened in this sync, yet the key was re-queued rate-limited", sr)
				}
				if addAfter == 0 || afterDelay != 7*time.Second {
					viol("random:429-not-requeued-after-delay", fmt.Sprintf("a 429 answer with Retry-After: 7 must re-queue the parent after 7s; AddAfter calls=%d delay=%v", addAfter, afterDelay), sr)
				}
			default:
				if addRL > 0 {
					viol("random:fault-free-sync-failed", "a sync in which no fault was injected reported an error", sr)
				}
			}
			if addRL > 0 {
				errored[sr.Key] = true
			}
			if forget > 0 {
				delete(errored, sr.Key)
			}
		}
		st.SetFault(nil)
		w.hooks.SetOverride(nil)
		ends = append(ends, c12rPhaseEnd{converged: converged, state: c12Normalize(r)})
		if !converged {
			if frng != nil {
				viol("random:no-convergence-after-faults", fmt.Sprintf("phase %d: %d worker steps after the faults stopped the controller still has not gone quiet", phase, maxSteps), nil)
			}
			return ends, false, true
		}
		if frng != nil && len(errored) > 0 {
			viol("random:work-dropped", fmt.Sprintf("phase %d: keys that failed were never synced successfully again: %v", phase, errored), nil)
		}
		// the state reached is the hook's desired state (the C01 oracle, evaluated outside metacontroller)
		r.checkFixedPoint(phase, func(sig, detail string) {
			if frng == nil {
				refClean = false
			} else {
				viol("random:after-faults:"+sig, detail, nil)
			}
		})
	}
	return ends, refClean, true
}

func runC12Random(t *testing.T, id string, idx int, scSeed, fSeed int64) {
	rep := sim.R()
	rep.Begin("C12", id)
	build := func(suffix string) (*scenarioRun, error) {
		return startScenario(genScenario(rand.New(rand.NewSource(scSeed)), fmt.Sprintf("c12r%d%s", idx, suffix)))
	}
	// ---- reference
	ref, err := build("r")
	if err != nil {
		inconclusive(t, "C12", id, fmt.Errorf("start: %v", err))
		return
	}
	ref.w.caseID = id
	refEnds, refClean, ok := c12rDrive(t, id, ref, nil, nil, nil)
	sc := ref.sc
	refFixed := true
	ref.close()
	if !ok {
		inconclusive(t, "C12", id, ref.w.watchdog)
		return
	}
	for _, e := range refEnds {
		refClean = refClean && e.converged
	}
	if sc.SSA && strings.Contains(sc.convergenceClass(), "rolling") {
		// server-side apply + rolling strategy stalls by itself at a point that depends on timing
		// (known finding KF3, judged by C01): no stable reference to compare with
		rep.Case("C12", id, false, "random/"+sc.shapeKey(), map[string]interface{}{"skipped": "ssa+rolling (KF3)", "scenario": sc})
		return
	}
	if !refClean || !refFixed {
		// the fault-free run itself fails or does not reach the desired state: that is C01's business
		// (known findings live there); nothing to compare a faulty run with
		rep.Case("C12", id, false, "random/"+sc.shapeKey(), map[string]interface{}{"skipped": "reference run not clean", "scenario": sc})
		return
	}
	// ---- faulty run
	fr, err := build("f")
	if err != nil {
		inconclusive(t, "C12", id, fmt.Errorf("start: %v", err))
		return
	}
	defer fr.close()
	fr.w.caseID = id
	defer fr.w.flushCounters("C12")
	var faults []c12rFault
	viol := func(sig, detail string, sr *syncResult) {
		wit := map[string]interface{}{"scenario": fr.sc, "scenarioSeed": scSeed, "faultSeed": fSeed, "faults": faults}
		if sr != nil {
			wit["requests"] = sim.DescribeLog(sr.Requests, false)
			wit["hooks"] = describeHooks(sr.Hooks)
			wit["queue"] = sr.QueueOps
		} else {
			wit["log"] = lastSyncLogs(fr.syncs, 6)
		}
		rep.Violation("C12", id, sig, detail, wit)
	}
	ends, _, ok := c12rDrive(t, id, fr, rand.New(rand.NewSource(fSeed)), &faults, viol)
	if !ok {
		inconclusive(t, "C12", id, fr.w.watchdog)
		return
	}
	for ph := range ends {
		if ph >= len(refEnds) || !ends[ph].converged {
			break
		}
		if sc.Mode == "ordered" || sc.EchoAnnotations {
			// (likewise a hook that echoes what it observed: its answer is a function of the path)
			// the hook's answer depends on what is ready when: with a strategy that never updates,
			// which objects get replaced on the way depends on when a fault delayed a delete. The end
			// state is judged by the fixed-point oracle above, not by equality with the reference
			break
		}
		a := normalizeSuffix(refEnds[ph].state, fmt.Sprintf("c12r%dr", idx))
		b := normalizeSuffix(ends[ph].state, fmt.Sprintf("c12r%df", idx))
		if !reflect.DeepEqual(a, b) {
			viol("random:final-state-differs:"+sc.convergenceClass(), fmt.Sprintf("phase %d: after the faults stopped the cluster converged to a state different from the fault-free run:\n%s", ph, diffMaps(a, b)), nil)
			break
		}
	}
	rep.Counter("C12", "random_faults_injected", int64(len(faults)))
	rep.Case("C12", id, len(faults) > 0, "random/"+sc.shapeKey()+"/"+sim.Hash(faults)[:6], map[string]interface{}{"scenario": sc, "faults": faults, "syncs": len(fr.syncs)})
}

// normalizeSuffix re-normalises a c12Normalize result of a world whose scenario id was `id`
// (c12Normalize replaced the id by "ID" already; this is for ids embedded differently).
func normalizeSuffix(m map[string]interface{}, id string) map[string]interface{} {
	out := map[string]interface{}{}
	for k, v := range m {
		out[strings.ReplaceAll(k, id, "ID")] = normalizeIDs(v, id)
	}
	return out
}
