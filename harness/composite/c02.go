//go:build verif

package composite

import (
	"fmt"
	"sync"
	"testing"

	sim "metacontroller/pkg/verifsim"
)

// C02 - only objects the parent controls are ever modified or deleted.
// M-OWN (world.syncKey) judges every sync of every scenario; this file adds the hostile
// schedules: an outside writer acts between any two requests of a sync (gated mode), on the
// object metacontroller is about to update, delete or adopt, with stale caches.

type c02Case struct {
	Method   string `json:"method"`
	SSA      bool   `json:"ssa"`
	Position int    `json:"position"` // 0 = before the sync with the child watch held, k = just before the k-th request of the sync
	Action   string `json:"action"`   // delete recreate-orphan recreate-foreign give-away disown
	Target   string `json:"target"`   // update-target delete-target adopt-target
}

func (c c02Case) id() string {
	return fmt.Sprintf("c02-%s-ssa%v-p%d-%s-%s", c.Method, c.SSA, c.Position, c.Action, c.Target)
}

var c02Actions = []string{"delete", "recreate-orphan", "recreate-nomatch", "recreate-foreign", "give-away", "disown"}
var c02Targets = []string{"update-target", "delete-target", "adopt-target"}

func TestVerif_C02_Hostile(t *testing.T) {
	for _, method := range []string{"InPlace", "Recreate"} {
		for _, ssa := range []bool{false, true} {
			if ssa && method == "Recreate" {
				continue // the strategy is not consulted under server-side apply
			}
			// find K = number of requests of the first sync in an undisturbed run
			k := c02Run(t, c02Case{Method: method, SSA: ssa, Position: -1}, true)
			if k <= 0 {
				continue
			}
			sim.R().Note("C02", fmt.Sprintf("method=%s ssa=%v: first sync issues %d requests; hostile action inserted at every position 0..%d", method, ssa, k, k))
			for pos := 0; pos <= k; pos++ {
				for _, action := range c02Actions {
					for _, target := range c02Targets {
						c := c02Case{Method: method, SSA: ssa, Position: pos, Action: action, Target: target}
						if !sim.WantCase(c.id()) {
							continue
						}
						t.Run(c.id(), func(t *testing.T) {
							t.Parallel()
							c02Run(t, c, false)
						})
					}
				}
			}
		}
	}
}

// c02Run executes one hostile schedule; with probe=true it only measures the request count of the
// parent's first sync.
func c02Run(t *testing.T, c c02Case, probe bool) int {
	rep := sim.R()
	id := c.id()
	if !probe {
		rep.Begin("C02", id)
	}
	uid := uniqueID("h")
	sc := &scenario{ID: uid, SSA: c.SSA, Kinds: []kindCfg{{Kind: "Widget", Method: c.Method}}}
	upd := kidCfg{Kind: "Widget", Name: "upd-" + uid, Value: "v1"}
	ado := kidCfg{Kind: "Widget", Name: "ado-" + uid, Value: "v1"}
	sc.Kids = []kidCfg{upd, ado}
	r := prepareScenario(sc)
	defer r.close()
	r.w.caseID = id
	r.w.noViewMonitor = true // an outside writer acts behind a stale cache: the view is stale by construction
	s := r.w.sim
	gvr := sim.WidgetInfo.GVR()
	ns := sc.ns()
	// owned child that differs (update / recreate target)
	s.MustCreate(gvr, r.asCreatedByMC(upd, "old"))
	// owned child no longer desired (delete target)
	s.MustCreate(gvr, r.asCreatedByMC(kidCfg{Kind: "Widget", Name: "del-" + uid}, "v1"))
	// matching orphan with a desired name (adopt target)
	orphan := r.desiredChild(ado, "old")
	sim.SetNested(orphan, ns, "metadata", "namespace")
	s.MustCreate(gvr, orphan)
	// bystanders that must never be written
	foreignOwner := sim.Obj{"apiVersion": "apps/v1", "kind": "ReplicaSet", "metadata": sim.Obj{"name": "rs", "uid": "rs-" + uid}}
	by := r.desiredChild(kidCfg{Kind: "Widget", Name: "bystander-" + uid}, "v1")
	sim.SetNested(by, ns, "metadata", "namespace")
	s.MustCreate(gvr, sim.AddOwner(by, foreignOwner, true))

	targetName := map[string]string{"update-target": upd.Name, "delete-target": "del-" + uid, "adopt-target": ado.Name}[c.Target]
	var once sync.Once
	acted := false
	changedOwner := map[string]bool{}
	replaced := map[string]bool{}
	act := func() {
		once.Do(func() {
			acted = true
			switch c.Action {
			case "delete":
				s.ExtDelete(gvr, ns, targetName, "")
			case "recreate-orphan", "recreate-nomatch", "recreate-foreign":
				old := s.Peek(gvr, ns, targetName)
				s.ExtDelete(gvr, ns, targetName, "")
				n := sim.NewObject(sim.WidgetInfo, ns, targetName)
				sim.SetLabels(n, sim.Labels(old))
				if c.Action == "recreate-nomatch" {
					// somebody else's object that merely has the same name
					sim.SetLabels(n, map[string]string{"app": "somebody-else"})
				}
				n["spec"] = sim.Obj{"value": "successor"}
				if c.Action == "recreate-foreign" {
					sim.AddOwner(n, foreignOwner, true)
				}
				s.ExtCreate(gvr, n)
				replaced[targetName] = true
			case "give-away":
				s.ExtMutate(gvr, ns, targetName, func(o sim.Obj) {
					delete(o["metadata"].(map[string]interface{}), "ownerReferences")
					sim.AddOwner(o, foreignOwner, true)
				})
				changedOwner[targetName] = true
			case "disown":
				s.ExtMutate(gvr, ns, targetName, func(o sim.Obj) {
					delete(o["metadata"].(map[string]interface{}), "ownerReferences")
				})
				changedOwner[targetName] = true
			}
		})
	}
	r.w.ownSig = func(f sim.Finding) string {
		// Known shape (D14): a delete conditioned on the observed UID is accepted although someone
		// changed the object's controller after the (stale) observation - the UID is unchanged.
		if f.Req != nil && f.Req.Verb == "delete" && changedOwner[f.Req.Name] {
			return "delete-of-uncontrolled:owner-changed-after-observation"
		}
		if f.Req != nil && changedOwner[f.Req.Name] {
			return f.Sig + ":owner-changed-after-observation"
		}
		if f.Req != nil && replaced[f.Req.Name] {
			return f.Sig + ":replaced-after-observation"
		}
		return f.Sig
	}
	if err := r.w.start(); err != nil {
		if !probe {
			inconclusive(t, "C02", id, err)
		}
		return -1
	}
	if !probe {
		defer r.w.flushCounters("C02")
	}
	if !r.w.quiesce() {
		if !probe {
			inconclusive(t, "C02", id, r.w.watchdog)
		}
		return -1
	}
	if c.Position == 0 {
		// stale cache: the outside writer acts while the child watch is held
		s.HoldWatch(gvr, true)
		act()
	} else if c.Position > 0 {
		n := 0
		key := sc.parentKey()
		s.SetGate(func(ri *sim.ReqInfo) {
			if ri.OpSeq == 0 || ri.Tag == "" || !hasSuffix(ri.Tag, ":"+key) {
				return
			}
			n++
			if n == c.Position {
				act()
			}
		})
	}
	// first round with the hostile action, then let everything settle
	first := -1
	for round := 0; round < 8; round++ {
		syncs, ok := r.w.round()
		if !ok {
			if !probe {
				inconclusive(t, "C02", id, r.w.watchdog)
			}
			return -1
		}
		if round == 0 {
			s.SetGate(nil)
			for _, sr := range syncs {
				if sr.Key == sc.parentKey() && first < 0 {
					first = 0
					for _, q := range sr.Requests {
						if q.Actor == "mc" && q.OpSeq > 0 {
							first++
						}
					}
				}
			}
			if c.Position == 0 {
				s.HoldWatch(gvr, false)
			}
		}
		if len(syncs) == 0 {
			break
		}
	}
	if probe {
		return first
	}
	// bystander untouched
	for _, q := range s.Log() {
		if q.Actor == "mc" && q.Mutating() && q.Name == "bystander-"+uid {
			rep.Violation("C02", id, "bystander-written", "an object controlled by someone else received a write: "+q.String(), map[string]interface{}{"case": c})
		}
	}
	rep.Case("C02", id, acted, fmt.Sprintf("%s/%v/%s/%s/p%d", c.Method, c.SSA, c.Action, c.Target, c.Position), map[string]interface{}{"case": c, "log": sim.DescribeLog(s.Log(), false)})
	return first
}

func hasSuffix(s, suf string) bool { return len(s) >= len(suf) && s[len(s)-len(suf):] == suf }

// Desired children that arrive with owner references of their own (a template cloned from an
// object somebody else owns, or an observed child echoed back): whatever the hook wrote there,
// every object metacontroller gets created carries exactly one controller reference, to the
// parent, and references that belong to others are not lost on the way. M-OWN judges the
// requests; this test supplies the inputs.
func TestVerif_C02_DesiredOwnerRefs(t *testing.T) {
	for _, refs := range []string{"foreign-controller", "foreign-plain", "parent-echo", "parent-wrong-uid", "two-foreign-plain", "parent-plain", "parent-controller-false"} {
		for _, ssa := range []bool{false, true} {
			for _, existing := range []bool{false, true} {
				for _, kind := range []string{"Widget", "ConfigMap"} {
					refs, ssa, existing, kind := refs, ssa, existing, kind
					id := fmt.Sprintf("c02-desired-ownerrefs-%s-ssa%v-existing%v-%s", refs, ssa, existing, lower(kind))
					if !sim.WantCase(id) {
						continue
					}
					t.Run(id, func(t *testing.T) {
						t.Parallel()
						runC02OwnerRefs(t, id, refs, ssa, existing, kind)
					})
				}
			}
		}
	}
}

func runC02OwnerRefs(t *testing.T, id, refs string, ssa, existing bool, kind string) {
	rep := sim.R()
	rep.Begin("C02", id)
	uid := uniqueID("o")
	sc := &scenario{ID: uid, SSA: ssa, Kinds: []kindCfg{{Kind: kind, Method: "InPlace"}}}
	kid := kidCfg{Kind: kind, Name: "kid-" + uid, Value: "v1"}
	plain := kidCfg{Kind: kind, Name: "plain-" + uid, Value: "v1"}
	sc.Kids = []kidCfg{kid, plain}
	r := prepareScenario(sc)
	defer r.close()
	r.w.caseID = id
	s := r.w.sim
	ri := kindInfo(kind)
	ref := func(name, uid string, controller bool) interface{} {
		m := sim.Obj{"apiVersion": "apps/v1", "kind": "ReplicaSet", "name": name, "uid": uid}
		if controller {
			m["controller"] = true
			m["blockOwnerDeletion"] = true
		}
		return m
	}
	var want []interface{}
	switch refs {
	case "foreign-controller":
		want = []interface{}{ref("rs", "rs-"+uid, true)}
	case "foreign-plain":
		want = []interface{}{ref("rs", "rs-"+uid, false)}
	case "two-foreign-plain":
		want = []interface{}{ref("rs", "rs-"+uid, false), ref("rs2", "rs2-"+uid, false)}
	case "parent-echo":
		want = []interface{}{sim.Obj{"apiVersion": sc.parentInfo().APIVersion(), "kind": sc.parentInfo().Kind, "name": sc.parentName(), "uid": sim.UID(r.parent), "controller": true, "blockOwnerDeletion": true}}
	case "parent-plain":
		// the hook lists the parent itself, as a plain (non-controller) owner
		want = []interface{}{sim.Obj{"apiVersion": sc.parentInfo().APIVersion(), "kind": sc.parentInfo().Kind, "name": sc.parentName(), "uid": sim.UID(r.parent)}}
	case "parent-controller-false":
		// ... or with an explicit `controller: false` (a non-nil pointer to false is not "is the controller")
		want = []interface{}{sim.Obj{"apiVersion": sc.parentInfo().APIVersion(), "kind": sc.parentInfo().Kind, "name": sc.parentName(), "uid": sim.UID(r.parent), "controller": false, "blockOwnerDeletion": false}}
	case "parent-wrong-uid":
		want = []interface{}{sim.Obj{"apiVersion": sc.parentInfo().APIVersion(), "kind": sc.parentInfo().Kind, "name": sc.parentName(), "uid": "previous-incarnation-" + uid, "controller": true, "blockOwnerDeletion": true}}
	}
	kid.MetaExtra = map[string]interface{}{"ownerReferences": want}
	r.kids = []kidCfg{kid, plain}
	s.ExtMutate(sc.parentInfo().GVR(), sc.ns(), sc.parentName(), func(o sim.Obj) {
		o["spec"] = sc.parentObject(r.kids, r.rev, r.extra)["spec"]
	})
	if existing {
		s.MustCreate(ri.GVR(), r.asCreatedByMC(kidCfg{Kind: kind, Name: kid.Name, Value: "old"}, "old"))
	}
	if err := r.w.start(); err != nil {
		inconclusive(t, "C02", id, err)
		return
	}
	defer r.w.flushCounters("C02")
	nsync := 0
	for round := 0; round < 5; round++ {
		if round > 0 {
			r.w.q.Add(sc.parentKey())
		}
		syncs, ok := r.w.round()
		if !ok {
			inconclusive(t, "C02", id, r.w.watchdog)
			return
		}
		nsync += len(syncs)
	}
	// what exists now carries exactly one controller reference (the parent's); the sibling without
	// references of its own is there in any case
	cns := sc.childNS(kid)
	for _, n := range []string{kid.Name, plain.Name} {
		cur := s.Peek(ri.GVR(), cns, n)
		if cur == nil {
			if n == plain.Name {
				rep.Violation("C02", id, "sibling-not-created", "the desired child without owner references of its own was not created", map[string]interface{}{"refs": refs})
			}
			continue
		}
		if existing && n == kid.Name {
			// an existing child is *updated* towards what the hook specified, owner references
			// included (that is C05's merge; a hook that names another incarnation of the parent
			// there gets what it asked for); the birth rule is about creations
			continue
		}
		nc := 0
		for _, or := range sim.OwnerRefs(cur) {
			if or.Controller {
				nc++
			}
		}
		if c := sim.ControllerOf(cur); nc != 1 || c == nil || c.UID != sim.UID(r.parent) {
			rep.Violation("C02", id, "child-exists-without-parent-controller-ref:"+refs, fmt.Sprintf("%s exists with ownerReferences %v; want exactly one controller reference, to the parent", n, sim.OwnerRefs(cur)), map[string]interface{}{"refs": refs, "ssa": ssa, "existing": existing})
		}
	}
	rep.Case("C02", id, nsync > 0, id, map[string]interface{}{"refs": refs, "ssa": ssa, "existing": existing, "kind": kind, "syncs": nsync, "log": sim.DescribeLog(s.Log(), true)})
}
