//go:build verif

package decorator

import (
	"context"
	"fmt"
	"sort"
	"strings"
	"sync/atomic"
	"testing"
	"time"

	apiextensionsv1 "k8s.io/apiextensions-apiserver/pkg/apis/apiextensions/v1"
	metav1 "k8s.io/apimachinery/pkg/apis/meta/v1"
	"k8s.io/apimachinery/pkg/runtime"
	"k8s.io/apimachinery/pkg/runtime/schema"
	"k8s.io/apimachinery/pkg/types"
	"sigs.k8s.io/controller-runtime/pkg/client"
	"sigs.k8s.io/controller-runtime/pkg/client/fake"
	"sigs.k8s.io/controller-runtime/pkg/reconcile"

	"metacontroller/pkg/apis/metacontroller/v1alpha1"
	"metacontroller/pkg/controller/common"
	env "metacontroller/pkg/verifenv"
	sim "metacontroller/pkg/verifsim"
)

// C20 (decorator side) - hosted controllers follow their DecoratorController objects.
// The real Metacontroller reconciler built from real parts (simulator-backed discovery, dynamic
// clientset, shared informer factory, ControllerRevision informer; a controller-runtime fake
// client holds the CompositeController and CRD objects); Reconcile is called directly after each
// step of every short history; hosted controllers run real workers.

type c20Step struct {
	Op   string `json:"op"`   // create update-spec update-meta delete reconcile-other
	Name int    `json:"name"` // 0 or 1
	Spec string `json:"spec"` // valid | one of the invalid kinds (for create / update-spec)
}

func (s c20Step) String() string { return fmt.Sprintf("%s(c%d,%s)", s.Op, s.Name, s.Spec) }

var c20InvalidSpecs = []string{"unknown-parent", "unknown-child", "no-hooks", "no-sync-hook", "webhook-no-url", "service-no-name", "negative-timeout", "etag-timeout-only", "etag-all", "customize"}

type c20World struct {
	id     string
	sim    *sim.Server
	env    *env.Env
	hooks  *sim.HookSite
	k8s    client.Client
	mc     *Metacontroller
	gen    map[int]int // generation counter per controller name
	exists map[int]bool
	valid  map[int]bool
	spec   map[int]string
	caseID string
}

func c20Scheme() *runtime.Scheme {
	s := runtime.NewScheme()
	v1alpha1.AddToScheme(s)
	apiextensionsv1.AddToScheme(s)
	return s
}

func newC20World(id string) (*c20World, error) {
	s := sim.NewCluster()
	e, err := env.New(s, false)
	if err != nil {
		return nil, err
	}
	w := &c20World{id: id, sim: s, env: e, gen: map[int]int{}, exists: map[int]bool{}, valid: map[int]bool{}, spec: map[int]string{}}
	w.hooks = sim.NewHookSite(s.Clock(), s.Tag)
	crd := func(plural, kind string, status bool) *apiextensionsv1.CustomResourceDefinition {
		v := apiextensionsv1.CustomResourceDefinitionVersion{Name: "v1", Served: true, Storage: true}
		// the CRD has three versions; the one the controllers use is neither the first nor the last,
		// and its neighbours have a status subresource whether or not it has one itself
		older := apiextensionsv1.CustomResourceDefinitionVersion{Name: "v1alpha1", Served: true, Subresources: &apiextensionsv1.CustomResourceSubresources{Status: &apiextensionsv1.CustomResourceSubresourceStatus{}}}
		newer := apiextensionsv1.CustomResourceDefinitionVersion{Name: "v2", Served: true, Subresources: &apiextensionsv1.CustomResourceSubresources{Status: &apiextensionsv1.CustomResourceSubresourceStatus{}}}
		if status {
			v.Subresources = &apiextensionsv1.CustomResourceSubresources{Status: &apiextensionsv1.CustomResourceSubresourceStatus{}}
		}
		return &apiextensionsv1.CustomResourceDefinition{ObjectMeta: metav1.ObjectMeta{Name: plural + ".ctest.dev"},
			Spec: apiextensionsv1.CustomResourceDefinitionSpec{Group: "ctest.dev", Names: apiextensionsv1.CustomResourceDefinitionNames{Plural: plural, Kind: kind}, Versions: []apiextensionsv1.CustomResourceDefinitionVersion{older, v, newer}}}
	}
	w.k8s = fake.NewClientBuilder().WithScheme(c20Scheme()).WithObjects(crd("things", "Thing", true), crd("nostatuses", "NoStatus", false)).Build()
	ctx := common.ControllerContext{K8sClient: w.k8s, Resources: e.Resources, DynClient: e.DynClient, DynInformers: e.DynInformers, McClient: e.McClient, EventRecorder: env.NopRecorder{}}
	w.mc = NewMetacontroller(ctx, 2)
	return w, nil
}

func (w *c20World) close() {
	for name, pc := range w.mc.decoratorControllers {
		pc := pc
		if _, _, hung := guardReconcile(func() { pc.Stop() }, len(w.mc.decoratorControllers)-1); hung != "" {
			sim.R().Violation("C20", w.caseID, "stop-blocked-forever:doneCh-never-closed", "(*decoratorController).Stop is parked waiting for doneCh while the controller goroutine that alone closes it is gone (two goroutine dumps 2 s apart):\n"+hung, nil)
		}
		delete(w.mc.decoratorControllers, name)
	}
	w.env.Close()
	w.hooks.Close()
}

func (w *c20World) ccName(i int) string { return fmt.Sprintf("cc%d-%s", i, w.id) }

// hookPath identifies controller name and instance generation in every hook URL.
func (w *c20World) hookPath(i, gen int, hook string) string {
	return fmt.Sprintf("c%d/g%d/%s", i, gen, hook)
}

func (w *c20World) build(i int, specKind string) *v1alpha1.DecoratorController {
	gen := w.gen[i]
	hk := func(hook string) *v1alpha1.Hook {
		u := w.hooks.URL(w.hookPath(i, gen, hook))
		return &v1alpha1.Hook{Webhook: &v1alpha1.Webhook{URL: &u}}
	}
	dc := &v1alpha1.DecoratorController{ObjectMeta: metav1.ObjectMeta{Name: w.ccName(i)}}
	rule := v1alpha1.DecoratorControllerResourceRule{LabelSelector: &metav1.LabelSelector{MatchLabels: map[string]string{"managed-by": w.ccName(i)}}}
	rule.APIVersion = "ctest.dev/v1"
	rule.Resource = "things"
	dc.Spec.Resources = []v1alpha1.DecoratorControllerResourceRule{rule}
	att := v1alpha1.DecoratorControllerAttachmentRule{UpdateStrategy: &v1alpha1.DecoratorControllerAttachmentUpdateStrategy{Method: v1alpha1.ChildUpdateInPlace}}
	att.APIVersion = "v1"
	att.Resource = "configmaps"
	dc.Spec.Attachments = []v1alpha1.DecoratorControllerAttachmentRule{att}
	dc.Spec.Hooks = &v1alpha1.DecoratorControllerHooks{Sync: hk("sync")}
	switch specKind {
	case "unknown-parent":
		dc.Spec.Resources[0].Resource = "nonexistent"
	case "unknown-child":
		bad := v1alpha1.DecoratorControllerAttachmentRule{}
		bad.APIVersion = "nope.dev/v1"
		bad.Resource = "nothings"
		dc.Spec.Attachments = append(dc.Spec.Attachments, bad)
	case "no-hooks":
		dc.Spec.Hooks = nil
	case "no-sync-hook":
		dc.Spec.Hooks = &v1alpha1.DecoratorControllerHooks{Finalize: hk("finalize")}
	case "webhook-no-url":
		dc.Spec.Hooks.Sync = &v1alpha1.Hook{Webhook: &v1alpha1.Webhook{}}
	case "service-no-name":
		p := "/sync"
		dc.Spec.Hooks.Sync = &v1alpha1.Hook{Webhook: &v1alpha1.Webhook{Path: &p, Service: &v1alpha1.ServiceReference{Namespace: "x"}}}
	case "negative-timeout":
		dc.Spec.Hooks.Sync.Webhook.Timeout = &metav1.Duration{Duration: -5 * time.Second}
	case "etag-timeout-only":
		tr, to := true, int32(60)
		dc.Spec.Hooks.Sync.Webhook.Etag = &v1alpha1.WebhookEtagConfig{Enabled: &tr, CacheTimeoutSeconds: &to}
	case "etag-all":
		tr, to, cl := true, int32(60), int32(120)
		dc.Spec.Hooks.Sync.Webhook.Etag = &v1alpha1.WebhookEtagConfig{Enabled: &tr, CacheTimeoutSeconds: &to, CacheCleanupSeconds: &cl}
	case "customize":
		dc.Spec.Hooks.Customize = hk("customize")
	}
	return dc
}

// startsOK tells whether a spec kind is expected to yield a running instance.
func c20StartsOK(specKind string) bool {
	switch specKind {
	case "valid", "negative-timeout", "etag-timeout-only", "etag-all", "customize", "no-sync-hook":
		return true
	}
	return false
}

func (w *c20World) reconcile(i int) (err error, panicMsg string) {
	others := len(w.mc.decoratorControllers)
	if _, ok := w.mc.decoratorControllers[w.ccName(i)]; ok {
		others--
	}
	stack, p, hung := guardReconcile(func() {
		_, err = w.mc.Reconcile(context.TODO(), reconcile.Request{NamespacedName: types.NamespacedName{Name: w.ccName(i)}})
	}, others)
	if hung != "" {
		sim.R().Violation("C20", w.caseID, "reconcile-blocked-forever:Stop-waits-for-doneCh", "Reconcile is parked in (*decoratorController).Stop waiting for doneCh while the controller goroutine that alone closes it is gone (two goroutine dumps 2 s apart):\n"+hung, nil)
		return fmt.Errorf("reconcile never returned"), "reconcile never returned"
	}
	if p {
		return fmt.Errorf("panic"), stack
	}
	return err, ""
}

// watchCounts: open watch streams per resource at the API server (the observable face of the
// factory's subscription counts).
func (w *c20World) watchCounts() map[string]int {
	out := map[string]int{}
	for _, ri := range []sim.ResourceInfo{sim.ThingInfo, sim.NoStatusInfo, sim.ConfigMapInfo, sim.SecretInfo, sim.WidgetInfo} {
		if n := w.sim.OpenWatches(ri.GVR()); n > 0 {
			out[ri.Resource] = n
		}
	}
	return out
}

func TestVerif_C20_DecoratorHistories(t *testing.T) {
	maxLen := sim.Pick(3, 4)
	ops := []string{"create", "update-spec", "update-meta", "delete", "reconcile-other"}
	var seqs [][]c20Step
	var rec func(prefix []c20Step, exists [2]bool)
	rec = func(prefix []c20Step, exists [2]bool) {
		if len(prefix) == maxLen {
			seqs = append(seqs, append([]c20Step(nil), prefix...))
			return
		}
		for n := 0; n < 2; n++ {
			for _, op := range ops {
				switch op {
				case "create":
					if exists[n] {
						continue
					}
					e2 := exists
					e2[n] = true
					rec(append(prefix, c20Step{Op: op, Name: n, Spec: "valid"}), e2)
				case "delete":
					if !exists[n] {
						continue
					}
					e2 := exists
					e2[n] = false
					rec(append(prefix, c20Step{Op: op, Name: n}), e2)
				case "update-spec", "update-meta":
					if !exists[n] {
						continue
					}
					rec(append(prefix, c20Step{Op: op, Name: n, Spec: "valid"}), exists)
				case "reconcile-other":
					if n == 0 {
						rec(append(prefix, c20Step{Op: op, Name: n}), exists)
					}
				}
			}
		}
	}
	rec(nil, [2]bool{})
	// invalid / unusual specs injected at every position of a few base histories
	rng := sim.Rand("C20")
	for _, inv := range c20InvalidSpecs {
		seqs = append(seqs,
			[]c20Step{{Op: "create", Name: 0, Spec: inv}, {Op: "update-spec", Name: 0, Spec: "valid"}, {Op: "delete", Name: 0}},
			[]c20Step{{Op: "create", Name: 0, Spec: "valid"}, {Op: "update-spec", Name: 0, Spec: inv}, {Op: "update-spec", Name: 0, Spec: "valid"}, {Op: "delete", Name: 0}},
			[]c20Step{{Op: "create", Name: 0, Spec: inv}, {Op: "create", Name: 1, Spec: "valid"}, {Op: "delete", Name: 0}, {Op: "delete", Name: 1}},
		)
	}
	stride := sim.Pick(len(seqs)/120+1, 1)
	_ = rng
	k := 0
	for i, sq := range seqs {
		if i%stride != int(sim.Seed())%stride && i < len(seqs)-3*len(c20InvalidSpecs) {
			continue
		}
		k++
		id := fmt.Sprintf("c20-decorator-h%d", i)
		sq := sq
		if !sim.WantCase(id) {
			continue
		}
		t.Run(id, func(t *testing.T) {
			t.Parallel()
			runC20(t, id, sq)
		})
	}
	sim.R().Note("C20", fmt.Sprintf("histories: %d enumerated (length %d over 2 controller names + invalid-spec variants), %d executed", len(seqs), maxLen, k))
}

func runC20(t *testing.T, id string, steps []c20Step) {
	rep := sim.R()
	rep.Begin("C20", id)
	uid := uniqueID("v")
	w, err := newC20World(uid)
	if err != nil {
		inconclusive(t, "C20", id, err)
		return
	}
	w.caseID = id
	defer w.close()
	s := w.sim
	var desc []string
	viol := func(sig, detail string) {
		rep.Violation("C20", id, sig, detail, map[string]interface{}{"steps": desc, "watches": w.watchCounts()})
	}
	// every hook path answers with one ConfigMap child; customize selects secrets
	answer := func(call *sim.HookCall) sim.HookResponse {
		if strings.HasSuffix(call.Path, "/customize") {
			return sim.HookResponse{Status: 200, Body: []byte(`{"relatedResources":[{"apiVersion":"v1","resource":"secrets","labelSelector":{}}]}`)}
		}
		p, _ := call.Req["object"].(map[string]interface{})
		body := fmt.Sprintf(`{"annotations":{"seen-by":%q},"attachments":[{"apiVersion":"v1","kind":"ConfigMap","metadata":{"name":"cm-%s"},"data":{"by":%q}}]}`, call.Path, sim.Name(p), call.Path)
		return sim.HookResponse{Status: 200, Body: []byte(body)}
	}
	w.hooks.SetOverride(func(call *sim.HookCall) *sim.HookResponse { r := answer(call); return &r })
	// parents already present in the cluster, one per controller name
	for i := 0; i < 2; i++ {
		p := sim.NewObject(sim.ThingInfo, "ns-"+uid, fmt.Sprintf("p%d", i))
		sim.SetLabels(p, map[string]string{"managed-by": w.ccName(i)})
		p["spec"] = sim.Obj{"n": int64(0)}
		s.MustCreate(sim.ThingInfo.GVR(), p)
		// two more parents of the same controller, so that its workers start out concurrently
		for _, suffix := range []string{"x", "y"} {
			q := sim.DeepCopy(p)
			sim.SetNested(q, fmt.Sprintf("p%d%s", i, suffix), "metadata", "name")
			delete(q["metadata"].(map[string]interface{}), "uid")
			delete(q["metadata"].(map[string]interface{}), "resourceVersion")
			s.MustCreate(sim.ThingInfo.GVR(), q)
		}
	}
	baseline := w.watchCounts()
	touch := func(i int) {
		s.ExtMutate(sim.ThingInfo.GVR(), "ns-"+uid, fmt.Sprintf("p%d", i), func(o sim.Obj) {
			n, _ := sim.Nested(o, "spec", "n")
			nn, _ := n.(int64)
			sim.SetNested(o, nn+1, "spec", "n")
		})
	}
	// waitHook waits until a hook call with the given path prefix shows up after mark (true) or
	// the watchdog fires (false).
	waitHook := func(mark int, prefix string) bool {
		deadline := time.Now().Add(20 * time.Second)
		for {
			for _, c := range w.hooks.Since(mark) {
				if strings.HasPrefix(c.Path, prefix) && c.EndSeq > 0 {
					return true
				}
			}
			if time.Now().After(deadline) {
				return false
			}
			time.Sleep(300 * time.Microsecond)
		}
	}
	settle := func() {
		// let in-flight work finish: nothing in flight at the API server or the hook site, stable
		stable := 0
		deadline := time.Now().Add(20 * time.Second)
		for stable < 6 && time.Now().Before(deadline) {
			idle := s.InFlight() == 0 && w.hooks.InFlight() == 0
			for _, pc := range w.mc.decoratorControllers {
				if pc.queue.Len() > 0 {
					idle = false
				}
			}
			if idle {
				stable++
			} else {
				stable = 0
			}
			time.Sleep(400 * time.Microsecond)
		}
	}
	instances := map[int]*decoratorController{}
	for _, st := range steps {
		desc = append(desc, st.String())
		i := st.Name
		ctx := context.TODO()
		prevInstance := w.mc.decoratorControllers[w.ccName(i)]
		prevGen := w.gen[i]
		reqMark := s.Mark()
		switch st.Op {
		case "create":
			w.gen[i]++
			cc := w.build(i, st.Spec)
			if err := w.k8s.Create(ctx, cc); err != nil {
				inconclusive(t, "C20", id, err)
				return
			}
			w.exists[i], w.spec[i] = true, st.Spec
		case "update-spec":
			w.gen[i]++
			cur := &v1alpha1.DecoratorController{}
			if err := w.k8s.Get(ctx, types.NamespacedName{Name: w.ccName(i)}, cur); err != nil {
				inconclusive(t, "C20", id, err)
				return
			}
			cur.Spec = w.build(i, st.Spec).Spec
			if err := w.k8s.Update(ctx, cur); err != nil {
				inconclusive(t, "C20", id, err)
				return
			}
			w.spec[i] = st.Spec
		case "update-meta":
			cur := &v1alpha1.DecoratorController{}
			if err := w.k8s.Get(ctx, types.NamespacedName{Name: w.ccName(i)}, cur); err != nil {
				inconclusive(t, "C20", id, err)
				return
			}
			if cur.Annotations == nil {
				cur.Annotations = map[string]string{}
			}
			cur.Annotations["touched"] = fmt.Sprint(len(desc))
			if err := w.k8s.Update(ctx, cur); err != nil {
				inconclusive(t, "C20", id, err)
				return
			}
		case "delete":
			cur := &v1alpha1.DecoratorController{ObjectMeta: metav1.ObjectMeta{Name: w.ccName(i)}}
			if err := w.k8s.Delete(ctx, cur); err != nil {
				inconclusive(t, "C20", id, err)
				return
			}
			w.exists[i] = false
		case "reconcile-other":
			// a spurious reconcile of a name that did not change
		}
		hookMark := w.hooks.Mark()
		// a delete that arrives while a sync of the instance is in flight: the hook call of that
		// sync is held until Reconcile has returned (or 300 ms have passed: a Stop that waits for
		// its workers cannot return before the call is answered)
		var released chan struct{}
		if st.Op == "delete" && prevInstance != nil && c20StartsOK(w.spec[i]) && w.spec[i] != "no-sync-hook" {
			released = make(chan struct{})
			entered := make(chan struct{}, 1)
			prefix := fmt.Sprintf("c%d/g%d/", i, prevGen)
			rel := released
			w.hooks.SetGate(func(call *sim.HookCall) {
				if !strings.HasPrefix(call.Path, prefix) {
					return
				}
				select {
				case entered <- struct{}{}:
				default:
				}
				select {
				case <-rel:
				case <-time.After(300 * time.Millisecond):
				}
			})
			touch(i)
			select {
			case <-entered:
			case <-time.After(2 * time.Second):
			}
		}
		rerr, pan := w.reconcile(i)
		returnedAt := atomic.LoadInt64(s.Clock())
		if released != nil {
			close(released)
			w.hooks.SetGate(nil)
		}
		if pan != "" {
			viol("panic:"+sim.PanicSite(pan)+":"+st.Spec, "Reconcile panicked (this takes the whole process down): "+pan)
			return
		}
		wantRunning := w.exists[i] && c20StartsOK(w.spec[i])
		inst := w.mc.decoratorControllers[w.ccName(i)]
		if wantRunning && inst == nil {
			viol("not-started:"+w.spec[i], fmt.Sprintf("after %s the object exists with a usable spec (%s) but no hosted controller is registered (reconcile error: %v)", st, w.spec[i], rerr))
		}
		if !wantRunning && inst != nil {
			viol("running-without-valid-object:"+w.spec[i], fmt.Sprintf("after %s no hosted controller must be running (exists=%v spec=%s)", st, w.exists[i], w.spec[i]))
		}
		if w.exists[i] && !c20StartsOK(w.spec[i]) && w.spec[i] != "crd-no-status" && rerr == nil {
			viol("unusable-spec-not-reported:"+w.spec[i], "a configuration that cannot start was accepted without an error")
		}
		// (4) a no-op update / spurious reconcile keeps the instance and opens nothing
		if st.Op == "update-meta" || st.Op == "reconcile-other" {
			if inst != prevInstance {
				viol("instance-replaced-by-noop:"+st.Op, "an update that leaves the spec unchanged (or a spurious reconcile) replaced the hosted controller instance")
			}
			for _, q := range s.Since(reqMark) {
				if q.Verb == "watch" || q.Verb == "list" {
					viol("noop-relisted:"+st.Op, "a no-op update caused a LIST/WATCH: "+q.String())
					break
				}
			}
		}
		if st.Op == "update-spec" && prevInstance != nil && inst == prevInstance {
			viol("spec-change-kept-old-instance", "the spec changed but the old hosted controller instance was kept")
		}
		instances[i] = inst
		settle()
		// (1) observable effect: the running instance (and only it) handles its parent
		if wantRunning && inst != nil && w.spec[i] != "no-sync-hook" {
			touch(i)
			prefix := fmt.Sprintf("c%d/g%d/", i, w.gen[i])
			if st.Op == "update-meta" || st.Op == "reconcile-other" {
				prefix = fmt.Sprintf("c%d/g%d/", i, prevGen)
			}
			if !waitHook(hookMark, prefix) {
				viol("instance-not-working:"+w.spec[i], fmt.Sprintf("the hosted controller for c%d (generation %d) never called its hook after its parent changed", i, w.gen[i]))
			}
		}
		// (2) after a stop no hook call carries an older generation's URL
		if st.Op == "delete" || st.Op == "update-spec" {
			touch(i)
			settle()
			time.Sleep(3 * time.Millisecond)
			settle()
			for _, c := range w.hooks.Since(hookMark) {
				if c.Seq <= returnedAt {
					continue // started before Reconcile returned: the stop had not completed yet
				}
				var ci, cg int
				var rest string
				if n, _ := fmt.Sscanf(strings.ReplaceAll(c.Path, "/", " "), "c%d g%d %s", &ci, &cg, &rest); n >= 2 && ci == i {
					stale := cg < w.gen[i] || (st.Op == "delete")
					if stale && cg <= prevGen && (st.Op == "delete" || cg != w.gen[i]) {
						viol("hook-call-after-stop:"+st.Op, fmt.Sprintf("after Reconcile returned for %s, the stopped instance (generation %d) still called its hook %s", st, cg, c.Path))
						break
					}
				}
			}
		}
		// (2b) ... and no API write is made on its behalf after the stop
		if released != nil {
			settle()
			mine := fmt.Sprintf("p%d", i)
			for _, q := range s.Since(reqMark) {
				if q.Actor == "mc" && q.Mutating() && q.Seq > returnedAt && strings.Contains(q.Name, mine) {
					viol("api-write-after-stop:delete", fmt.Sprintf("after Reconcile returned for %s (a sync was in flight when the stop arrived), the stopped instance still sent %s", st, q.String()))
					break
				}
			}
		}
		// (3)/(5) subscriptions: with nothing running the open watches are back at the baseline
		running := 0
		for range w.mc.decoratorControllers {
			running++
		}
		if running == 0 {
			deadline := time.Now().Add(10 * time.Second)
			for {
				cur := w.watchCounts()
				if fmt.Sprint(cur) == fmt.Sprint(baseline) {
					break
				}
				if time.Now().After(deadline) {
					var leaked []string
					for r, n := range cur {
						if n > baseline[r] {
							leaked = append(leaked, r)
						}
					}
					sort.Strings(leaked)
					viol("informer-subscriptions-leaked:"+strings.Join(leaked, ",")+":after-"+st.Op+":"+w.spec[i], fmt.Sprintf("no hosted controller is running, yet informers for %v are still subscribed (open watches %v, baseline %v)", leaked, cur, baseline))
					break
				}
				time.Sleep(300 * time.Microsecond)
			}
		} else {
			// exactly one watch per resource in use, however many instances share it
			for r, n := range w.watchCounts() {
				if n > 1 {
					viol("duplicate-informer:"+r, fmt.Sprintf("%d watch streams are open for %s", n, r))
				}
			}
		}
	}
	rep.Case("C20", id, len(steps) > 0, strings.Join(desc, " "), map[string]interface{}{"steps": desc, "finalWatches": w.watchCounts()})
}

var _ = schema.GroupVersionResource{}
