//go:build verif

package decorator

import (
	"fmt"
	"math/rand"
	"reflect"
	"strings"
	"sync"
	"testing"
	"time"

	metav1 "k8s.io/apimachinery/pkg/apis/meta/v1"

	"metacontroller/pkg/apis/metacontroller/v1alpha1"
	"metacontroller/pkg/logging"
	env "metacontroller/pkg/verifenv"
	sim "metacontroller/pkg/verifsim"
)

// C17 (decorator side): two decorators sharing targets and the attachment informer, several
// workers each, free-running under the race detector; the final store must equal that of the same
// workload run with one worker per decorator.

type dfctl struct {
	name  string
	c     *decoratorController
	q     *sim.RecQueue
	hooks *sim.HookSite
}

type dfworld struct {
	id   string
	sim  *sim.Server
	env  *env.Env
	ctls []*dfctl
}

func newDFWorld(id string, workers int) (*dfworld, error) {
	s := sim.NewCluster()
	e, err := env.NewWithDiscoveryInterval(s, false, 25*time.Millisecond)
	if err != nil {
		return nil, err
	}
	fw := &dfworld{id: id, sim: s, env: e}
	for i := 0; i < 2; i++ {
		name := fmt.Sprintf("d%d-%s", i, id)
		h := sim.NewHookSite(s.Clock(), s.Tag)
		idx := i
		prog := func(req sim.Obj) sim.Obj {
			obj, _ := req["object"].(map[string]interface{})
			n, _ := sim.Nested(obj, "spec", "n")
			att := sim.NewObject(sim.ConfigMapInfo, "", fmt.Sprintf("att%d-%s", idx, sim.Name(obj)))
			att["data"] = sim.Obj{"n": fmt.Sprint(n), "by": fmt.Sprintf("d%d", idx)}
			resp := sim.Obj{"attachments": []interface{}{att}, "annotations": sim.Obj{fmt.Sprintf("seen-by-d%d", idx): fmt.Sprint(n)}}
			if idx == 0 {
				resp["status"] = sim.Obj{"decoratedN": n}
			}
			fz, _ := req["finalizing"].(bool)
			if fz {
				atts, _ := req["attachments"].(map[string]interface{})
				cnt := 0
				for _, g := range atts {
					gm, _ := g.(map[string]interface{})
					cnt += len(gm)
				}
				resp["attachments"] = []interface{}{}
				resp["finalized"] = cnt == 0
			}
			return resp
		}
		h.HandleJSON("sync", prog)
		h.HandleJSON("finalize", prog)
		h.HandleJSON("customize", func(req sim.Obj) sim.Obj {
			return sim.Obj{"relatedResources": []interface{}{sim.Obj{"apiVersion": "v1", "resource": "secrets", "labelSelector": sim.Obj{"matchLabels": sim.Obj{"rel": "all"}}}}}
		})
		cfg := dworldCfg{ID: name, Targets: []sim.ResourceInfo{sim.ThingInfo}, FinalizeHook: i == 1, CustomizeHook: i == 0,
			LabelSel:    &metav1.LabelSelector{MatchLabels: map[string]string{"decorate": id}},
			Attachments: []attachCfg{{Info: sim.ConfigMapInfo, Method: v1alpha1.ChildUpdateInPlace}}}
		dc := cfg.decoratorController(h)
		c, err := newDecoratorController(e.Resources, e.DynClient, e.DynInformers, env.NopRecorder{}, dc, workers, logging.Logger)
		if err != nil {
			return nil, err
		}
		c.queue.ShutDown()
		q := sim.NewRecQueue()
		c.queue = q
		fw.ctls = append(fw.ctls, &dfctl{name: name, c: c, q: q, hooks: h})
	}
	for _, tr := range [][2]string{{"ctest.dev/v1", "things"}, {"v1", "configmaps"}, {"v1", "secrets"}} {
		if err := e.Track(tr[0], tr[1]); err != nil {
			return nil, err
		}
	}
	return fw, nil
}

func (fw *dfworld) stop() {
	for _, c := range fw.ctls {
		c.c.Stop()
		c.hooks.Close()
	}
	fw.env.Close()
}

func (fw *dfworld) waitQuiescent(max time.Duration) error {
	deadline := time.Now().Add(max)
	stable := 0
	for {
		idle := func() bool {
			if fw.sim.InFlight() != 0 {
				return false
			}
			for _, c := range fw.ctls {
				if !c.q.Idle() || c.hooks.InFlight() != 0 {
					return false
				}
			}
			return true
		}
		ok := idle()
		if ok {
			if err := fw.env.Quiesce(); err != nil {
				return err
			}
			ok = idle()
		}
		if ok {
			stable++
			if stable >= 4 {
				return nil
			}
			time.Sleep(500 * time.Microsecond)
		} else {
			stable = 0
			time.Sleep(300 * time.Microsecond)
		}
		if time.Now().After(deadline) {
			return &env.ErrWatchdog{What: "free-running decorator world did not go quiescent"}
		}
	}
}

func runDFWorkload(id string, workers, targets, phases int, seed int64, delays bool) (map[string]interface{}, *dfworld, error) {
	fw, err := newDFWorld(id, workers)
	if err != nil {
		return nil, nil, err
	}
	s := fw.sim
	rng := rand.New(rand.NewSource(seed))
	ns := "ns-" + id
	sec := sim.NewObject(sim.SecretInfo, ns, "shared")
	sim.SetLabels(sec, map[string]string{"rel": "all"})
	s.MustCreate(sim.SecretInfo.GVR(), sec)
	for i := 0; i < targets; i++ {
		t := sim.NewObject(sim.ThingInfo, ns, fmt.Sprintf("t%d", i))
		sim.SetLabels(t, map[string]string{"decorate": id})
		t["spec"] = sim.Obj{"n": int64(0)}
		s.MustCreate(sim.ThingInfo.GVR(), t)
	}
	if delays {
		drng := rand.New(rand.NewSource(seed + 7))
		var mu sync.Mutex
		s.SetGate(func(ri *sim.ReqInfo) {
			mu.Lock()
			d := drng.Intn(40)
			mu.Unlock()
			if d < 8 {
				time.Sleep(time.Duration(d*50) * time.Microsecond)
			}
		})
	}
	for _, c := range fw.ctls {
		c.c.Start()
	}
	if err := fw.waitQuiescent(60 * time.Second); err != nil {
		return nil, fw, err
	}
	for phase := 1; phase <= phases; phase++ {
		for i := 0; i < targets; i++ {
			switch (rng.Intn(4) + i + phase) % 4 {
			case 0, 1:
				s.ExtMutate(sim.ThingInfo.GVR(), ns, fmt.Sprintf("t%d", i), func(o sim.Obj) { sim.SetNested(o, int64(phase), "spec", "n") })
			case 2:
				s.ExtDelete(sim.ConfigMapInfo.GVR(), ns, fmt.Sprintf("att%d-t%d", rng.Intn(2), i), "")
			case 3:
				s.ExtMutate(sim.SecretInfo.GVR(), ns, "shared", func(o sim.Obj) { sim.SetNested(o, fmt.Sprint(phase, i), "data", "k") })
			}
		}
		if err := fw.waitQuiescent(60 * time.Second); err != nil {
			return nil, fw, err
		}
	}
	s.SetGate(nil)
	// the two decorators write annotations of the same object with optimistic locking; a conflict is
	// tolerated and retried by the next event, so give every target one more look until quiet
	for k := 0; k < 10; k++ {
		for _, c := range fw.ctls {
			for _, p := range s.PeekAll(sim.ThingInfo.GVR()) {
				c.q.Add(parentKey(p))
			}
		}
		rv := s.RV()
		if err := fw.waitQuiescent(60 * time.Second); err != nil {
			return nil, fw, err
		}
		if s.RV() == rv {
			break
		}
	}
	out := map[string]interface{}{}
	for k, v := range s.Normalized() {
		out[strings.ReplaceAll(k, id, "ID")] = normIDs(v, id)
	}
	return out, fw, nil
}

func normIDs(v interface{}, id string) interface{} {
	switch t := v.(type) {
	case map[string]interface{}:
		o := map[string]interface{}{}
		for k, vv := range t {
			o[strings.ReplaceAll(k, id, "ID")] = normIDs(vv, id)
		}
		return o
	case []interface{}:
		o := make([]interface{}, len(t))
		for i := range t {
			o[i] = normIDs(t[i], id)
		}
		return o
	case string:
		return strings.ReplaceAll(t, id, "ID")
	}
	return v
}

func TestVerif_C17_DecoratorConcurrent(t *testing.T) {
	rep := sim.R()
	rng := sim.Rand("C17-decorator")
	for i := 0; i < sim.Pick(4, 24); i++ {
		id := fmt.Sprintf("c17-decorator-run%d", i)
		if !sim.WantCase(id) {
			continue
		}
		rep.Begin("C17", id)
		seed := rng.Int63()
		targets, phases := 4+rng.Intn(6), 2+rng.Intn(3)
		ref, fw1, err := runDFWorkload(uniqueID("sd"), 1, targets, phases, seed, false)
		if fw1 != nil {
			fw1.stop()
		}
		if err != nil {
			rep.Inconclusive("C17", id, "sequential run: "+err.Error())
			continue
		}
		workers := 3 + rng.Intn(5)
		got, fw2, err := runDFWorkload(uniqueID("cd"), workers, targets, phases, seed, true)
		var syncs int64
		if fw2 != nil {
			for _, c := range fw2.ctls {
				for _, op := range c.q.Since(0) {
					if op.Op == "Get" {
						syncs++
					}
				}
			}
			fw2.stop()
		}
		if err != nil {
			rep.Inconclusive("C17", id, "concurrent run: "+err.Error())
			continue
		}
		if !reflect.DeepEqual(ref, got) {
			var diff []string
			for k, v := range ref {
				if !reflect.DeepEqual(v, got[k]) {
					diff = append(diff, fmt.Sprintf("%s\n   sequential: %v\n   concurrent: %v", k, v, got[k]))
				}
			}
			for k := range got {
				if _, ok := ref[k]; !ok {
					diff = append(diff, "extra: "+k)
				}
			}
			rep.Violation("C17", id, "decorator:concurrent-result-differs-from-sequential", "two decorators with several workers produced a different final store than with one worker each:\n"+strings.Join(diff, "\n"), map[string]interface{}{"seed": seed, "workers": workers, "targets": targets})
		}
		rep.Counter("C17", "decorator_concurrent_syncs", syncs)
		rep.Case("C17", id, syncs > 0, fmt.Sprintf("decorator-concurrent/seed%d/w%d/t%d", seed, workers, targets), map[string]interface{}{"seed": seed, "workers": workers, "targets": targets, "phases": phases, "syncs": syncs})
	}
}
