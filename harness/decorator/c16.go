//go:build verif

package decorator

import (
	"encoding/json"
	"fmt"
	"reflect"
	"sort"
	"strings"
	"testing"

	metav1 "k8s.io/apimachinery/pkg/apis/meta/v1"

	"metacontroller/pkg/apis/metacontroller/v1alpha1"
	sim "metacontroller/pkg/verifsim"
)

// C16 - a decorator changes only labels, annotations, status and finalizer of its target.

type c16Case struct {
	Kind        string `json:"kind"`        // Thing NoStatus ClusterThing
	Labels      string `json:"labels"`      // none add overwrite null-existing null-missing same
	Annotations string `json:"annotations"` // same set
	Status      string `json:"status"`      // null equal different
	Finalize    bool   `json:"finalizeHook"`
	Selector    string `json:"selector"` // both labels annotations expr fail-label fail-annotation
}

func (c c16Case) id() string {
	return fmt.Sprintf("c16-%s-l_%s-a_%s-s_%s-fin%v-%s", strings.ToLower(c.Kind), c.Labels, c.Annotations, c.Status, c.Finalize, c.Selector)
}

func strMapChange(kind string) map[string]interface{} {
	switch kind {
	case "add":
		return map[string]interface{}{"added": "1"}
	case "add-empty":
		// marker keys: the value the hook names is the empty string
		return map[string]interface{}{"added-marker": "", "keep": "x"}
	case "overwrite":
		return map[string]interface{}{"keep": "changed"}
	case "null-existing":
		return map[string]interface{}{"keep": nil}
	case "null-missing":
		return map[string]interface{}{"never-there": nil}
	case "same":
		return map[string]interface{}{"keep": "x"}
	}
	return nil
}

func TestVerif_C16_Target(t *testing.T) {
	changes := []string{"none", "add", "add-empty", "overwrite", "null-existing", "null-missing", "same"}
	var cases []c16Case
	for _, kind := range []string{"Thing", "NoStatus", "ClusterThing"} {
		for _, l := range changes {
			for _, a := range changes {
				for _, st := range []string{"null", "equal", "different"} {
					for _, fin := range []bool{false, true} {
						cases = append(cases, c16Case{kind, l, a, st, fin, "both"})
					}
				}
			}
		}
		for _, sel := range []string{"labels", "annotations", "expr", "fail-label", "fail-annotation", "fail-label-finalizer", "fail-label-leftover", "fail-annotation-expr", "fail-label-expr"} {
			cases = append(cases, c16Case{kind, "add", "add", "different", sel == "fail-label-finalizer", sel})
		}
	}
	for _, c := range cases {
		c := c
		if !sim.WantCase(c.id()) {
			continue
		}
		t.Run(c.id(), func(t *testing.T) {
			t.Parallel()
			runC16(t, c)
		})
	}
}

func targetInfo(kind string) sim.ResourceInfo {
	switch kind {
	case "NoStatus":
		return sim.NoStatusInfo
	case "ClusterThing":
		return sim.ClusterThingInfo
	}
	return sim.ThingInfo
}

func runC16(t *testing.T, c c16Case) {
	rep := sim.R()
	id := c.id()
	rep.Begin("C16", id)
	uid := uniqueID("d")
	ti := targetInfo(c.Kind)
	cfg := dworldCfg{ID: uid, Targets: []sim.ResourceInfo{ti}, FinalizeHook: c.Finalize,
		Attachments: []attachCfg{{Info: sim.ConfigMapInfo, Method: v1alpha1.ChildUpdateInPlace}}}
	lsel := &metav1.LabelSelector{MatchLabels: map[string]string{"decorate": uid}}
	asel := &v1alpha1.AnnotationSelector{MatchAnnotations: map[string]string{"decor": "on"}}
	switch c.Selector {
	case "both", "fail-label", "fail-annotation", "fail-label-finalizer", "fail-label-leftover":
		cfg.LabelSel, cfg.AnnotationSel = lsel, asel
	case "labels":
		cfg.LabelSel = lsel
	case "annotations":
		cfg.AnnotationSel = asel
	case "expr", "fail-annotation-expr", "fail-label-expr":
		cfg.LabelSel = &metav1.LabelSelector{MatchExpressions: []metav1.LabelSelectorRequirement{{Key: "decorate", Operator: metav1.LabelSelectorOpIn, Values: []string{uid, "zz"}}}}
		cfg.AnnotationSel = &v1alpha1.AnnotationSelector{MatchExpressions: []metav1.LabelSelectorRequirement{{Key: "decor", Operator: metav1.LabelSelectorOpExists}}}
	}
	w := newDWorld(cfg)
	defer w.close()
	w.caseID = id
	s := w.sim
	ns := ""
	if ti.Namespaced {
		ns = "ns-" + uid
	}
	attNS := ns
	if attNS == "" {
		attNS = "ans-" + uid
	}
	finName := "metacontroller.io/decoratorcontroller-" + uid
	target := sim.NewObject(ti, ns, "t-"+uid)
	labels := map[string]string{"decorate": uid, "keep": "x"}
	anns := map[string]string{"decor": "on", "keep": "x"}
	if c.Selector == "fail-label" || c.Selector == "fail-label-finalizer" || c.Selector == "fail-label-leftover" {
		labels["decorate"] = "someone-else"
	}
	if c.Selector == "fail-annotation" {
		anns["decor"] = "off"
	}
	if c.Selector == "fail-annotation-expr" {
		delete(anns, "decor") // the annotation selector consists of one expression: decor Exists
	}
	if c.Selector == "fail-label-expr" {
		labels["decorate"] = "someone-else" // the label selector consists of one expression: decorate In (uid, zz)
	}
	sim.SetLabels(target, labels)
	sim.SetAnnotations(target, anns)
	sim.SetNested(target, []interface{}{"example.com/foreign"}, "metadata", "finalizers")
	if c.Selector == "fail-label-finalizer" || c.Selector == "fail-label-leftover" {
		// (fail-label-leftover: no finalize hook is configured, so the finalizer is a leftover that
		// is to be removed - and the object is not to be decorated on that occasion)
		sim.SetNested(target, []interface{}{"example.com/foreign", finName}, "metadata", "finalizers")
	}
	spec := sim.Obj{"payload": sim.Obj{"a": int64(1), "l": []interface{}{"x"}}}
	kidNS := ""
	if !ti.Namespaced {
		kidNS = attNS
	}
	spec["kids"] = []interface{}{sim.KidSpec(sim.ConfigMapInfo, kidNS, "att-"+uid, "v1")}
	if m := strMapChange(c.Labels); m != nil {
		spec["setLabels"] = m
	}
	if m := strMapChange(c.Annotations); m != nil {
		spec["setAnnotations"] = m
	}
	existingStatus := sim.Obj{"phase": "Existing", "n": int64(1)}
	switch c.Status {
	case "equal":
		spec["decorStatus"] = sim.DeepCopy(existingStatus)
	case "different":
		spec["decorStatus"] = sim.Obj{"phase": "Decorated", "nested": sim.Obj{"k": "v"}}
	}
	target["spec"] = spec
	created := s.MustCreate(ti.GVR(), target)
	created["status"] = sim.DeepCopy(existingStatus)
	if ti.HasStatus {
		delete(created["metadata"].(map[string]interface{}), "resourceVersion")
		created, _ = s.ExtUpdateStatus(ti.GVR(), created)
	} else {
		delete(created["metadata"].(map[string]interface{}), "resourceVersion")
		created, _ = s.ExtUpdate(ti.GVR(), created)
	}
	// attachments of other origin on the same target
	mk := func(name, marker string, owned bool) sim.Obj {
		o := sim.NewObject(sim.ConfigMapInfo, attNS, name+"-"+uid)
		if marker != "" {
			sim.SetAnnotations(o, map[string]string{sim.DecoratorAnnotation: marker})
		}
		o["data"] = sim.Obj{"value": "theirs"}
		if owned {
			sim.AddOwner(o, created, true)
		}
		return o
	}
	s.MustCreate(sim.ConfigMapInfo.GVR(), mk("other-decorator", "another-decorator", true))
	s.MustCreate(sim.ConfigMapInfo.GVR(), mk("real-controller", "", true))
	s.MustCreate(sim.ConfigMapInfo.GVR(), mk("marker-only", uid, false))
	s.MustCreate(sim.ConfigMapInfo.GVR(), mk("ours-stale", uid, true)) // ours and not desired: may be deleted
	if err := w.start(); err != nil {
		inconclusive(t, "C16", id, err)
		return
	}
	defer w.flushCounters("C16")
	key := parentKey(created)
	viol := func(sig, detail string, sr *syncResult) {
		wit := map[string]interface{}{"case": c}
		if sr != nil {
			wit["requests"] = sim.DescribeLog(sr.Requests, false)
			wit["hooks"] = describeHooks(sr.Hooks)
			wit["err"] = fmt.Sprint(sr.Err)
		}
		rep.Violation("C16", id, sig, detail, wit)
	}
	selected := !strings.HasPrefix(c.Selector, "fail-") || c.Selector == "fail-label-finalizer"
	var allSyncs []*syncResult
	hookCalls := 0
	for round := 0; round < 5; round++ {
		if round > 0 || !selected {
			w.q.Add(key)
		}
		syncs, ok := w.round()
		if !ok {
			inconclusive(t, "C16", id, w.watchdog)
			return
		}
		for _, sr := range syncs {
			allSyncs = append(allSyncs, sr)
			hookCalls += len(sr.Hooks)
			// ---- every accepted write on the target changes only what it may
			var resp sim.Obj
			for _, h := range sr.Hooks {
				json.Unmarshal(h.RespRaw, &resp)
				// attachments shown to the hook: only ours
				att, _ := h.Req["attachments"].(map[string]interface{})
				for _, g := range att {
					gm, _ := g.(map[string]interface{})
					for n := range gm {
						if !strings.HasPrefix(n, "att-") && !strings.HasSuffix(n, "/att-"+uid) && !strings.Contains(n, "ours-stale") {
							viol("foreign-attachment-shown:"+roleName(n), fmt.Sprintf("the hook was shown attachment %q, which is not this decorator's (needs controller reference to the target and the decorator's marker)", n), sr)
						}
					}
				}
			}
			for _, q := range sr.Requests {
				if q.Actor != "mc" {
					continue
				}
				if q.GVR == sim.ConfigMapInfo.GVR() && q.Mutating() {
					for _, prot := range []string{"other-decorator", "real-controller", "marker-only"} {
						if strings.HasPrefix(q.Name, prot) {
							viol("foreign-attachment-written:"+prot, "an attachment that is not this decorator's received a write: "+q.String(), sr)
						}
					}
				}
				if q.GVR != ti.GVR() || !q.Mutating() || !q.OK() || !q.Applied {
					continue
				}
				if !selected {
					if c.Selector == "fail-label-leftover" && targetDiff(q.Pre, q.Post, map[string]bool{}, map[string]bool{}, false, finName) == "" {
						continue // only the leftover finalizer went away
					}
					viol("unselected-target-written", "a target that fails the selectors (and carries no finalizer) was written: "+q.String(), sr)
					continue
				}
				allowedL, allowedA := map[string]bool{}, map[string]bool{}
				statusAllowed := false
				if resp != nil {
					if l, ok := resp["labels"].(map[string]interface{}); ok {
						for k := range l {
							allowedL[k] = true
						}
					}
					if a, ok := resp["annotations"].(map[string]interface{}); ok {
						for k := range a {
							allowedA[k] = true
						}
					}
					if st, ok := resp["status"]; ok && st != nil {
						statusAllowed = true
					}
				}
				if d := targetDiff(q.Pre, q.Post, allowedL, allowedA, statusAllowed, finName); d != "" {
					viol("target-changed-beyond-allowed:"+strings.SplitN(d, " ", 2)[0], fmt.Sprintf("a write on the target changed more than the response allows: %s\n request %s", d, q.String()), sr)
				}
			}
		}
		if len(syncs) == 0 {
			break
		}
	}
	live := s.Peek(ti.GVR(), ns, "t-"+uid)
	if !selected {
		if hookCalls > 0 {
			viol("unselected-target-hooked:"+c.Selector, "a target that fails a selector and carries no finalizer was sent to the hook", nil)
		}
	} else if live != nil {
		// final state reflects the response
		wantL := map[string]string{}
		for k, v := range labels {
			wantL[k] = v
		}
		for k, v := range strMapChange(c.Labels) {
			if v == nil {
				delete(wantL, k)
			} else {
				wantL[k] = v.(string)
			}
		}
		wantA := map[string]string{}
		for k, v := range anns {
			wantA[k] = v
		}
		for k, v := range strMapChange(c.Annotations) {
			if v == nil {
				delete(wantA, k)
			} else {
				wantA[k] = v.(string)
			}
		}
		if !reflect.DeepEqual(sim.Labels(live), wantL) && c.Selector != "fail-label-finalizer" {
			viol("labels-not-as-answered:"+c.Labels, fmt.Sprintf("labels are %v, want %v", sim.Labels(live), wantL), nil)
		}
		if !reflect.DeepEqual(sim.Annotations(live), wantA) && c.Selector != "fail-label-finalizer" {
			viol("annotations-not-as-answered:"+c.Annotations, fmt.Sprintf("annotations are %v, want %v", sim.Annotations(live), wantA), nil)
		}
		wantStatus := interface{}(map[string]interface{}(existingStatus))
		if c.Status == "different" {
			wantStatus = map[string]interface{}{"phase": "Decorated", "nested": map[string]interface{}{"k": "v"}}
		}
		if !reflect.DeepEqual(live["status"], wantStatus) && c.Selector != "fail-label-finalizer" {
			viol("status-not-as-answered:"+c.Status+":"+c.Kind, fmt.Sprintf("status is %v, want %v", live["status"], wantStatus), nil)
		}
		if !reflect.DeepEqual(live["spec"], created["spec"]) {
			viol("spec-modified", "the target's spec was modified", nil)
		}
		if !sim.HasFinalizer(live, "example.com/foreign") {
			viol("foreign-finalizer-lost", "a finalizer that belongs to someone else disappeared from the target", nil)
		}
	}
	// a sync whose response changes nothing issues no request: the last rounds must be quiet
	if len(allSyncs) >= 2 && selected {
		last := allSyncs[len(allSyncs)-1]
		for _, q := range last.Requests {
			if q.Actor == "mc" && q.Mutating() {
				viol("write-when-nothing-changes", "a further sync, whose response changes nothing, still sent "+q.String(), last)
			}
		}
	}
	// if nothing at all was to change, no request was ever needed on the target
	noChange := (c.Labels == "none" || c.Labels == "same" || c.Labels == "null-missing") && (c.Annotations == "none" || c.Annotations == "same" || c.Annotations == "null-missing") && (c.Status == "null" || c.Status == "equal") && !c.Finalize
	if noChange && selected {
		for _, sr := range allSyncs {
			for _, q := range sr.Requests {
				if q.Actor == "mc" && q.Mutating() && q.GVR == ti.GVR() {
					viol("target-written-without-change", "the response changes nothing on the target, yet it was written: "+q.String(), sr)
				}
			}
		}
	}
	for _, prot := range []string{"other-decorator", "real-controller", "marker-only"} {
		if s.Peek(sim.ConfigMapInfo.GVR(), attNS, prot+"-"+uid) == nil {
			viol("foreign-attachment-deleted:"+prot, "an attachment made by another decorator / the target's own controller is gone", nil)
		}
	}
	rep.Case("C16", id, hookCalls > 0 || !selected, id, map[string]interface{}{"case": c, "syncs": len(allSyncs), "hookCalls": hookCalls})
}

func roleName(n string) string {
	if i := strings.LastIndex(n, "/"); i >= 0 {
		n = n[i+1:]
	}
	if i := strings.LastIndex(n, "-"); i >= 0 {
		n = n[:i]
	}
	return n
}

// targetDiff describes the first difference between pre and post that is not allowed ("" = fine).
func targetDiff(pre, post sim.Obj, allowedL, allowedA map[string]bool, statusAllowed bool, ourFinalizer string) string {
	a, b := jsonNormalize(pre), jsonNormalize(post)
	ma, mb := a["metadata"].(map[string]interface{}), b["metadata"].(map[string]interface{})
	for _, f := range []string{"resourceVersion", "generation"} {
		delete(ma, f)
		delete(mb, f)
	}
	// labels / annotations: only named keys may differ
	for field, allowed := range map[string]map[string]bool{"labels": allowedL, "annotations": allowedA} {
		la, _ := ma[field].(map[string]interface{})
		lb, _ := mb[field].(map[string]interface{})
		keys := map[string]bool{}
		for k := range la {
			keys[k] = true
		}
		for k := range lb {
			keys[k] = true
		}
		var ks []string
		for k := range keys {
			ks = append(ks, k)
		}
		sort.Strings(ks)
		for _, k := range ks {
			if !reflect.DeepEqual(la[k], lb[k]) && !allowed[k] {
				return fmt.Sprintf("%s key %q changed from %v to %v although the response does not name it", field, k, la[k], lb[k])
			}
		}
		delete(ma, field)
		delete(mb, field)
	}
	strip := func(m map[string]interface{}) {
		var keep []interface{}
		for _, f := range sim.Finalizers(sim.Obj{"metadata": m}) {
			if f != ourFinalizer {
				keep = append(keep, f)
			}
		}
		if len(keep) == 0 {
			delete(m, "finalizers")
		} else {
			m["finalizers"] = keep
		}
	}
	strip(ma)
	strip(mb)
	if !reflect.DeepEqual(ma, mb) {
		return fmt.Sprintf("metadata changed: %v -> %v", ma, mb)
	}
	if !reflect.DeepEqual(a["status"], b["status"]) && !statusAllowed {
		return fmt.Sprintf("status changed from %v to %v although the response's status is null", a["status"], b["status"])
	}
	delete(a, "status")
	delete(b, "status")
	delete(a, "metadata")
	delete(b, "metadata")
	if !reflect.DeepEqual(a, b) {
		return fmt.Sprintf("spec/other fields changed: %v -> %v", a, b)
	}
	return ""
}

// A target that is pending deletion, was finalized by this decorator (its finalizer is gone) and is
// kept alive by somebody else's finalizer: further syncs call the finalize hook, get
// `finalized: true`, and have nothing to change - "no request is sent when nothing would change".
func TestVerif_C16_FinalizedHeld(t *testing.T) {
	for _, kind := range []string{"Thing", "NoStatus", "ClusterThing"} {
		for _, withAtt := range []bool{false, true} {
			kind, withAtt := kind, withAtt
			id := fmt.Sprintf("c16-finalized-held-%s-att%v", strings.ToLower(kind), withAtt)
			if !sim.WantCase(id) {
				continue
			}
			t.Run(id, func(t *testing.T) {
				t.Parallel()
				runC16FinalizedHeld(t, id, kind, withAtt)
			})
		}
	}
}

func runC16FinalizedHeld(t *testing.T, id, kind string, withAtt bool) {
	rep := sim.R()
	rep.Begin("C16", id)
	uid := uniqueID("fh")
	sc := &dScenario{ID: uid, Target: kind, Finalize: true, Kinds: []dKind{{Kind: "ConfigMap", Method: "InPlace"}}}
	if withAtt {
		sc.Kids = []dKid{{Kind: "ConfigMap", Name: "att-" + uid, Value: "v1"}}
	}
	r := prepareD(sc)
	defer r.close()
	w := r.w
	w.caseID = id
	s := w.sim
	tgvr := sc.targetInfo().GVR()
	finName := "metacontroller.io/decoratorcontroller-" + uid
	s.ExtMutate(tgvr, sc.ns(), sc.targetName(), func(o sim.Obj) {
		sim.SetNested(o, []interface{}{"example.com/foreign"}, "metadata", "finalizers")
	})
	if err := w.start(); err != nil {
		inconclusive(t, "C16", id, err)
		return
	}
	defer w.flushCounters("C16")
	settle := func() ([]*syncResult, bool) {
		var all []*syncResult
		for i := 0; i < 30; i++ {
			syncs, ok := w.round()
			if !ok {
				return all, false
			}
			all = append(all, syncs...)
			if len(syncs) == 0 {
				if !w.quiesce() {
					return all, false
				}
				if w.q.Len() == 0 {
					return all, true
				}
			}
		}
		return all, true
	}
	if _, ok := settle(); !ok {
		inconclusive(t, "C16", id, w.watchdog)
		return
	}
	hadOurs := sim.HasFinalizer(s.Peek(tgvr, sc.ns(), sc.targetName()), finName)
	s.ExtDelete(tgvr, sc.ns(), sc.targetName(), "")
	if _, ok := settle(); !ok {
		inconclusive(t, "C16", id, w.watchdog)
		return
	}
	cur := s.Peek(tgvr, sc.ns(), sc.targetName())
	held := cur != nil && sim.IsDeleting(cur) && !sim.HasFinalizer(cur, finName) && sim.HasFinalizer(cur, "example.com/foreign")
	hookCalls, writes := 0, 0
	if held {
		// three more looks at it: the finalize hook is asked, nothing is written
		for i := 0; i < 3; i++ {
			w.q.Add(r.key())
			syncs, ok := settle()
			if !ok {
				inconclusive(t, "C16", id, w.watchdog)
				return
			}
			for _, sr := range syncs {
				hookCalls += len(sr.Hooks)
				for _, q := range sr.Requests {
					if q.Actor == "mc" && q.Mutating() {
						writes++
						rep.Violation("C16", id, "write-when-nothing-changes:finalized-target-held-by-foreign-finalizer", "the target was finalized before (our finalizer is gone), the finalize hook answers finalized: true and changes nothing, yet a request was sent: "+q.String(),
							map[string]interface{}{"requests": sim.DescribeLog(sr.Requests, false), "hooks": describeHooks(sr.Hooks)})
					}
				}
			}
		}
	}
	rep.Case("C16", id, held && hookCalls > 0, id, map[string]interface{}{"kind": kind, "attachment": withAtt, "finalizerWasAdded": hadOurs, "heldByForeignFinalizer": held, "hookCalls": hookCalls, "writes": writes})
}


// jsonNormalize round-trips an object through JSON (typed nils become null, numbers one type).
func jsonNormalize(o sim.Obj) sim.Obj {
	b, err := json.Marshal(o)
	if err != nil {
		return sim.DeepCopy(o)
	}
	var out map[string]interface{}
	if json.Unmarshal(b, &out) != nil {
		return sim.DeepCopy(o)
	}
	return out
}

// The target's status as the API server has it NOW, not as the cache had it when the sync began:
// the sync starts with a live read and write of the target (the finalizer is added), the watch is
// held back so that the cached copy still shows an older status. A null status in the answer leaves
// the live status alone; an answer equal to the live status sends no status write; an answer equal
// to the stale status is a change and is written.
func TestVerif_C16_StaleStatus(t *testing.T) {
	for _, kind := range []string{"Thing", "NoStatus", "ClusterThing"} {
		for _, answer := range []string{"null", "equal-to-live", "equal-to-cached"} {
			for _, labels := range []bool{false, true} {
				kind, answer, labels := kind, answer, labels
				id := fmt.Sprintf("c16-stale-status-%s-%s-labels%v", strings.ToLower(kind), answer, labels)
				if !sim.WantCase(id) {
					continue
				}
				t.Run(id, func(t *testing.T) {
					t.Parallel()
					runC16StaleStatus(t, id, kind, answer, labels)
				})
			}
		}
	}
}

func runC16StaleStatus(t *testing.T, id, kind, answer string, labels bool) {
	rep := sim.R()
	rep.Begin("C16", id)
	uid := uniqueID("ss")
	sc := &dScenario{ID: uid, Target: kind, Finalize: true, Kinds: []dKind{{Kind: "ConfigMap", Method: "InPlace"}}}
	r := prepareD(sc)
	defer r.close()
	w := r.w
	w.caseID = id
	s := w.sim
	ti := sc.targetInfo()
	tgvr := ti.GVR()
	cachedStatus := sim.Obj{"phase": "old"}
	liveStatus := sim.Obj{"phase": "new"}
	setStatus := func(st sim.Obj) {
		cur := sim.DeepCopy(s.Peek(tgvr, sc.ns(), sc.targetName()))
		cur["status"] = sim.DeepCopy(st)
		delete(cur["metadata"].(map[string]interface{}), "resourceVersion")
		if ti.HasStatus {
			s.ExtUpdateStatus(tgvr, cur)
		} else {
			s.ExtMutate(tgvr, sc.ns(), sc.targetName(), func(o sim.Obj) { o["status"] = sim.DeepCopy(st) })
		}
	}
	setStatus(cachedStatus)
	s.ExtMutate(tgvr, sc.ns(), sc.targetName(), func(o sim.Obj) {
		switch answer {
		case "equal-to-live":
			sim.SetNested(o, sim.DeepCopy(liveStatus), "spec", "decorStatus")
		case "equal-to-cached":
			sim.SetNested(o, sim.DeepCopy(cachedStatus), "spec", "decorStatus")
		}
		if labels {
			sim.SetNested(o, sim.Obj{"decorated": "yes"}, "spec", "setLabels")
		}
	})
	if err := w.start(); err != nil {
		inconclusive(t, "C16", id, err)
		return
	}
	defer w.flushCounters("C16")
	if !w.quiesce() {
		inconclusive(t, "C16", id, w.watchdog)
		return
	}
	// drain the add event: this test drives the one sync it judges
	for w.q.Len() > 0 {
		k, _ := w.q.Get()
		w.q.Forget(k)
		w.q.Done(k)
	}
	s.HoldWatch(tgvr, true)
	setStatus(liveStatus)
	w.noViewMonitor = true
	w.q.Add(r.key())
	var sr *syncResult
	for w.q.Len() > 0 && sr == nil {
		if x := w.step(); x != nil && x.Key == r.key() {
			sr = x
		}
	}
	s.HoldWatch(tgvr, false)
	if sr == nil || len(sr.Hooks) == 0 {
		inconclusive(t, "C16", id, fmt.Errorf("target not synced / hook not called"))
		return
	}
	finalizerWritten, statusWrites := false, 0
	for _, q := range sr.Requests {
		if q.Actor != "mc" || q.GVR != tgvr || !q.Mutating() || !q.OK() || !q.Applied {
			continue
		}
		if q.Pre != nil && q.Post != nil {
			if len(sim.Finalizers(q.Pre)) != len(sim.Finalizers(q.Post)) {
				finalizerWritten = true
			}
			if !reflect.DeepEqual(jsonNormalize(sim.Obj{"s": q.Pre["status"]}), jsonNormalize(sim.Obj{"s": q.Post["status"]})) {
				statusWrites++
			}
		}
	}
	viol := func(sig, detail string) {
		rep.Violation("C16", id, sig, detail, map[string]interface{}{"kind": kind, "answer": answer, "labels": labels, "requests": sim.DescribeLog(sr.Requests, false), "hooks": describeHooks(sr.Hooks)})
	}
	live := s.Peek(tgvr, sc.ns(), sc.targetName())
	got := jsonNormalize(sim.Obj{"s": live["status"]})
	want := liveStatus
	if answer == "equal-to-cached" {
		want = cachedStatus
	}
	if sr.Err == nil && !reflect.DeepEqual(got, jsonNormalize(sim.Obj{"s": want})) {
		viol("stale-status:status-not-as-answered:"+answer, fmt.Sprintf("after the sync the target's status is %v; the answer (%s) against the live status %v gives %v", live["status"], answer, liveStatus, want))
	}
	if answer != "equal-to-cached" && statusWrites > 0 {
		viol("stale-status:status-written:"+answer, fmt.Sprintf("the answer (%s) leaves the live status as it is, yet %d accepted request(s) changed it", answer, statusWrites))
	}
	rep.Case("C16", id, finalizerWritten, id, map[string]interface{}{"kind": kind, "answer": answer, "labels": labels, "finalizerAddedInThisSync": finalizerWritten, "statusChangingWrites": statusWrites, "err": fmt.Sprint(sr.Err)})
}
