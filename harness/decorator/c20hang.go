//go:build verif

package decorator

import (
	goruntime "runtime"
	"strings"
	"time"

	sim "metacontroller/pkg/verifsim"
)

// guardReconcile runs one Reconcile on a goroutine of its own and watches for one structural dead
// end: a goroutine parked in (*decoratorController).Stop on a channel receive (the wait for doneCh)
// while there are no more decoratorController.Start goroutines than OTHER instances that have not been
// told to stop (each of those has one) - the goroutine that alone closes this instance's doneCh is
// gone. The clock only decides when to look (after 5 s, twice 2 s apart); the verdict is read
// from the goroutine dumps. Reconcile is called synchronously by the controller-runtime worker:
// when it never returns, no DecoratorController is followed any more.
func guardReconcile(fn func(), othersAlive int) (stack string, panicked bool, hung string) {
	done := make(chan struct{})
	go func() {
		defer close(done)
		stack, panicked = sim.Guard(fn)
	}()
	timer := time.NewTimer(5 * time.Second)
	defer timer.Stop()
	select {
	case <-done:
		return stack, panicked, ""
	case <-timer.C:
	}
	evidence := func() string {
		buf := make([]byte, 8<<20)
		buf = buf[:goruntime.Stack(buf, true)]
		var waiter string
		starts := 0
		for _, g := range strings.Split(string(buf), "\n\n") {
			// the controller goroutine itself (not the workers it spawned: those are "created by ...Start.func1")
			if i := strings.Index(g, "(*decoratorController).Start.func1()"); i >= 0 && !strings.Contains(g[:i], "(*decoratorController).Start.func1.") {
				starts++
			}
			if strings.Contains(g, "(*decoratorController).Stop(") && strings.Contains(g, "chan receive") && strings.Contains(g, "guardReconcile") {
				waiter = g
			}
		}
		if starts > othersAlive {
			return "" // the controller goroutine of the instance being stopped may still be alive
		}
		return waiter
	}
	for i := 0; i < 600; i++ {
		select {
		case <-done:
			return stack, panicked, ""
		case <-time.After(2 * time.Second):
		}
		if first := evidence(); first != "" {
			select {
			case <-done:
				return stack, panicked, ""
			case <-time.After(2 * time.Second):
			}
			if second := evidence(); second != "" {
				return "", false, second
			}
		}
	}
	<-done
	return stack, panicked, ""
}
