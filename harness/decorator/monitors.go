//go:build verif

package decorator

import (
	"encoding/json"
	"fmt"
	"sort"
	"strings"

	"metacontroller/pkg/apis/metacontroller/v1alpha1"
	sim "metacontroller/pkg/verifsim"
)

// M-TARGET: the C16 oracle as an always-on monitor. Every accepted write to the decorated object
// made during a sync changes only the label and annotation keys the hook's answers of that sync
// name, its status (only if an answer carries a non-null status, and only through the status
// endpoint when the resource has one), and the decorator's own finalizer.
func (w *dworld) judgeTargetWrites(res *syncResult) {
	if res.Cached == nil {
		return
	}
	ri, ok := sim.InfoByKind(res.Cached.GetAPIVersion(), res.Cached.GetKind())
	if !ok {
		return
	}
	allowedL, allowedA := map[string]bool{}, map[string]bool{}
	statusAllowed := false
	answers := 0
	for _, h := range res.Hooks {
		if (h.Path != "sync" && h.Path != "finalize") || h.Status != 200 || h.Err != "" {
			continue
		}
		var resp map[string]interface{}
		if json.Unmarshal(h.RespRaw, &resp) != nil {
			continue
		}
		answers++
		if l, ok := resp["labels"].(map[string]interface{}); ok {
			for k := range l {
				allowedL[k] = true
			}
		}
		if a, ok := resp["annotations"].(map[string]interface{}); ok {
			for k := range a {
				allowedA[k] = true
			}
		}
		if st, ok := resp["status"]; ok && st != nil {
			statusAllowed = true
		}
	}
	fin := "metacontroller.io/decoratorcontroller-" + w.cfg.ID
	for _, q := range res.Requests {
		if q.Actor != "mc" || q.GVR != ri.GVR() || q.NS != res.Cached.GetNamespace() || q.Name != res.Cached.GetName() || !q.Mutating() || !q.OK() || !q.Applied || q.Pre == nil || q.Post == nil {
			continue
		}
		w.targetJudged++
		if answers == 0 {
			// no usable answer in this sync: only the leftover finalizer may go
			if d := targetDiff(q.Pre, q.Post, map[string]bool{}, map[string]bool{}, false, fin); d != "" {
				sim.R().Violation("C16", w.reportID(), "mtarget:target-written-without-answer", "the decorated object was changed in a sync without a usable hook answer: "+d+"\n  request: "+q.String(), map[string]interface{}{"sync": res.Tag, "log": sim.DescribeLog(res.Requests, false)})
			}
			continue
		}
		if d := targetDiff(q.Pre, q.Post, allowedL, allowedA, statusAllowed, fin); d != "" {
			sim.R().Violation("C16", w.reportID(), "mtarget:target-changed-beyond-allowed", "a write on the decorated object changed more than the answers of this sync allow: "+d+"\n  request: "+q.String(), map[string]interface{}{"sync": res.Tag, "log": sim.DescribeLog(res.Requests, false), "hooks": describeHooks(res.Hooks)})
		}
	}
}

// M-STRATEGY (decorator side): see the composite package. Attachments: no write to one that is
// pending deletion; an update only under InPlace; a delete of an attachment every answer of the
// sync still desires only under Recreate; deletes with background propagation.
func (w *dworld) judgeStrategy(res *syncResult) {
	if res.Cached == nil {
		return
	}
	methods := map[string]v1alpha1.ChildUpdateMethod{}
	infos := map[string]sim.ResourceInfo{}
	for _, c := range w.cfg.Attachments {
		m := c.Method
		if c.NoStrategy {
			m = ""
		}
		methods[c.Info.GVR().String()] = m
		infos[c.Info.GVR().String()] = c.Info
	}
	parentNS := res.Cached.GetNamespace()
	key := func(o map[string]interface{}) string {
		ns := sim.NS(o)
		if ns == "" {
			ns = parentNS
		}
		for _, c := range w.cfg.Attachments {
			if c.Info.APIVersion() == fmt.Sprint(o["apiVersion"]) && c.Info.Kind == fmt.Sprint(o["kind"]) && !c.Info.Namespaced {
				ns = ""
			}
		}
		return fmt.Sprint(o["apiVersion"], "|", o["kind"], "|", ns, "|", sim.Name(o))
	}
	var answers []map[string]bool
	for _, h := range res.Hooks {
		if (h.Path != "sync" && h.Path != "finalize") || h.Status != 200 || h.Err != "" {
			continue
		}
		var resp struct {
			Attachments []map[string]interface{} `json:"attachments"`
		}
		if json.Unmarshal(h.RespRaw, &resp) != nil {
			return
		}
		set := map[string]bool{}
		for _, c := range resp.Attachments {
			if c != nil {
				set[key(c)] = true
			}
		}
		answers = append(answers, set)
	}
	if len(answers) == 0 {
		return
	}
	desired := func(o sim.Obj) bool {
		for _, a := range answers {
			if !a[key(o)] {
				return false
			}
		}
		return true
	}
	viol := func(sig, detail string, q *sim.Request) {
		sim.R().Violation("C06", w.reportID(), "decorator:mstrategy:"+sig, detail+"\n  request: "+q.String(), map[string]interface{}{"sync": res.Tag, "log": sim.DescribeLog(res.Requests, false), "hooks": describeHooks(res.Hooks)})
	}
	for _, q := range res.Requests {
		if q.Actor != "mc" || !q.Mutating() || !q.OK() || !q.Applied {
			continue
		}
		m, isAtt := methods[q.GVR.String()]
		if !isAtt || q.Pre == nil {
			continue
		}
		w.strategyJudged++
		if sim.IsDeleting(q.Pre) {
			viol("write-to-deleting-child:"+q.Verb, "an attachment that is pending deletion received a write", q)
			continue
		}
		switch q.Verb {
		case "update":
			if m != v1alpha1.ChildUpdateInPlace {
				viol(fmt.Sprintf("updated-in-place-under:%q", string(m)), fmt.Sprintf("an attachment was updated in place although the update method of its resource is %q", string(m)), q)
			}
		case "delete":
			opts, _ := q.Body.(map[string]interface{})
			if p, _ := opts["propagationPolicy"].(string); p != "Background" {
				viol("delete-not-background", fmt.Sprintf("an attachment delete asks for propagationPolicy %q", p), q)
			}
			if desired(q.Pre) && m != v1alpha1.ChildUpdateRecreate {
				viol(fmt.Sprintf("desired-child-deleted-under:%q", string(m)), fmt.Sprintf("an attachment the hook still desires was deleted although the update method of its resource is %q", string(m)), q)
			}
		}
	}
}

// M-VIEW (decorator side): the C03 oracle as an always-on monitor. When a sync or finalize call
// arrives, the `attachments` map of the request is compared with the store: one group per declared
// attachment resource; in it exactly the objects whose CONTROLLER reference carries the target's
// UID and which carry this decorator's marker, in the target's scope, keyed by name - or
// namespace/name exactly when the target is cluster-scoped and the attachment namespaced.
func (w *dworld) observeHookCall(call *sim.HookCall) {
	if call.Path != "sync" && call.Path != "finalize" {
		return
	}
	target, _ := call.Req["object"].(map[string]interface{})
	if target == nil {
		return
	}
	apiVersion, _ := target["apiVersion"].(string)
	kind, _ := target["kind"].(string)
	ti, ok := sim.InfoByKind(apiVersion, kind)
	if !ok {
		return
	}
	tuid, tns := sim.UID(target), sim.NS(target)
	live := w.sim.Peek(ti.GVR(), tns, sim.Name(target))
	if live == nil || sim.UID(live) != tuid {
		return
	}
	want := map[string][]string{}
	for _, a := range w.cfg.Attachments {
		hk := sim.HookKey(a.Info)
		want[hk] = []string{}
		for _, o := range w.sim.PeekAll(a.Info.GVR()) {
			ctl := sim.ControllerOf(o)
			if ctl == nil || ctl.UID != tuid || sim.Annotations(o)[sim.DecoratorAnnotation] != w.cfg.ID {
				continue
			}
			if ti.Namespaced && sim.NS(o) != tns {
				continue
			}
			k := sim.Name(o)
			if !ti.Namespaced && a.Info.Namespaced {
				k = sim.NS(o) + "/" + k
			}
			want[hk] = append(want[hk], k+"#"+sim.UID(o))
		}
	}
	got := map[string][]string{}
	atts, _ := call.Req["attachments"].(map[string]interface{})
	for hk, g := range atts {
		got[hk] = []string{}
		gm, _ := g.(map[string]interface{})
		for k, o := range gm {
			om, _ := o.(map[string]interface{})
			got[hk] = append(got[hk], k+"#"+sim.UID(om))
		}
	}
	flat := func(m map[string][]string) string {
		var out []string
		for hk, l := range m {
			sort.Strings(l)
			out = append(out, hk+"{"+strings.Join(l, ",")+"}")
		}
		sort.Strings(out)
		return strings.Join(out, " ")
	}
	w.viewsJudged++
	if a, b := flat(got), flat(want); a != b {
		sim.R().Violation("C03", w.reportID(), "mview:decorator:attachments-map-differs:"+call.Path, fmt.Sprintf("the attachments map sent to the %s hook differs from what the target controls (with this decorator's marker) when the call arrives:\n  sent:       %s\n  controlled: %s", call.Path, a, b), map[string]interface{}{"sync": call.Tag})
	}
}
