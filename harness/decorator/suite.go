//go:build verif

package decorator

import (
	"encoding/json"
	"fmt"
	"sort"
	"strings"
	"sync/atomic"
	"testing"

	metav1 "k8s.io/apimachinery/pkg/apis/meta/v1"

	"metacontroller/pkg/apis/metacontroller/v1alpha1"
	"metacontroller/pkg/controller/common/api"
	"metacontroller/pkg/hooks"
	sim "metacontroller/pkg/verifsim"
)

// ---------------------------------------------------------------------------------------------
// C01 (decorator side): convergence, then quiet

func TestVerif_C01_Decorator(t *testing.T) {
	n := sim.Pick(120, 2500)
	rng := sim.Rand("C01-decorator")
	for i := 0; i < n; i++ {
		id := fmt.Sprintf("c01d%d", i)
		sc := genDScenario(rng, uniqueID("x"))
		if !sim.WantCase(id) {
			continue
		}
		t.Run(id, func(t *testing.T) {
			t.Parallel()
			runD01(t, id, sc)
		})
	}
}

func runD01(t *testing.T, id string, sc *dScenario) {
	rep := sim.R()
	rep.Begin("C01", id)
	r := prepareD(sc)
	defer r.close()
	r.w.caseID = id
	if err := r.w.start(); err != nil {
		inconclusive(t, "C01", id, err)
		return
	}
	defer r.w.flushCounters("C01")
	viol := func(sig, detail string) {
		rep.Violation("C01", id, sig, detail, map[string]interface{}{"scenario": sc, "log": lastSyncLogs(r.syncs, 6)})
	}
	for phase := 0; phase <= len(sc.Edits); phase++ {
		if phase > 0 && !r.applyEdit(sc.Edits[phase-1]) {
			continue
		}
		rounds, converged, ok := r.converge()
		if !ok {
			inconclusive(t, "C01", id, r.w.watchdog)
			return
		}
		if !converged {
			cause := "requeues"
			if len(r.syncs) > 0 && r.syncs[len(r.syncs)-1].Err != nil {
				cause = "error:" + normalizeErr(sc.ID, r.syncs[len(r.syncs)-1].Err.Error())
			}
			viol("no-convergence:decorator:"+cause, fmt.Sprintf("phase %d: no quiescent state after %d rounds", phase, rounds))
			return
		}
		r.checkFixedPoint(phase, viol)
		for extra := 0; extra < 2; extra++ {
			rv := r.w.sim.RV()
			r.w.q.Add(r.key())
			syncs, ok := r.w.round()
			if !ok {
				inconclusive(t, "C01", id, r.w.watchdog)
				return
			}
			r.syncs = append(r.syncs, syncs...)
			for _, s := range syncs {
				if m := s.mcMutations(); len(m) > 0 {
					viol("hot-loop:decorator:"+m[0].Verb+":"+m[0].GVR.Resource, fmt.Sprintf("phase %d: a further sync at the fixed point still sends mutating requests:\n%s", phase, sim.Join(sim.DescribeLog(s.Requests, true))))
				}
			}
			if r.w.sim.RV() != rv {
				viol("hot-loop:decorator:store-changed", fmt.Sprintf("phase %d: a further sync at the fixed point changed the API server", phase))
			}
		}
	}
	rep.Case("C01", id, len(r.syncs) > 0, sc.shapeKey(), map[string]interface{}{"scenario": sc, "syncs": len(r.syncs)})
}

// ---------------------------------------------------------------------------------------------
// C06 (decorator side): the strategy table

type d06Cell struct {
	Method string `json:"method"`
	Kind   string `json:"kind"`
	Diff   string `json:"diff"`
	State  string `json:"state"`
}

func (c d06Cell) id() string {
	m := c.Method
	if m == "" {
		m = "unset"
	}
	if m == "<nil>" {
		m = "nil"
	}
	return fmt.Sprintf("c06-decorator-%s-%s-%s-%s", m, lower(c.Kind), c.Diff, c.State)
}

func TestVerif_C06_DecoratorTable(t *testing.T) {
	for _, m := range append(append([]string{}, dMethods...), "Bogus") {
		for _, kind := range []string{"ConfigMap", "Widget"} {
			for _, diff := range []string{"equal", "owned", "foreign", "status"} {
				if diff == "status" && kind == "ConfigMap" {
					continue
				}
				for _, state := range []string{"alive", "deleting"} {
					c := d06Cell{m, kind, diff, state}
					if !sim.WantCase(c.id()) {
						continue
					}
					t.Run(c.id(), func(t *testing.T) {
						t.Parallel()
						runD06(t, c)
					})
				}
			}
		}
	}
}

func runD06(t *testing.T, c d06Cell) {
	rep := sim.R()
	id := c.id()
	rep.Begin("C06", id)
	uid := uniqueID("y")
	// a second attachment rule without any update strategy (no attachment of that kind exists): the
	// strategy of a rule does not depend on its neighbours, listed before ("alive" cells) or after it
	other := dKind{Kind: "Widget", Method: "<nil>"}
	if c.Kind == "Widget" {
		other.Kind = "ConfigMap"
	}
	kinds := []dKind{other, {Kind: c.Kind, Method: c.Method}}
	if c.State != "alive" {
		kinds = []dKind{{Kind: c.Kind, Method: c.Method}, other}
	}
	sc := &dScenario{ID: uid, Target: "Thing", Kinds: kinds}
	tk := dKid{Kind: c.Kind, Name: "target-" + uid, Value: "v1"}
	sc.Kids = []dKid{tk}
	r := prepareD(sc)
	defer r.close()
	r.w.caseID = id
	s := r.w.sim
	ri := kindInfo(c.Kind)
	field := "spec"
	if c.Kind == "ConfigMap" {
		field = "data"
	}
	obj := r.asCreatedByDC(tk, "v1", uid)
	switch c.Diff {
	case "owned":
		obj = r.asCreatedByDC(tk, "old", uid)
	case "foreign":
		sim.SetNested(obj, "x", field, "foreign")
	}
	if c.State == "deleting" {
		sim.SetNested(obj, []interface{}{"example.com/hold"}, "metadata", "finalizers")
	}
	created := s.MustCreate(ri.GVR(), obj)
	if c.Diff == "status" {
		c2 := sim.DeepCopy(created)
		c2["status"] = sim.Obj{"phase": "Running"}
		s.ExtUpdateStatus(ri.GVR(), c2)
	}
	und := r.asCreatedByDC(dKid{Kind: c.Kind, Name: "undesired-" + uid}, "v1", uid)
	if c.State == "deleting" {
		sim.SetNested(und, []interface{}{"example.com/hold"}, "metadata", "finalizers")
	}
	undC := s.MustCreate(ri.GVR(), und)
	if c.State == "deleting" {
		s.ExtDelete(ri.GVR(), sim.NS(created), sim.Name(created), "")
		s.ExtDelete(ri.GVR(), sim.NS(undC), sim.Name(undC), "")
	}
	if err := r.w.start(); err != nil {
		if c.Method == "Bogus" {
			rep.Case("C06", id, true, id, map[string]interface{}{"cell": c, "outcome": "refused to start: " + err.Error()})
			return
		}
		inconclusive(t, "C06", id, err)
		return
	}
	defer r.w.flushCounters("C06")
	type ev struct {
		sync int
		q    *sim.Request
	}
	var onT, onU []ev
	var errs []string
	nsync := 0
	for round := 0; round < 4; round++ {
		if round > 0 {
			r.w.q.Add(r.key())
		}
		syncs, ok := r.w.round()
		if !ok {
			inconclusive(t, "C06", id, r.w.watchdog)
			return
		}
		for _, sr := range syncs {
			nsync++
			if sr.Err != nil {
				errs = append(errs, sr.Err.Error())
			}
			for _, q := range sr.Requests {
				if q.Actor != "mc" || !q.Mutating() || q.GVR != ri.GVR() {
					continue
				}
				name := q.Name
				if q.Verb == "create" {
					if b, ok := q.Body.(map[string]interface{}); ok {
						name = sim.Name(b)
					}
				}
				switch name {
				case tk.Name:
					onT = append(onT, ev{nsync, q})
				case "undesired-" + uid:
					onU = append(onU, ev{nsync, q})
				}
			}
		}
	}
	viol := func(sig, detail string) {
		var log []string
		for _, e := range append(onT, onU...) {
			log = append(log, fmt.Sprintf("sync %d: %s body=%v", e.sync, e.q.String(), e.q.Body))
		}
		rep.Violation("C06", id, "decorator:"+sig, detail, map[string]interface{}{"cell": c, "requests": log, "syncErrors": errs})
	}
	count := func(evs []ev, verb string) (int, *ev) {
		n := 0
		var first *ev
		for i := range evs {
			if evs[i].q.Verb == verb {
				if first == nil {
					first = &evs[i]
				}
				n++
			}
		}
		return n, first
	}
	checkDelete := func(who string, e *ev, uidWant string) {
		opts, _ := e.q.Body.(map[string]interface{})
		pre, _ := opts["preconditions"].(map[string]interface{})
		if u, _ := pre["uid"].(string); u != uidWant {
			viol("delete-without-observed-uid:"+who, fmt.Sprintf("delete carries uid precondition %q, observed uid %q", u, uidWant))
		}
		if p, _ := opts["propagationPolicy"].(string); p != "Background" {
			viol("delete-not-background:"+who, "delete does not ask for background propagation")
		}
	}
	nUpd, _ := count(onT, "update")
	nDel, fDel := count(onT, "delete")
	nCre, fCre := count(onT, "create")
	differs := c.Diff == "owned"
	switch {
	case c.State == "deleting":
		if len(onT) > 0 {
			viol("write-to-deleting-child", "an attachment pending deletion received a write")
		}
	case !differs:
		if len(onT) > 0 {
			viol("write-to-matching-child:"+c.Diff, "an attachment that already matches received a write")
		}
	case c.Method == "" || c.Method == "OnDelete" || c.Method == "<nil>":
		if len(onT) > 0 {
			viol("ondelete-wrote:"+c.Method, "method OnDelete/unset: the differing attachment must be neither updated nor deleted")
		}
	case c.Method == "Recreate":
		if nUpd > 0 {
			viol("recreate-updated-in-place", "Recreate: updated in place")
		}
		if nDel != 1 {
			viol("recreate-delete-count", fmt.Sprintf("Recreate: want exactly one delete, saw %d", nDel))
		} else {
			checkDelete("desired", fDel, sim.UID(created))
			if nCre < 1 || fCre.sync <= fDel.sync {
				viol("recreate-not-later", "Recreate: not recreated on a later sync")
			}
		}
	case c.Method == "InPlace":
		if nDel > 0 || nCre > 0 || nUpd < 1 {
			viol("inplace-wrong-verbs", fmt.Sprintf("InPlace: updates=%d deletes=%d creates=%d", nUpd, nDel, nCre))
		}
	default:
		if len(onT) > 0 {
			viol("unknown-method-wrote", "unknown method: the attachment received a write")
		}
		if len(errs) == 0 {
			viol("unknown-method-no-error", "unknown method on a differing attachment: no sync error")
		}
	}
	nUDel, fUDel := count(onU, "delete")
	if c.State == "deleting" {
		if len(onU) > 0 {
			viol("write-to-deleting-undesired", "an undesired attachment already pending deletion received a write")
		}
	} else if nUDel != 1 || len(onU) != 1 {
		viol("undesired-delete-count", fmt.Sprintf("undesired attachment: want exactly one delete, saw %d of %d requests", nUDel, len(onU)))
	} else {
		checkDelete("undesired", fUDel, sim.UID(undC))
	}
	rep.Case("C06", id, nsync > 0, id, map[string]interface{}{"cell": c, "syncs": nsync})
}

// ---------------------------------------------------------------------------------------------
// C03 (decorator side): the attachments view

func TestVerif_C03_DecoratorView(t *testing.T) {
	roles := []string{"ours", "other-decorator", "real-controller", "marker-only", "foreign", "ours-other-ns", "ours-deleting", "sibling-plain-ref"}
	rng := sim.Rand("C03-decorator")
	for _, target := range []string{"Thing", "ClusterThing"} {
		for _, kinds := range [][]string{{"ConfigMap"}, {"Widget"}, {"ConfigMap", "Widget"}, {"Widget", "ClusterWidget"}} {
			for _, fin := range []bool{false, true} {
				for k := 0; k < sim.Pick(2, 10); k++ {
					var rs []string
					for _, r := range roles {
						if k == 0 || rng.Intn(2) == 0 {
							rs = append(rs, r)
						}
					}
					target, kinds, fin, rs := target, kinds, fin, rs
					id := fmt.Sprintf("c03-decorator-%s-%s-fin%v-%s", lower(target), lower(strings.Join(kinds, "+")), fin, sim.Hash(rs)[:6])
					if !sim.WantCase(id) {
						continue
					}
					t.Run(id, func(t *testing.T) {
						t.Parallel()
						runD03(t, id, target, kinds, fin, rs)
					})
				}
			}
		}
	}
}

func runD03(t *testing.T, id, target string, kinds []string, fin bool, roles []string) {
	rep := sim.R()
	rep.Begin("C03", id)
	uid := uniqueID("z")
	sc := &dScenario{ID: uid, Target: target, Finalize: fin}
	for _, k := range kinds {
		if target == "Thing" && !kindInfo(k).Namespaced {
			sc.Kinds = append(sc.Kinds, dKind{Kind: k, Method: "InPlace"})
			continue
		}
		sc.Kinds = append(sc.Kinds, dKind{Kind: k, Method: "InPlace"})
		sc.Kids = append(sc.Kids, dKid{Kind: k, Name: "new-" + lower(k) + "-" + uid, Value: "v1"})
	}
	r := prepareD(sc)
	defer r.close()
	r.w.caseID = id
	s := r.w.sim
	expected := map[string]map[string]string{}
	for _, k := range kinds {
		ri := kindInfo(k)
		expected[sim.HookKey(ri)] = map[string]string{}
		visible := sc.ns() == "" || ri.Namespaced
		for _, role := range roles {
			name := role + "-" + lower(k) + "-" + uid
			kid := dKid{Kind: k, Name: name, Value: "x"}
			var o sim.Obj
			inView := false
			switch role {
			case "ours":
				o = r.asCreatedByDC(kid, "x", uid)
				inView = visible
			case "other-decorator":
				o = r.asCreatedByDC(kid, "x", "another")
			case "real-controller":
				o = r.desired(kid, "x")
				sim.AddOwner(o, r.target, true)
			case "marker-only":
				o = r.desired(kid, "x")
				sim.SetAnnotations(o, map[string]string{sim.DecoratorAnnotation: uid})
			case "foreign":
				o = r.asCreatedByDC(kid, "x", uid)
				delete(o["metadata"].(map[string]interface{}), "ownerReferences")
				sim.AddOwner(o, sim.Obj{"apiVersion": "apps/v1", "kind": "ReplicaSet", "metadata": sim.Obj{"name": "rs", "uid": "rs-" + uid}}, true)
			case "sibling-plain-ref":
				// controlled (and marked) by another target of this decorator; this target is listed
				// as a plain, non-controller owner only
				o = r.asCreatedByDC(kid, "x", uid)
				delete(o["metadata"].(map[string]interface{}), "ownerReferences")
				sim.AddOwner(o, sim.Obj{"apiVersion": sc.targetInfo().APIVersion(), "kind": sc.targetInfo().Kind, "metadata": sim.Obj{"name": "sibling-" + uid, "uid": "sibling-uid-" + uid}}, true)
				sim.AddOwner(o, r.target, false)
			case "ours-other-ns":
				if !ri.Namespaced {
					continue
				}
				o = r.asCreatedByDC(kid, "x", uid)
				sim.SetNested(o, "elsewhere-"+uid, "metadata", "namespace")
				inView = sc.ns() == "" // a cluster-scoped target sees every namespace
			case "ours-deleting":
				o = r.asCreatedByDC(kid, "x", uid)
				sim.SetNested(o, []interface{}{"example.com/hold"}, "metadata", "finalizers")
				inView = visible
			}
			c := s.MustCreate(ri.GVR(), o)
			if role == "ours-deleting" {
				s.ExtDelete(ri.GVR(), sim.NS(c), sim.Name(c), "")
			}
			if inView {
				n := sim.Name(c)
				if sc.ns() == "" && ri.Namespaced {
					n = sim.NS(c) + "/" + n
				}
				expected[sim.HookKey(ri)][n] = sim.UID(c)
			}
		}
	}
	finName := "metacontroller.io/decoratorcontroller-" + uid
	if fin {
		s.ExtMutate(sc.targetInfo().GVR(), sc.ns(), sc.targetName(), func(o sim.Obj) { sim.SetNested(o, []interface{}{finName}, "metadata", "finalizers") })
		s.ExtDelete(sc.targetInfo().GVR(), sc.ns(), sc.targetName(), "")
	}
	if err := r.w.start(); err != nil {
		inconclusive(t, "C03", id, err)
		return
	}
	defer r.w.flushCounters("C03")
	r.w.q.Add(r.key())
	syncs, ok := r.w.round()
	if !ok || len(syncs) == 0 {
		inconclusive(t, "C03", id, fmt.Errorf("no sync: %v", r.w.watchdog))
		return
	}
	sr := syncs[0]
	viol := func(sig, detail string) {
		rep.Violation("C03", id, "decorator:"+sig, detail, map[string]interface{}{"target": target, "kinds": kinds, "roles": roles, "hooks": describeHooks(sr.Hooks), "requests": sim.DescribeLog(sr.Requests, false)})
	}
	want := "sync"
	if fin {
		want = "finalize"
	}
	var call *sim.HookCall
	for _, h := range sr.Hooks {
		if h.Path == want {
			call = h
		}
	}
	if call == nil {
		viol("wrong-hook", "expected a call of the "+want+" hook")
		return
	}
	got, _ := call.Req["attachments"].(map[string]interface{})
	flat := func(m map[string]map[string]string) string {
		var out []string
		for hk, inner := range m {
			var ks []string
			for k := range inner {
				ks = append(ks, k)
			}
			sort.Strings(ks)
			out = append(out, hk+"{"+strings.Join(ks, ",")+"}")
		}
		sort.Strings(out)
		return strings.Join(out, " ")
	}
	gotM := map[string]map[string]string{}
	for hk, g := range got {
		gm, _ := g.(map[string]interface{})
		gotM[hk] = map[string]string{}
		for k, o := range gm {
			om, _ := o.(map[string]interface{})
			gotM[hk][k] = sim.UID(om)
		}
	}
	if flat(gotM) != flat(expected) {
		viol("view-differs", fmt.Sprintf("attachments sent to the hook:\n  %s\nexpected:\n  %s", flat(gotM), flat(expected)))
	}
	if !fin {
		for _, q := range sr.Requests {
			if q.Actor == "mc" && q.Verb == "create" && strings.HasPrefix(sim.Name(asObj(q.Body)), "new-") {
				ri, _ := s.Info(q.GVR)
				wantNS := ""
				if ri.Namespaced {
					wantNS = sc.attNS(ri.Kind)
				}
				if q.NS != wantNS {
					viol("create-namespace", fmt.Sprintf("new attachment created in namespace %q want %q", q.NS, wantNS))
				}
			}
		}
	}
	rep.Case("C03", id, true, id, map[string]interface{}{"target": target, "kinds": kinds, "finalizing": fin, "roles": roles, "expected": expected})
}

func asObj(v interface{}) sim.Obj {
	m, _ := v.(map[string]interface{})
	return m
}

// ---------------------------------------------------------------------------------------------
// C10 (decorator side): finalizer life cycle

func TestVerif_C10_DecoratorWalks(t *testing.T) {
	rng := sim.Rand("C10-decorator")
	ops := []string{"unselect", "reselect", "delete-background", "delete-foreground", "delete-orphan", "strip-finalizer", "toggle-finalize-hook", "gc", "resync", "edit"}
	for i := 0; i < sim.Pick(80, 1500); i++ {
		var steps []string
		for k := 0; k < 4+rng.Intn(7); k++ {
			steps = append(steps, ops[rng.Intn(len(ops))])
		}
		hookOn := rng.Intn(4) != 0
		target := []string{"Thing", "NoStatus", "ClusterThing"}[rng.Intn(3)]
		id := fmt.Sprintf("c10-decorator-w%d", i)
		if !sim.WantCase(id) {
			continue
		}
		t.Run(id, func(t *testing.T) {
			t.Parallel()
			runD10(t, id, target, hookOn, steps)
		})
	}
}

func runD10(t *testing.T, id, target string, hookOn bool, steps []string) {
	rep := sim.R()
	rep.Begin("C10", id)
	uid := uniqueID("j")
	sc := &dScenario{ID: uid, Target: target, Finalize: hookOn, Kinds: []dKind{{Kind: "ConfigMap", Method: "InPlace"}}}
	sc.Kids = []dKid{{Kind: "ConfigMap", Name: "a-" + uid, Value: "v1"}, {Kind: "ConfigMap", Name: "b-" + uid, Value: "v1"}}
	r := prepareD(sc)
	defer r.close()
	w := r.w
	w.caseID = id
	s := w.sim
	tgvr := sc.targetInfo().GVR()
	finName := "metacontroller.io/decoratorcontroller-" + uid
	s.ExtMutate(tgvr, sc.ns(), sc.targetName(), func(o sim.Obj) { sim.SetNested(o, "step", "spec", "finalize") })
	if err := w.start(); err != nil {
		inconclusive(t, "C10", id, err)
		return
	}
	defer func() { w.flushCounters("C10") }()
	tuid := sim.UID(r.target)
	judged, finCalls, adds, removals := 0, 0, 0, 0
	viol := func(sig, detail string, sr *syncResult) {
		rep.Violation("C10", id, "decorator:"+sig, detail, map[string]interface{}{"target": target, "steps": steps, "sync": sr.Tag, "requests": sim.DescribeLog(sr.Requests, false), "hooks": describeHooks(sr.Hooks), "err": fmt.Sprint(sr.Err)})
	}
	judge := func(sr *syncResult) {
		if sr.Cached == nil || string(sr.Cached.GetUID()) != tuid {
			return
		}
		judged++
		cached := sim.Obj(sr.Cached.Object)
		deleting := sim.IsDeleting(cached)
		selected := sim.Labels(cached)["decorate"] == uid
		hasOurs := sim.HasFinalizer(cached, finName)
		gcFin := sim.HasFinalizer(cached, "foregroundDeletion") || sim.HasFinalizer(cached, "orphan")
		allFinalized := len(sr.Hooks) > 0
		for _, h := range sr.Hooks {
			fz, _ := h.Req["finalizing"].(bool)
			wantFinalize := hookOn && (deleting || !selected)
			if h.Path == "finalize" {
				finCalls++
				if !fz {
					viol("finalize-hook-without-finalizing", "finalize hook called with finalizing: false", sr)
				}
				if !wantFinalize {
					viol("finalize-hook-instead-of-sync", fmt.Sprintf("deleting=%v selected=%v hook=%v: finalize hook called", deleting, selected, hookOn), sr)
				}
			}
			if h.Path == "sync" {
				if fz {
					viol("sync-hook-with-finalizing-true", "sync hook called with finalizing: true", sr)
				}
				if wantFinalize {
					viol("sync-hook-instead-of-finalize", fmt.Sprintf("deleting=%v selected=%v with a finalize hook: the sync hook was called", deleting, selected), sr)
				}
			}
			var resp sim.Obj
			if h.Status != 200 || json.Unmarshal(h.RespRaw, &resp) != nil {
				allFinalized = false
			} else if f, _ := resp["finalized"].(bool); !f {
				allFinalized = false
			}
		}
		cur := sim.DeepCopy(cached)
		childMut := 0
		checkedCreate := false
		for _, q := range sr.Requests {
			if q.GVR == tgvr && q.Name == sc.targetName() && q.Applied && q.Post != nil {
				cur = q.Post
			}
			if q.Actor != "mc" {
				continue
			}
			if q.GVR == tgvr && q.Name == sc.targetName() && q.Verb == "update" && q.Sub == "" {
				body := asObj(q.Body)
				bodyHas := body != nil && sim.HasFinalizer(body, finName)
				preHas := q.Pre != nil && sim.HasFinalizer(q.Pre, finName)
				if bodyHas && !preHas {
					adds++
					if deleting {
						viol("finalizer-added-to-deleting-parent", "add-finalizer request issued for an object already being deleted", sr)
					}
					if !hookOn {
						viol("finalizer-added-without-finalize-hook", "finalizer added although no finalize hook is configured", sr)
					}
				}
				if preHas && !bodyHas && q.OK() && q.Applied {
					removals++
					if hookOn && !allFinalized {
						viol("finalizer-removed-without-finalized", "finalizer removed in a sync whose hook answer did not say finalized: true", sr)
					}
				}
			}
			if q.Mutating() && q.GVR == sim.ConfigMapInfo.GVR() {
				childMut++
				if q.Verb == "create" && q.OK() && hookOn && !checkedCreate {
					checkedCreate = true
					if !sim.HasFinalizer(cur, finName) {
						viol("child-created-before-finalizer", "an attachment was created while the stored object did not carry the finalizer", sr)
					}
				}
			}
		}
		if deleting && childMut > 0 && (!hookOn || !hasOurs || gcFin) {
			viol(fmt.Sprintf("children-managed-for-dying-parent:hook=%v:finalizer=%v:gc=%v", hookOn, hasOurs, gcFin), "attachments of an object pending deletion were written although it cannot be finalized by us", sr)
		}
	}
	lastErr := ""
	var recent []*syncResult
	settle := func() bool {
		for i := 0; i < 40; i++ {
			syncs, ok := w.round()
			if !ok {
				return false
			}
			for _, sr := range syncs {
				judge(sr)
				recent = append(recent, sr)
				lastErr = ""
				if sr.Err != nil {
					lastErr = sr.Err.Error()
				}
			}
			if len(syncs) == 0 {
				if !w.quiesce() {
					return false
				}
				if w.q.Len() == 0 {
					// quiet: "children are still reconciled to its answer" - a finalization that we
					// are entitled to carry out cannot be left half-way with nothing queued
					if cur := s.Peek(tgvr, sc.ns(), sc.targetName()); cur != nil && sim.UID(cur) == tuid && hookOn && lastErr == "" {
						gc := sim.HasFinalizer(cur, "foregroundDeletion") || sim.HasFinalizer(cur, "orphan")
						if sim.HasFinalizer(cur, finName) && !gc && (sim.IsDeleting(cur) || sim.Labels(cur)["decorate"] != uid) {
							var left []string
							for _, o := range s.PeekAll(sim.ConfigMapInfo.GVR()) {
								if c := sim.ControllerOf(o); c != nil && c.UID == tuid {
									left = append(left, sim.Name(o))
								}
							}
							rep.Violation("C10", id, "decorator:finalization-stalled", fmt.Sprintf("the object still carries the finalizer and must be finalized (deleting=%v, selected=%v), yet nothing is queued any more; attachments left: %v", sim.IsDeleting(cur), sim.Labels(cur)["decorate"] == uid, left), map[string]interface{}{"target": target, "steps": steps, "lastSyncs": lastSyncLogs(recent, 4)})
						}
					}
					return true
				}
			}
		}
		return true
	}
	if !settle() {
		inconclusive(t, "C10", id, w.watchdog)
		return
	}
	for _, op := range steps {
		alive := s.Peek(tgvr, sc.ns(), sc.targetName())
		if alive == nil || sim.UID(alive) != tuid {
			break
		}
		switch op {
		case "unselect":
			s.ExtMutate(tgvr, sc.ns(), sc.targetName(), func(o sim.Obj) { sim.SetNested(o, "no", "metadata", "labels", "decorate") })
		case "reselect":
			s.ExtMutate(tgvr, sc.ns(), sc.targetName(), func(o sim.Obj) { sim.SetNested(o, uid, "metadata", "labels", "decorate") })
		case "delete-background":
			s.ExtDelete(tgvr, sc.ns(), sc.targetName(), "")
		case "delete-foreground":
			s.ExtDelete(tgvr, sc.ns(), sc.targetName(), "Foreground")
		case "delete-orphan":
			s.ExtDelete(tgvr, sc.ns(), sc.targetName(), "Orphan")
		case "strip-finalizer":
			s.ExtMutate(tgvr, sc.ns(), sc.targetName(), func(o sim.Obj) {
				var keep []interface{}
				for _, f := range sim.Finalizers(o) {
					if f != finName {
						keep = append(keep, f)
					}
				}
				if len(keep) == 0 {
					delete(o["metadata"].(map[string]interface{}), "finalizers")
				} else {
					sim.SetNested(o, keep, "metadata", "finalizers")
				}
			})
		case "toggle-finalize-hook":
			w.stop()
			hookOn = !hookOn
			w.cfg.FinalizeHook = hookOn
			w.dc = w.cfg.decoratorController(w.hooks)
			if err := w.start(); err != nil {
				inconclusive(t, "C10", id, err)
				return
			}
		case "gc":
			s.GCStep()
		case "resync":
			w.q.Add(r.key())
		case "edit":
			s.ExtMutate(tgvr, sc.ns(), sc.targetName(), func(o sim.Obj) { sim.SetNested(o, "x", "spec", "note") })
		}
		if !settle() {
			inconclusive(t, "C10", id, w.watchdog)
			return
		}
	}
	rep.Counter("C10", "decorator_syncs_judged", int64(judged))
	rep.Counter("C10", "decorator_finalize_hook_calls", int64(finCalls))
	rep.Case("C10", id, finCalls > 0 || adds > 0 || removals > 0, "decorator/"+sim.Hash([]interface{}{target, hookOn, steps}), map[string]interface{}{"target": target, "finalizeHook": hookOn, "steps": steps, "syncs": judged})
}

// ---------------------------------------------------------------------------------------------
// C13 (decorator side): malformed responses

type recHook struct {
	inner hooks.Hook
	fails int32
}

func (h *recHook) IsEnabled() bool { return h.inner.IsEnabled() }
func (h *recHook) Call(request api.WebhookRequest, response interface{}) error {
	err := h.inner.Call(request, response)
	if err != nil {
		atomic.AddInt32(&h.fails, 1)
	}
	return err
}

var junkValues = []struct{ Name, Raw string }{
	{"absent", ""}, {"null", "null"}, {"true", "true"}, {"zero", "0"}, {"minus1", "-1"}, {"huge", "1e308"}, {"2pow63", "9223372036854775808"},
	{"emptystr", `""`}, {"str", `"x"`}, {"emptylist", "[]"}, {"listnull", "[null]"}, {"emptyobj", "{}"}, {"objnull", `{"a":null}`},
}

func jsonPaths(v interface{}, prefix []string, out *[][]string) {
	switch t := v.(type) {
	case map[string]interface{}:
		for k, vv := range t {
			p := append(append([]string{}, prefix...), k)
			*out = append(*out, p)
			jsonPaths(vv, p, out)
		}
	case []interface{}:
		for i, vv := range t {
			p := append(append([]string{}, prefix...), fmt.Sprintf("#%d", i))
			*out = append(*out, p)
			jsonPaths(vv, p, out)
		}
	}
}

func replaceAt(v interface{}, path []string, raw string) interface{} {
	if len(path) == 0 {
		var nv interface{}
		json.Unmarshal([]byte(raw), &nv)
		return nv
	}
	switch t := v.(type) {
	case map[string]interface{}:
		out := map[string]interface{}{}
		for k, vv := range t {
			out[k] = sim.DeepCopyValue(vv)
		}
		if len(path) == 1 && raw == "" {
			delete(out, path[0])
			return out
		}
		out[path[0]] = replaceAt(t[path[0]], path[1:], raw)
		return out
	case []interface{}:
		var idx int
		fmt.Sscanf(path[0], "#%d", &idx)
		out := make([]interface{}, 0, len(t))
		for i, vv := range t {
			if i == idx {
				if len(path) == 1 && raw == "" {
					continue
				}
				out = append(out, replaceAt(vv, path[1:], raw))
			} else {
				out = append(out, sim.DeepCopyValue(vv))
			}
		}
		return out
	}
	return v
}

func d13Template(uid, ns string) map[string]interface{} {
	att := func(name string) map[string]interface{} {
		m := map[string]interface{}{"name": name, "labels": map[string]interface{}{"l": "1"}, "annotations": map[string]interface{}{"k": "v"}}
		if ns != "" {
			m["namespace"] = ns
		}
		return map[string]interface{}{"apiVersion": "v1", "kind": "ConfigMap", "metadata": m, "data": map[string]interface{}{"value": "v1"}}
	}
	return map[string]interface{}{
		"labels":             map[string]interface{}{"added": "1", "gone": nil},
		"annotations":        map[string]interface{}{"note": "x"},
		"status":             map[string]interface{}{"phase": "ok", "conditions": []interface{}{map[string]interface{}{"type": "Ready", "status": "True"}}},
		"attachments":        []interface{}{att("a-" + uid), att("b-" + uid)},
		"resyncAfterSeconds": 0.5,
		"finalized":          false,
	}
}

func TestVerif_C13_DecoratorGrammar(t *testing.T) {
	rng := sim.Rand("C13-decorator")
	type cs struct {
		Hook, Desc, Body string
		Status           int
		Target           string
	}
	var cases []cs
	for _, target := range []string{"Thing", "NoStatus", "ClusterThing"} {
		for _, hook := range []string{"sync", "finalize"} {
			tmpl := d13Template("UID", "")
			if target == "ClusterThing" {
				// cluster-scoped target: its namespaced attachments name their namespace
				tmpl = d13Template("UID", "ans-UID")
			}
			var paths [][]string
			jsonPaths(tmpl, nil, &paths)
			for _, p := range paths {
				for _, j := range junkValues {
					b, _ := json.Marshal(replaceAt(tmpl, p, j.Raw))
					cases = append(cases, cs{hook, strings.Join(p, ".") + "=" + j.Name, string(b), 200, target})
				}
			}
			valid, _ := json.Marshal(tmpl)
			for name, b := range map[string]string{"empty": "", "nonjson": "<html>", "truncated": string(valid[:len(valid)/2]), "array": "[]", "null": "null", "number": "7",
				"dupkeys": `{"labels":{},"labels":{"a":"b"}}`, "unknown": `{"bogus":1}`, "badutf8": "{\"labels\":{\"a\":\"\xff\"}}"} {
				for _, st := range []int{200, 204, 304, 404, 429, 500} {
					cases = append(cases, cs{hook, "body:" + name, b, st, target})
				}
			}
		}
	}
	sim.R().Note("C13", fmt.Sprintf("decorator grammar size: %d cases", len(cases)))
	for i, c := range cases {
		if !sim.Thorough() && rng.Intn(3) != 0 {
			continue
		}
		i, c := i, c
		id := fmt.Sprintf("c13-decorator-%s-%s-%d", lower(c.Target), c.Hook, i)
		if !sim.WantCase(id) {
			continue
		}
		t.Run(id, func(t *testing.T) {
			t.Parallel()
			rep := sim.R()
			rep.Begin("C13", id)
			uid := uniqueID("n")
			sc := &dScenario{ID: uid, Target: c.Target, Finalize: true, Kinds: []dKind{{Kind: "ConfigMap", Method: "InPlace"}}}
			sc.Kids = []dKid{{Kind: "ConfigMap", Name: "a-" + uid, Value: "v1"}}
			r := prepareD(sc)
			defer r.close()
			w := r.w
			w.caseID = id
			s := w.sim
			s.MustCreate(sim.ConfigMapInfo.GVR(), r.asCreatedByDC(sc.Kids[0], "v1", uid))
			s.MustCreate(sim.ConfigMapInfo.GVR(), r.asCreatedByDC(dKid{Kind: "ConfigMap", Name: "stale-" + uid}, "v1", uid))
			if c.Hook == "finalize" {
				fin := "metacontroller.io/decoratorcontroller-" + uid
				s.ExtMutate(sc.targetInfo().GVR(), sc.ns(), sc.targetName(), func(o sim.Obj) { sim.SetNested(o, []interface{}{fin}, "metadata", "finalizers") })
				s.ExtDelete(sc.targetInfo().GVR(), sc.ns(), sc.targetName(), "")
			}
			body := strings.ReplaceAll(c.Body, "UID", uid)
			w.hooks.Handle(c.Hook, func(call *sim.HookCall) sim.HookResponse { return sim.HookResponse{Status: c.Status, Body: []byte(body)} })
			if err := w.start(); err != nil {
				inconclusive(t, "C13", id, err)
				return
			}
			defer w.flushCounters("C13")
			rs, rf := &recHook{inner: w.c.syncHook}, &recHook{inner: w.c.finalizeHook}
			w.c.syncHook, w.c.finalizeHook = rs, rf
			w.q.Add(r.key())
			var sr *syncResult
			for w.q.Len() > 0 && sr == nil {
				if x := w.step(); x != nil && x.Key == r.key() {
					sr = x
				}
			}
			if sr == nil {
				inconclusive(t, "C13", id, fmt.Errorf("no sync"))
				return
			}
			rejected := atomic.LoadInt32(&rs.fails)+atomic.LoadInt32(&rf.fails) > 0
			var hookEnd int64
			for _, h := range sr.Hooks {
				if h.EndSeq > hookEnd {
					hookEnd = h.EndSeq
				}
			}
			var writes []string
			for _, q := range sr.Requests {
				if q.Actor == "mc" && q.Mutating() && q.Seq > hookEnd {
					writes = append(writes, q.String())
				}
			}
			wit := map[string]interface{}{"hook": c.Hook, "desc": c.Desc, "status": c.Status, "body": body, "err": fmt.Sprint(sr.Err), "requests": sim.DescribeLog(sr.Requests, false)}
			if len(body) > 600 {
				wit["body"] = body[:600]
			}
			if rejected {
				if sr.Err == nil && sr.Panic == "" {
					rep.Violation("C13", id, "decorator:rejected-response-not-reported:"+c.Hook, "the hook call failed but the sync reported no error", wit)
				}
				if len(writes) > 0 {
					rep.Violation("C13", id, "decorator:write-on-rejected-response:"+c.Hook, fmt.Sprintf("the response was rejected, yet writes followed: %v", writes), wit)
				}
			}
			outcome := "accepted"
			if sr.Panic != "" {
				outcome = "panic"
			} else if sr.Err != nil {
				outcome = "error"
			}
			rep.Case("C13", id, len(sr.Hooks) > 0, "decorator/"+c.Target+"/"+c.Hook+"/"+c.Desc+"/"+fmt.Sprint(c.Status), map[string]interface{}{"hook": c.Hook, "desc": c.Desc, "status": c.Status, "outcome": outcome})
		})
	}
	// hooks present but no sync hook (only finalize / only customize)
	for _, variant := range []string{"finalize-only", "customize-only", "no-hooks"} {
		variant := variant
		id := "c13-decorator-config-" + variant
		t.Run(id, func(t *testing.T) {
			t.Parallel()
			rep := sim.R()
			rep.Begin("C13", id)
			uid := uniqueID("o")
			sc := &dScenario{ID: uid, Target: "Thing", Kinds: []dKind{{Kind: "ConfigMap", Method: "InPlace"}}}
			r := prepareD(sc)
			defer r.close()
			w := r.w
			w.caseID = id
			w.cfg.NoSyncHook = true
			switch variant {
			case "finalize-only":
				w.cfg.FinalizeHook = true
			case "customize-only":
				w.cfg.CustomizeHook = true
				w.hooks.HandleJSON("customize", func(req sim.Obj) sim.Obj { return sim.Obj{"relatedResources": []interface{}{}} })
			case "no-hooks":
				w.cfg.NoHooks = true
			}
			w.dc = w.cfg.decoratorController(w.hooks)
			if err := w.start(); err != nil {
				rep.Case("C13", id, true, id, map[string]interface{}{"variant": variant, "outcome": "controller refused to start: " + err.Error()})
				return
			}
			defer w.flushCounters("C13")
			w.q.Add(r.key())
			syncs, _ := w.round()
			outcome := "no sync"
			for _, sr := range syncs {
				outcome = fmt.Sprintf("err=%v panic=%v", sr.Err, sr.Panic != "")
			}
			rep.Case("C13", id, true, id, map[string]interface{}{"variant": variant, "outcome": outcome})
		})
	}
}

var _ = metav1.LabelSelector{}
var _ = v1alpha1.ChildUpdateInPlace
