//go:build verif

package decorator

import (
	"fmt"
	"sort"
	"strings"
	"testing"

	metav1 "k8s.io/apimachinery/pkg/apis/meta/v1"
	"k8s.io/apimachinery/pkg/apis/meta/v1/unstructured"
	"k8s.io/client-go/tools/cache"

	"metacontroller/pkg/apis/metacontroller/v1alpha1"
	sim "metacontroller/pkg/verifsim"
)

// C14 (decorator side) - every relevant change enqueues the decorated object; queue keys are
// usable by the controller's own sync.

type d14Cfg struct {
	Cluster      bool `json:"clusterTarget"`
	IgnoreStatus bool `json:"ignoreStatusChanges"`
	Finalize     bool `json:"finalizeHook"`
	// NsAtt: the cluster-scoped target has namespaced attachments
	NsAtt bool `json:"namespacedAttachmentOfClusterTarget,omitempty"`
}

func (c d14Cfg) id() string {
	id := fmt.Sprintf("c14-decorator-cl%v-is%v-fin%v", c.Cluster, c.IgnoreStatus, c.Finalize)
	if c.NsAtt {
		id += "-nsatt"
	}
	return id
}

func TestVerif_C14_DecoratorEvents(t *testing.T) {
	for _, cl := range []bool{false, true} {
		for _, is := range []bool{false, true} {
			for _, fin := range []bool{false, true} {
				for _, nsAtt := range []bool{false, true} {
					if nsAtt && !cl {
						continue
					}
					c := d14Cfg{cl, is, fin, nsAtt}
					if !sim.WantCase(c.id()) {
						continue
					}
					t.Run(c.id(), func(t *testing.T) {
						t.Parallel()
						runD14(t, c)
					})
				}
			}
		}
	}
}

func runD14(t *testing.T, c d14Cfg) {
	rep := sim.R()
	id := c.id()
	rep.Begin("C14", id)
	uid := uniqueID("g")
	ti := sim.ThingInfo
	ai := sim.WidgetInfo
	if c.Cluster {
		ti = sim.ClusterThingInfo
		if !c.NsAtt {
			ai = sim.ClusterWidgetInfo
		}
	}
	// a second resource rule in the same API group/version whose ignoreStatusChanges setting is the
	// opposite of the first rule's: the setting is per rule
	ti2 := sim.GadgetThingInfo
	// the first rule also has an annotation selector, the second has none (selectors are per rule,
	// whatever the order of the rules)
	targets := []sim.ResourceInfo{ti, ti2}
	if c.IgnoreStatus {
		targets = []sim.ResourceInfo{ti2, ti}
	}
	annKey := "watch-" + uid
	cfg := dworldCfg{ID: uid, Targets: targets, FinalizeHook: c.Finalize,
		RuleAnnotationSel: map[string]*v1alpha1.AnnotationSelector{ti.Resource: {MatchAnnotations: map[string]string{annKey: "yes"}}, ti2.Resource: nil}, IgnoreStatus: c.IgnoreStatus, IgnoreStatusExcept: map[string]bool{ti2.Resource: true}, CustomizeHook: true,
		LabelSel:    &metav1.LabelSelector{MatchLabels: map[string]string{"decorate": uid}},
		Attachments: []attachCfg{{Info: ai, Method: v1alpha1.ChildUpdateInPlace}}}
	w := newDWorld(cfg)
	defer w.close()
	w.caseID = id
	s := w.sim
	ns := ""
	if ti.Namespaced {
		ns = "ns-" + uid
	}
	finName := "metacontroller.io/decoratorcontroller-" + uid
	w.hooks.HandleJSON("customize", func(req sim.Obj) sim.Obj {
		p, _ := req["parent"].(map[string]interface{})
		return sim.Obj{"relatedResources": []interface{}{
			sim.Obj{"apiVersion": "v1", "resource": "secrets", "labelSelector": sim.Obj{"matchLabels": sim.Obj{"rel": sim.Name(p)}}},
		}}
	})
	mk := func(name string, selected, fin bool) sim.Obj {
		o := sim.NewObject(ti, ns, name+"-"+uid)
		if selected {
			sim.SetLabels(o, map[string]string{"decorate": uid})
			sim.SetNested(o, "yes", "metadata", "annotations", annKey)
		}
		if fin {
			sim.SetNested(o, []interface{}{finName}, "metadata", "finalizers")
		}
		o["spec"] = sim.Obj{"kids": []interface{}{}}
		return o
	}
	ta := s.MustCreate(ti.GVR(), mk("ta", true, c.Finalize))
	tn := s.MustCreate(ti.GVR(), mk("tn", false, false))
	tfo := mk("tf", false, true)
	sim.SetNested(tfo, "hold", "spec", "finalize") // its finalization does not finish during the test
	tf := s.MustCreate(ti.GVR(), tfo)
	if err := w.start(); err != nil {
		inconclusive(t, "C14", id, err)
		return
	}
	defer w.flushCounters("C14")
	for _, p := range s.PeekAll(ti.GVR()) {
		w.q.Add(parentKey(p))
	}
	for i := 0; i < 6; i++ {
		if _, ok := w.round(); !ok {
			inconclusive(t, "C14", id, w.watchdog)
			return
		}
	}
	w.env.Track("v1", "secrets")
	ta = s.Peek(ti.GVR(), ns, sim.Name(ta))
	tf = s.Peek(ti.GVR(), ns, sim.Name(tf))
	ka, kf := parentKey(ta), parentKey(tf)
	wantF := []string{}
	if sim.HasFinalizer(tf, finName) {
		wantF = []string{kf}
	}
	none := []string{}
	nev, okev := 0, 0
	expect := func(event string, want []string, action func()) {
		if !w.quiesce() {
			return
		}
		for w.q.Len() > 0 {
			k, _ := w.q.Get()
			w.q.Forget(k)
			w.q.Done(k)
		}
		mark := w.q.Mark()
		action()
		if !w.quiesce() {
			return
		}
		got := w.q.AddedSince(mark)
		var gotKeys []string
		for k := range got {
			gotKeys = append(gotKeys, k)
		}
		sort.Strings(gotKeys)
		sort.Strings(want)
		nev++
		if strings.Join(gotKeys, ",") != strings.Join(want, ",") {
			kind := "extra"
			for _, k := range want {
				if got[k] == 0 {
					kind = "missing"
				}
			}
			rep.Violation("C14", id, "decorator:"+kind+":"+event, fmt.Sprintf("event %q: queue received %v, expected exactly %v", event, gotKeys, want), map[string]interface{}{"cfg": c, "event": event})
			return
		}
		okev++
	}
	touch := func(info sim.ResourceInfo, ns, name string) func() {
		return func() {
			s.ExtMutate(info.GVR(), ns, name, func(o sim.Obj) {
				sp, _ := o["spec"].(map[string]interface{})
				if sp == nil {
					sp = sim.Obj{}
					o["spec"] = sp
				}
				n, _ := sp["n"].(int64)
				sp["n"] = n + 1
			})
		}
	}
	// ---- decorated object events
	expect("target-update-spec(selected)", []string{ka}, touch(ti, ns, sim.Name(ta)))
	expect("target-update-spec(not selected)", none, touch(ti, ns, sim.Name(tn)))
	expect("target-update-spec(not selected,finalizer="+fmt.Sprint(len(wantF) > 0)+")", wantF, touch(ti, ns, sim.Name(tf)))
	statusOnly := func() {
		p := s.Peek(ti.GVR(), ns, sim.Name(ta))
		st, _ := p["status"].(map[string]interface{})
		if st == nil {
			st = sim.Obj{}
		}
		n, _ := st["tick"].(int64)
		st["tick"] = n + 1
		p["status"] = st
		delete(p["metadata"].(map[string]interface{}), "resourceVersion")
		s.ExtUpdateStatus(ti.GVR(), p)
	}
	// the target of the second rule (opposite setting)
	t2 := sim.NewObject(ti2, "ns2-"+uid, "t2-"+uid)
	sim.SetLabels(t2, map[string]string{"decorate": uid})
	t2["spec"] = sim.Obj{"kids": []interface{}{}}
	t2Key := parentKey(t2)
	expect("second-rule-target-add(selected)", []string{t2Key}, func() { s.MustCreate(ti2.GVR(), t2) })
	statusOnly2 := func() {
		p := s.Peek(ti2.GVR(), "ns2-"+uid, "t2-"+uid)
		p["status"] = sim.Obj{"tick": int64(1)}
		delete(p["metadata"].(map[string]interface{}), "resourceVersion")
		s.ExtUpdateStatus(ti2.GVR(), p)
	}
	if c.IgnoreStatus {
		expect("second-rule-target-update-status-only(rule without ignoreStatusChanges)", []string{t2Key}, statusOnly2)
	} else {
		expect("second-rule-target-update-status-only(rule with ignoreStatusChanges)", none, statusOnly2)
	}
	if c.IgnoreStatus {
		expect("target-update-status-only(ignoreStatusChanges)", none, statusOnly)
	} else {
		expect("target-update-status-only", []string{ka}, statusOnly)
	}
	expect("target-update-annotation", []string{ka}, func() {
		s.ExtMutate(ti.GVR(), ns, sim.Name(ta), func(o sim.Obj) { sim.SetNested(o, "1", "metadata", "annotations", "x") })
	})
	tcKey := parentKey(mk("tc", true, false))
	expect("target-add(selected)", []string{tcKey}, func() { s.MustCreate(ti.GVR(), mk("tc", true, false)) })
	// an object that fails the selectors but carries the controller's finalizer is queued whether
	// or not a finalize hook is configured (without one, the sync is what removes the leftover);
	// these events are only delivered, never processed, so the finalizer stays for all three
	tl := mk("tl", false, true)
	tlKey := parentKey(tl)
	expect("target-add(not selected,carries finalizer)", []string{tlKey}, func() { s.MustCreate(ti.GVR(), tl) })
	expect("target-update-spec(not selected,carries finalizer)", []string{tlKey}, touch(ti, ns, "tl-"+uid))
	expect("target-delete(not selected,carries finalizer)", []string{tlKey}, func() { s.ExtDelete(ti.GVR(), ns, "tl-"+uid, "") })
	expect("target-add(not selected)", none, func() { s.MustCreate(ti.GVR(), mk("tz", false, false)) })
	expect("target-delete(not selected)", none, func() { s.ExtDelete(ti.GVR(), ns, "tz-"+uid, "") })
	expect("target-relabel(label selector satisfied, annotation selector not)", none, func() {
		s.ExtMutate(ti.GVR(), ns, sim.Name(tn), func(o sim.Obj) { sim.SetLabels(o, map[string]string{"decorate": uid}) })
	})
	expect("target-annotate-to-select", []string{parentKey(tn)}, func() {
		s.ExtMutate(ti.GVR(), ns, sim.Name(tn), func(o sim.Obj) { sim.SetNested(o, "yes", "metadata", "annotations", annKey) })
	})
	expect("target-relabel-to-unselect", none, func() {
		s.ExtMutate(ti.GVR(), ns, sim.Name(tn), func(o sim.Obj) { sim.SetLabels(o, map[string]string{"decorate": "no"}) })
	})
	// ---- attachment events
	ans := ns
	if c.NsAtt {
		ans = "ans-" + uid
	}
	att := func(name string) sim.Obj {
		o := sim.NewObject(ai, ans, name+"-"+uid)
		o["spec"] = sim.Obj{"value": "x"}
		return o
	}
	expect("attachment-add(owned)", []string{ka}, func() { s.MustCreate(ai.GVR(), sim.AddOwner(att("a1"), ta, true)) })
	expect("attachment-update(owned)", []string{ka}, touch(ai, ans, "a1-"+uid))
	expect("attachment-delete(owned)", []string{ka}, func() { s.ExtDelete(ai.GVR(), ans, "a1-"+uid, "") })
	expect("attachment-add(owner not selected)", none, func() { s.MustCreate(ai.GVR(), sim.AddOwner(att("a2"), s.Peek(ti.GVR(), ns, sim.Name(tn)), true)) })
	expect("attachment-add(owner not selected,finalizer="+fmt.Sprint(len(wantF) > 0)+")", wantF, func() { s.MustCreate(ai.GVR(), sim.AddOwner(att("a3"), tf, true)) })
	expect("attachment-update(owner not selected,finalizer="+fmt.Sprint(len(wantF) > 0)+")", wantF, touch(ai, ans, "a3-"+uid))
	expect("attachment-delete(owner not selected,finalizer="+fmt.Sprint(len(wantF) > 0)+")", wantF, func() { s.ExtDelete(ai.GVR(), ans, "a3-"+uid, "") })
	// the owner reference may carry another version of the target's API group than the one the
	// decorator watches ("resolves to by kind, name and UID")
	otherVersion := sim.DeepCopy(ta)
	otherVersion["apiVersion"] = ti.Group + "/v1beta7"
	expect("attachment-add(owned,owner reference of another API version)", []string{ka}, func() { s.MustCreate(ai.GVR(), sim.AddOwner(att("a8"), otherVersion, true)) })
	expect("attachment-update(owned,owner reference of another API version)", []string{ka}, touch(ai, ans, "a8-"+uid))
	expect("attachment-delete(owned,owner reference of another API version)", []string{ka}, func() { s.ExtDelete(ai.GVR(), ans, "a8-"+uid, "") })
	wrongUID := sim.DeepCopy(ta)
	sim.SetNested(wrongUID, "other-uid", "metadata", "uid")
	expect("attachment-add(owner-right-name-wrong-uid)", none, func() { s.MustCreate(ai.GVR(), sim.AddOwner(att("a4"), wrongUID, true)) })
	wrongKind := sim.DeepCopy(ta)
	wrongKind["kind"] = "Other"
	expect("attachment-add(owner-wrong-kind)", none, func() { s.MustCreate(ai.GVR(), sim.AddOwner(att("a5"), wrongKind, true)) })
	expect("attachment-add(no owner)", none, func() { s.MustCreate(ai.GVR(), att("a6")) })
	a7 := s.MustCreate(ai.GVR(), sim.AddOwner(att("a7"), ta, true))
	a7u := &unstructured.Unstructured{Object: a7}
	expect("attachment-resync(same resourceVersion)", none, func() { w.c.onChildUpdate(a7u, a7u.DeepCopy()) })
	expect("attachment-delete-tombstone(owned)", []string{ka}, func() {
		w.c.onChildDelete(cache.DeletedFinalStateUnknown{Key: objKey(ans, "a7-"+uid), Obj: a7u})
	})
	// ---- related
	relNS := ns
	if relNS == "" {
		relNS = "rns-" + uid
	}
	sec := func(name, rel string) sim.Obj {
		o := sim.NewObject(sim.SecretInfo, relNS, name+"-"+uid)
		sim.SetLabels(o, map[string]string{"rel": rel})
		return o
	}
	expect("related-add(selected)", []string{ka}, func() { s.MustCreate(sim.SecretInfo.GVR(), sec("s1", sim.Name(ta))) })
	expect("related-add(not selected)", none, func() { s.MustCreate(sim.SecretInfo.GVR(), sec("s2", "nobody")) })
	expect("related-update(enters selection)", []string{ka}, func() {
		s.ExtMutate(sim.SecretInfo.GVR(), relNS, "s2-"+uid, func(o sim.Obj) { sim.SetLabels(o, map[string]string{"rel": sim.Name(ta)}) })
	})
	expect("related-delete(selected)", []string{ka}, func() { s.ExtDelete(sim.SecretInfo.GVR(), relNS, "s1-"+uid, "") })
	// ---- tombstones of decorated objects: key must be the controller's own key format
	taU := &unstructured.Unstructured{Object: s.Peek(ti.GVR(), ns, sim.Name(ta))}
	expect("target-delete-tombstone(selected)", []string{ka}, func() {
		w.c.enqueueParentObject(cache.DeletedFinalStateUnknown{Key: objKey(ns, sim.Name(ta)), Obj: taU})
	})
	tnU := &unstructured.Unstructured{Object: s.Peek(ti.GVR(), ns, sim.Name(tn))}
	expect("target-delete-tombstone(not selected)", none, func() {
		w.c.enqueueParentObject(cache.DeletedFinalStateUnknown{Key: objKey(ns, sim.Name(tn)), Obj: tnU})
	})
	// a real tombstone: deletion missed while the watch is down, then relist; whatever key is
	// queued must be one the worker can process without failing
	if w.quiesce() {
		for w.q.Len() > 0 {
			k, _ := w.q.Get()
			w.q.Forget(k)
			w.q.Done(k)
		}
		mark := w.q.Mark()
		s.HoldWatch(ti.GVR(), true)
		s.ExtMutate(ti.GVR(), ns, "tc-"+uid, func(o sim.Obj) { delete(o["metadata"].(map[string]interface{}), "finalizers") })
		s.ExtDelete(ti.GVR(), ns, "tc-"+uid, "")
		s.DropWatches(ti.GVR(), true)
		s.HoldWatch(ti.GVR(), false)
		if w.quiesce() {
			nev++
			added := w.q.AddedSince(mark)
			bad := false
			for k := range added {
				if _, _, _, _, err := splitParentQueueKey(k); err != nil {
					bad = true
					rep.Violation("C14", id, "decorator:unparseable-queue-key(tombstone)", fmt.Sprintf("after a missed deletion (relist tombstone) the key %q was queued, which the decorator's own sync cannot parse: %v", k, err), map[string]interface{}{"cfg": c})
				}
			}
			// and the worker must not fail on them
			for i := 0; i < 3 && w.q.Len() > 0; i++ {
				sr := w.stepWorker()
				if sr != nil && sr.Err != nil && strings.Contains(sr.Key, "tc-"+uid) {
					rep.Violation("C12", id, "decorator:poison-key(tombstone)", fmt.Sprintf("the key %q queued for a delete tombstone makes every sync fail; it is retried forever", sr.Key), map[string]interface{}{"cfg": c, "queue": sr.QueueOps})
					bad = true
					break
				}
			}
			if !bad {
				okev++
			}
		}
	}
	rep.Counter("C14", "events_delivered", int64(nev))
	rep.Counter("C14", "events_as_expected", int64(okev))
	if w.watchdog != nil {
		inconclusive(t, "C14", id, w.watchdog)
		return
	}
	rep.Case("C14", id, nev > 0, id, map[string]interface{}{"cfg": c, "events": nev, "asExpected": okev, "unselectedTargetHoldsFinalizer": len(wantF) > 0})
}
