//go:build verif

package decorator

import (
	"encoding/json"
	"fmt"
	"math/rand"
	"reflect"
	"regexp"
	"sort"
	"strings"

	metav1 "k8s.io/apimachinery/pkg/apis/meta/v1"

	"metacontroller/pkg/apis/metacontroller/v1alpha1"
	sim "metacontroller/pkg/verifsim"
)

// Decorator scenarios: a decorated object (the "target"), attachment kinds with update methods,
// initial cluster contents by role and environment edits.

type dKind struct {
	Kind   string `json:"kind"`
	Method string `json:"method"` // "<nil>", "", OnDelete, Recreate, InPlace
}

type dKid struct {
	Kind   string      `json:"kind"`
	Name   string      `json:"name"`
	Value  string      `json:"value"`
	Status interface{} `json:"status,omitempty"` // the hook's desired attachment carries this status block
}

type dInit struct {
	Role  string `json:"role"` // ours-stale ours-drift ours-foreignfield other-decorator real-controller marker-only foreign
	Kind  string `json:"kind"`
	Name  string `json:"name"`
	Value string `json:"value"`
}

type dEdit struct {
	Op    string `json:"op"` // set-value add-kid remove-kid drift foreign-field delete-attachment set-label
	Kid   int    `json:"kid"`
	Value string `json:"value"`
}

type dScenario struct {
	ID       string  `json:"id"`
	Target   string  `json:"target"` // Thing NoStatus ClusterThing
	Finalize bool    `json:"finalize"`
	Kinds    []dKind `json:"kinds"`
	Kids     []dKid  `json:"kids"`
	Initial  []dInit `json:"initial"`
	Edits    []dEdit `json:"edits"`
}

var dMethods = []string{"<nil>", "", "OnDelete", "Recreate", "InPlace"}

func dMethodUpdates(m string) bool { return m == "Recreate" || m == "InPlace" }

func kindInfo(kind string) sim.ResourceInfo {
	for _, ri := range sim.Catalog {
		if ri.Kind == kind {
			return ri
		}
	}
	panic("unknown kind " + kind)
}

func lower(s string) string { return strings.ToLower(s) }

func (sc *dScenario) targetInfo() sim.ResourceInfo { return targetInfo(sc.Target) }

func (sc *dScenario) ns() string {
	if !sc.targetInfo().Namespaced {
		return ""
	}
	return "ns-" + sc.ID
}

func (sc *dScenario) attNS(kind string) string {
	if !kindInfo(kind).Namespaced {
		return ""
	}
	if sc.ns() != "" {
		return sc.ns()
	}
	return "ans-" + sc.ID
}

func (sc *dScenario) targetName() string { return "t-" + sc.ID }

func (sc *dScenario) method(kind string) string {
	for _, k := range sc.Kinds {
		if k.Kind == kind {
			return k.Method
		}
	}
	return ""
}

func (sc *dScenario) cfg() dworldCfg {
	cfg := dworldCfg{ID: sc.ID, Targets: []sim.ResourceInfo{sc.targetInfo()}, FinalizeHook: sc.Finalize,
		LabelSel: &metav1.LabelSelector{MatchLabels: map[string]string{"decorate": sc.ID}}}
	for _, k := range sc.Kinds {
		a := attachCfg{Info: kindInfo(k.Kind)}
		if k.Method == "<nil>" {
			a.NoStrategy = true
		} else {
			a.Method = v1alpha1.ChildUpdateMethod(k.Method)
		}
		cfg.Attachments = append(cfg.Attachments, a)
	}
	return cfg
}

type dRun struct {
	sc     *dScenario
	w      *dworld
	kids   []dKid
	target sim.Obj
	syncs  []*syncResult
}

func (r *dRun) kidSpecs() []interface{} {
	ks := []interface{}{} // (never a typed nil: the store would hold JSON null behind a value that prints as [])
	for _, k := range r.kids {
		ns := ""
		if r.sc.ns() == "" {
			ns = r.sc.attNS(k.Kind) // cluster-scoped target: explicit namespace
		}
		ko := sim.KidSpec(kindInfo(k.Kind), ns, k.Name, k.Value)
		if k.Status != nil {
			ko["status"] = sim.DeepCopyValue(k.Status)
		}
		ks = append(ks, ko)
	}
	return ks
}

func (r *dRun) targetObject() sim.Obj {
	sc := r.sc
	t := sim.NewObject(sc.targetInfo(), sc.ns(), sc.targetName())
	sim.SetLabels(t, map[string]string{"decorate": sc.ID})
	spec := sim.Obj{"kids": r.kidSpecs(), "template": sim.Obj{"rev": "r1"}, "extra": "e1"}
	if sc.Finalize {
		spec["finalize"] = "step"
	}
	if len(r.kids)%2 == 0 {
		// the hook asks to be called again later (resyncAfterSeconds); parked by the recording queue
		spec["resyncAfter"] = int64(30 + len(r.kids))
	}
	t["spec"] = spec
	return t
}

func prepareD(sc *dScenario) *dRun {
	w := newDWorld(sc.cfg())
	r := &dRun{sc: sc, w: w, kids: append([]dKid(nil), sc.Kids...)}
	r.target = w.sim.MustCreate(sc.targetInfo().GVR(), r.targetObject())
	for _, io := range sc.Initial {
		r.createInitial(io)
	}
	return r
}

func (r *dRun) desired(k dKid, value string) sim.Obj {
	kid := sim.KidSpec(kindInfo(k.Kind), r.sc.attNS(k.Kind), k.Name, value)
	if k.Status != nil {
		kid["status"] = sim.DeepCopyValue(k.Status)
	}
	return sim.BuildChild(kid, nil, "r1", "e1")
}

// asCreatedByDC renders an attachment the way the decorator would have created it.
func (r *dRun) asCreatedByDC(k dKid, value, marker string) sim.Obj {
	d := r.desired(k, value)
	dann := sim.Annotations(d) // (the hook's own annotations stay)
	dann[sim.DecoratorAnnotation] = marker
	sim.SetAnnotations(d, dann)
	obj := sim.DeepCopy(d)
	data, _ := json.Marshal(d)
	ann := sim.Annotations(obj)
	ann["metacontroller.k8s.io/last-applied-configuration"] = string(data)
	sim.SetAnnotations(obj, ann)
	delete(obj, "status") // a status block in the desired attachment never reaches the stored object
	sim.AddOwner(obj, r.target, true)
	return obj
}

func (r *dRun) createInitial(io dInit) {
	s := r.w.sim
	ri := kindInfo(io.Kind)
	k := dKid{Kind: io.Kind, Name: io.Name, Value: io.Value}
	field := "spec"
	if io.Kind == "ConfigMap" {
		field = "data"
	}
	var obj sim.Obj
	switch io.Role {
	case "ours-stale":
		obj = r.asCreatedByDC(k, io.Value, r.sc.ID)
	case "ours-drift":
		obj = r.asCreatedByDC(k, io.Value, r.sc.ID)
		sim.SetNested(obj, "drifted", field, "value")
		if io.Kind != "ConfigMap" {
			// a list the hook specifies drifted as well (items of this list are identified by "port")
			sim.SetNested(obj, []interface{}{sim.Obj{"name": "injected", "port": int64(9)}, sim.Obj{"name": "renamed", "port": int64(80)}}, "spec", "ports")
		}
	case "ours-foreignfield":
		obj = r.asCreatedByDC(k, io.Value, r.sc.ID)
		sim.SetNested(obj, "keep-me", field, "foreign")
	case "other-decorator":
		obj = r.asCreatedByDC(k, io.Value, "another-decorator")
	case "real-controller":
		obj = r.desired(k, io.Value)
		sim.AddOwner(obj, r.target, true)
	case "marker-only":
		obj = r.desired(k, io.Value)
		mann := sim.Annotations(obj)
		mann[sim.DecoratorAnnotation] = r.sc.ID
		sim.SetAnnotations(obj, mann)
	case "foreign":
		obj = r.desired(k, io.Value)
		sim.AddOwner(obj, sim.Obj{"apiVersion": "apps/v1", "kind": "ReplicaSet", "metadata": sim.Obj{"name": "rs", "uid": "rs-" + r.sc.ID}}, true)
	case "sibling-target-plain-ref":
		// an attachment of ANOTHER target of the same decorator (marker and all) which lists this
		// target as a plain, non-controller owner
		obj = r.asCreatedByDC(k, io.Value, r.sc.ID)
		delete(obj["metadata"].(map[string]interface{}), "ownerReferences")
		ti := r.sc.targetInfo()
		sim.AddOwner(obj, sim.Obj{"apiVersion": ti.APIVersion(), "kind": ti.Kind, "metadata": sim.Obj{"name": "sibling-" + r.sc.ID, "uid": "sibling-uid-" + r.sc.ID}}, true)
		sim.AddOwner(obj, r.target, false)
	}
	s.MustCreate(ri.GVR(), obj)
}

func genDScenario(rng *rand.Rand, id string) *dScenario {
	sc := &dScenario{ID: id, Target: []string{"Thing", "Thing", "NoStatus", "ClusterThing"}[rng.Intn(4)], Finalize: rng.Intn(3) == 0}
	pool := []string{"ConfigMap", "Widget", "Pod"}
	if sc.Target == "ClusterThing" {
		pool = []string{"ClusterWidget", "ConfigMap", "Widget"}
	}
	rng.Shuffle(len(pool), func(i, j int) { pool[i], pool[j] = pool[j], pool[i] })
	for _, kind := range pool[:1+rng.Intn(2)] {
		sc.Kinds = append(sc.Kinds, dKind{Kind: kind, Method: dMethods[rng.Intn(len(dMethods))]})
	}
	values := []string{"v1", "v2", "v3"}
	for _, k := range sc.Kinds {
		for i := 0; i < 1+rng.Intn(3); i++ {
			kc := dKid{Kind: k.Kind, Name: fmt.Sprintf("%s-%s-%d", lower(k.Kind), id, i), Value: values[rng.Intn(3)]}
			switch h := sim.Hash(fmt.Sprintf("%s-%d-status-", lower(k.Kind), i) + strings.TrimRight(id, "abcdefghijklmnopqrstuvwxyz")); {
			case h[0] == '0':
				kc.Status = map[string]interface{}{}
			case h[0] == '1':
				kc.Status = map[string]interface{}{"phase": "Wanted"}
			}
			sc.Kids = append(sc.Kids, kc)
		}
	}
	for _, role := range []string{"ours-stale", "ours-drift", "ours-foreignfield", "other-decorator", "real-controller", "marker-only", "foreign", "sibling-target-plain-ref"} {
		if rng.Intn(3) != 0 {
			continue
		}
		k := sc.Kinds[rng.Intn(len(sc.Kinds))]
		io := dInit{Role: role, Kind: k.Kind, Value: values[rng.Intn(3)], Name: fmt.Sprintf("x-%s-%s-%s", role, lower(k.Kind), id)}
		if role == "ours-drift" || role == "ours-foreignfield" {
			var cands []dKid
			for _, kd := range sc.Kids {
				if kd.Kind == k.Kind {
					cands = append(cands, kd)
				}
			}
			kd := cands[rng.Intn(len(cands))]
			taken := false
			for _, p := range sc.Initial {
				if p.Name == kd.Name {
					taken = true
				}
			}
			if taken {
				continue
			}
			io.Name = kd.Name
		}
		sc.Initial = append(sc.Initial, io)
	}
	ops := []string{"set-value", "add-kid", "remove-kid", "drift", "foreign-field", "delete-attachment", "set-label"}
	for i := 0; i < rng.Intn(4); i++ {
		sc.Edits = append(sc.Edits, dEdit{Op: ops[rng.Intn(len(ops))], Kid: rng.Intn(8), Value: fmt.Sprintf("w%d", i)})
	}
	return sc
}

func (sc *dScenario) shapeKey() string {
	var kinds, inits, edits []string
	for _, k := range sc.Kinds {
		kinds = append(kinds, k.Kind+":"+k.Method)
	}
	for _, i := range sc.Initial {
		inits = append(inits, i.Role+":"+i.Kind)
	}
	for _, e := range sc.Edits {
		edits = append(edits, e.Op)
	}
	sort.Strings(inits)
	return fmt.Sprintf("decorator t=%s fin=%v kinds=%v nkids=%d init=%v edits=%v", sc.Target, sc.Finalize, kinds, len(sc.Kids), inits, edits)
}

func (r *dRun) close() { r.w.close() }

func (r *dRun) key() string { return parentKey(r.target) }

func (r *dRun) converge() (int, bool, bool) {
	bound := 3*(len(r.sc.Initial)+len(r.kids)+len(r.sc.Kids)) + 12
	for round := 1; round <= bound; round++ {
		syncs, ok := r.w.round()
		if !ok {
			return round, false, false
		}
		r.syncs = append(r.syncs, syncs...)
		if len(syncs) == 0 {
			if !r.w.quiesce() {
				return round, false, false
			}
			if r.w.q.Len() == 0 {
				return round, true, true
			}
		}
	}
	return bound, false, true
}

func (r *dRun) liveTarget() sim.Obj {
	return r.w.sim.Peek(r.sc.targetInfo().GVR(), r.sc.ns(), r.sc.targetName())
}

// ours returns kind|key -> attachment for everything this decorator owns on the target.
func (r *dRun) ours() map[string]sim.Obj {
	out := map[string]sim.Obj{}
	for _, k := range r.sc.Kinds {
		ri := kindInfo(k.Kind)
		for _, o := range r.w.sim.PeekAll(ri.GVR()) {
			c := sim.ControllerOf(o)
			if c == nil || c.UID != sim.UID(r.target) || sim.Annotations(o)[sim.DecoratorAnnotation] != r.sc.ID {
				continue
			}
			out[k.Kind+"|"+sim.Key(o)] = o
		}
	}
	return out
}

func (r *dRun) hookView() sim.Obj {
	view := sim.Obj{}
	for _, k := range r.sc.Kinds {
		ri := kindInfo(k.Kind)
		g := sim.Obj{}
		for key, o := range r.ours() {
			if !strings.HasPrefix(key, k.Kind+"|") {
				continue
			}
			if r.sc.ns() != "" && sim.NS(o) != r.sc.ns() {
				continue
			}
			name := sim.Name(o)
			if r.sc.ns() == "" && ri.Namespaced {
				name = sim.NS(o) + "/" + name
			}
			g[name] = o
		}
		view[sim.HookKey(ri)] = g
	}
	return view
}

func (r *dRun) applyEdit(e dEdit) bool {
	s := r.w.sim
	tgvr := r.sc.targetInfo().GVR()
	updateTarget := func() bool {
		_, err := s.ExtMutate(tgvr, r.sc.ns(), r.sc.targetName(), func(o sim.Obj) { sim.SetNested(o, r.kidSpecs(), "spec", "kids") })
		return err == nil
	}
	switch e.Op {
	case "set-value":
		if len(r.kids) == 0 {
			return false
		}
		r.kids[e.Kid%len(r.kids)].Value = e.Value
		return updateTarget()
	case "add-kid":
		k := r.sc.Kinds[e.Kid%len(r.sc.Kinds)]
		r.kids = append(r.kids, dKid{Kind: k.Kind, Name: fmt.Sprintf("%s-%s-n%s", lower(k.Kind), r.sc.ID, e.Value), Value: e.Value})
		return updateTarget()
	case "remove-kid":
		if len(r.kids) <= 1 {
			return false
		}
		i := e.Kid % len(r.kids)
		r.kids = append(r.kids[:i:i], r.kids[i+1:]...)
		return updateTarget()
	case "set-label":
		_, err := s.ExtMutate(tgvr, r.sc.ns(), r.sc.targetName(), func(o sim.Obj) { sim.SetNested(o, e.Value, "metadata", "labels", "extra") })
		return err == nil
	case "drift", "foreign-field", "delete-attachment":
		ours := r.ours()
		var keys []string
		for k := range ours {
			keys = append(keys, k)
		}
		sort.Strings(keys)
		if len(keys) == 0 {
			return false
		}
		o := ours[keys[e.Kid%len(keys)]]
		ri := kindInfo(o["kind"].(string))
		field := "spec"
		if ri.Kind == "ConfigMap" {
			field = "data"
		}
		switch e.Op {
		case "drift":
			// every second drift is a metadata-only one (it moves resourceVersion, not generation)
			if e.Kid%2 == 1 {
				_, err := s.ExtMutate(ri.GVR(), sim.NS(o), sim.Name(o), func(o sim.Obj) { sim.SetNested(o, "tampered-"+e.Value, "metadata", "annotations", "hook-note") })
				return err == nil
			}
			_, err := s.ExtMutate(ri.GVR(), sim.NS(o), sim.Name(o), func(o sim.Obj) { sim.SetNested(o, "drift-"+e.Value, field, "value") })
			return err == nil
		case "foreign-field":
			_, err := s.ExtMutate(ri.GVR(), sim.NS(o), sim.Name(o), func(o sim.Obj) { sim.SetNested(o, "f-"+e.Value, field, "foreign") })
			return err == nil
		default:
			return s.ExtDelete(ri.GVR(), sim.NS(o), sim.Name(o), "") == nil
		}
	}
	return false
}

// checkFixedPoint: attachments this decorator owns == the hook's desired attachments; specified
// leaves applied for kinds whose method permits updates.
func (r *dRun) checkFixedPoint(phase int, viol func(sig, detail string)) {
	t := r.liveTarget()
	if t == nil {
		return
	}
	resp := DecorProgram(sim.Obj{"object": t, "attachments": r.hookView(), "finalizing": false})
	desired := map[string]sim.Obj{}
	for _, c := range resp["attachments"].([]interface{}) {
		co := c.(map[string]interface{})
		kind := co["kind"].(string)
		ns := sim.NS(co)
		if kindInfo(kind).Namespaced && ns == "" {
			ns = r.sc.ns()
		}
		desired[kind+"|"+objKey(ns, sim.Name(co))] = co
	}
	have := r.ours()
	var missing, extra []string
	for k := range desired {
		if have[k] == nil {
			missing = append(missing, k)
		}
	}
	for k := range have {
		if desired[k] == nil {
			extra = append(extra, k)
		}
	}
	sort.Strings(missing)
	sort.Strings(extra)
	if len(missing) > 0 || len(extra) > 0 {
		viol("owned-set-differs:decorator", fmt.Sprintf("phase %d: at the fixed point the attachments the decorator owns are not the hook's desired ones: missing=%v extra=%v", phase, missing, extra))
		return
	}
	for k, d := range desired {
		kind := d["kind"].(string)
		if !dMethodUpdates(r.sc.method(kind)) {
			continue
		}
		for path, want := range sim.SpecifiedLeaves(d) {
			got, ok := sim.LeafValue(have[k], path)
			if !ok || !reflect.DeepEqual(got, want) {
				viol("field-not-applied:decorator:"+kind, fmt.Sprintf("phase %d: at the fixed point %s field %s is %v (present=%v), the hook specified %v (method %q)", phase, k, path, got, ok, want, r.sc.method(kind)))
				return
			}
		}
	}
}

var (
	reHex    = regexp.MustCompile(`[0-9a-f]{16,}`)
	reQuoted = regexp.MustCompile(`"[^"]*"`)
	reNum    = regexp.MustCompile(`[0-9]+`)
)

func normalizeErr(id, msg string) string {
	msg = strings.ReplaceAll(msg, id, "ID")
	msg = reHex.ReplaceAllString(msg, "HASH")
	msg = reQuoted.ReplaceAllString(msg, "Q")
	msg = reNum.ReplaceAllString(msg, "N")
	if len(msg) > 220 {
		msg = msg[:220]
	}
	return msg
}

func lastSyncLogs(syncs []*syncResult, n int) []interface{} {
	if len(syncs) > n {
		syncs = syncs[len(syncs)-n:]
	}
	var out []interface{}
	for _, s := range syncs {
		e := ""
		if s.Err != nil {
			e = s.Err.Error()
		}
		out = append(out, map[string]interface{}{"sync": s.Tag, "err": e, "requests": sim.DescribeLog(s.Requests, false), "hooks": describeHooks(s.Hooks)})
	}
	return out
}
