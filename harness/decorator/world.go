//go:build verif

package decorator

import (
	"fmt"
	"sort"
	"strings"
	"sync/atomic"
	"testing"
	"time"

	metav1 "k8s.io/apimachinery/pkg/apis/meta/v1"
	"k8s.io/apimachinery/pkg/apis/meta/v1/unstructured"
	"k8s.io/apimachinery/pkg/runtime/schema"

	"metacontroller/pkg/apis/metacontroller/v1alpha1"
	"metacontroller/pkg/controller/common"
	"metacontroller/pkg/logging"
	env "metacontroller/pkg/verifenv"
	sim "metacontroller/pkg/verifsim"
)

// dworld: one scenario around a real decoratorController driven in stepped mode (numWorkers = 0:
// Start() wires the real handlers, the harness plays the worker).

type attachCfg struct {
	Info       sim.ResourceInfo
	Method     v1alpha1.ChildUpdateMethod
	NoStrategy bool
}

type dworldCfg struct {
	ID            string
	Targets       []sim.ResourceInfo
	LabelSel      *metav1.LabelSelector
	AnnotationSel *v1alpha1.AnnotationSelector
	Attachments   []attachCfg
	FinalizeHook  bool
	CustomizeHook bool
	NoSyncHook    bool
	NoHooks       bool
	IgnoreStatus  bool
	// IgnoreStatusExcept: targets (by resource name) whose rule gets the opposite of IgnoreStatus
	IgnoreStatusExcept map[string]bool
	// RuleAnnotationSel: per target resource, the annotation selector of its rule (overrides AnnotationSel;
	// a nil entry = that rule has none)
	RuleAnnotationSel map[string]*v1alpha1.AnnotationSelector
}

type dworld struct {
	cfg   dworldCfg
	sim   *sim.Server
	hooks *sim.HookSite
	env   *env.Env
	c     *decoratorController
	q     *sim.RecQueue
	dc    *v1alpha1.DecoratorController

	syncN      int
	watchdog   error
	ownCounts  map[string]int
	cacheObjs  int64
	syncs      int64
	noMonitors bool
	// noViewMonitor: the test makes the attachment cache stale on purpose
	noViewMonitor bool
	viewsJudged   int
	caseID     string
	// requests judged by the always-on monitors M-TARGET and M-STRATEGY
	targetJudged, strategyJudged int
}

var dworldSeq int64

func uniqueID(prefix string) string {
	return fmt.Sprintf("%sq%dq", prefix, atomic.AddInt64(&dworldSeq, 1))
}

func (w *dworld) reportID() string {
	if w.caseID != "" {
		return w.caseID
	}
	return w.cfg.ID
}

func (c dworldCfg) decoratorController(h *sim.HookSite) *v1alpha1.DecoratorController {
	dc := &v1alpha1.DecoratorController{
		TypeMeta:   metav1.TypeMeta{APIVersion: "metacontroller.k8s.io/v1alpha1", Kind: "DecoratorController"},
		ObjectMeta: metav1.ObjectMeta{Name: c.ID, UID: "dc-uid"},
	}
	for _, t := range c.Targets {
		rule := v1alpha1.DecoratorControllerResourceRule{}
		rule.APIVersion = t.APIVersion()
		rule.Resource = t.Resource
		rule.LabelSelector = c.LabelSel
		rule.AnnotationSelector = c.AnnotationSel
		if as, ok := c.RuleAnnotationSel[t.Resource]; ok {
			rule.AnnotationSelector = as
		}
		if c.IgnoreStatus != c.IgnoreStatusExcept[t.Resource] {
			tr := true
			rule.IgnoreStatusChanges = &tr
		}
		dc.Spec.Resources = append(dc.Spec.Resources, rule)
	}
	for _, a := range c.Attachments {
		rule := v1alpha1.DecoratorControllerAttachmentRule{}
		rule.APIVersion = a.Info.APIVersion()
		rule.Resource = a.Info.Resource
		if !a.NoStrategy {
			rule.UpdateStrategy = &v1alpha1.DecoratorControllerAttachmentUpdateStrategy{Method: a.Method}
		}
		dc.Spec.Attachments = append(dc.Spec.Attachments, rule)
	}
	hk := func(path string) *v1alpha1.Hook {
		u := h.URL(path)
		return &v1alpha1.Hook{Webhook: &v1alpha1.Webhook{URL: &u}}
	}
	if !c.NoHooks {
		dc.Spec.Hooks = &v1alpha1.DecoratorControllerHooks{}
		if !c.NoSyncHook {
			dc.Spec.Hooks.Sync = hk("sync")
		}
		if c.FinalizeHook {
			dc.Spec.Hooks.Finalize = hk("finalize")
		}
		if c.CustomizeHook {
			dc.Spec.Hooks.Customize = hk("customize")
		}
	}
	return dc
}

func newDWorld(cfg dworldCfg) *dworld {
	s := sim.NewCluster()
	w := &dworld{cfg: cfg, sim: s, ownCounts: map[string]int{}}
	w.hooks = sim.NewHookSite(s.Clock(), s.Tag)
	w.hooks.HandleJSON("sync", DecorProgram)
	w.hooks.HandleJSON("finalize", DecorProgram)
	w.hooks.SetObserver(func(call *sim.HookCall) {
		if !w.noMonitors && !w.noViewMonitor {
			w.observeHookCall(call)
		}
	})
	w.dc = cfg.decoratorController(w.hooks)
	return w
}

// DecorProgram: attachments as in the generic program; labels / annotations / status taken from
// the object's spec: spec.setLabels, spec.setAnnotations (null values delete), spec.decorStatus
// (absent = status left alone: null).
func DecorProgram(req sim.Obj) sim.Obj {
	resp := sim.DecoratorProgram(req)
	obj, _ := req["object"].(map[string]interface{})
	spec, _ := obj["spec"].(map[string]interface{})
	delete(resp, "status")
	if st, ok := spec["decorStatus"]; ok {
		resp["status"] = sim.DeepCopyValue(st)
	}
	if l, ok := spec["setLabels"].(map[string]interface{}); ok {
		resp["labels"] = sim.DeepCopy(l)
	}
	if a, ok := spec["setAnnotations"].(map[string]interface{}); ok {
		resp["annotations"] = sim.DeepCopy(a)
	}
	return resp
}

func (w *dworld) start() error {
	e, err := env.New(w.sim, false)
	if err != nil {
		return err
	}
	w.env = e
	c, err := newDecoratorController(e.Resources, e.DynClient, e.DynInformers, env.NopRecorder{}, w.dc, 0, logging.Logger)
	if err != nil {
		e.Close()
		w.env = nil
		return err
	}
	c.queue.ShutDown()
	w.q = sim.NewRecQueue()
	c.queue = w.q
	w.c = c
	for _, t := range w.cfg.Targets {
		if err := e.Track(t.APIVersion(), t.Resource); err != nil {
			return err
		}
	}
	for _, a := range w.cfg.Attachments {
		if err := e.Track(a.Info.APIVersion(), a.Info.Resource); err != nil {
			return err
		}
	}
	c.Start()
	// numWorkers == 0: the start goroutine ends once the caches have synced. (Should it not end - a
	// Start that parks until the stop - the stepped harness needs only the synced caches, which
	// every test waits for through quiesce() anyway.)
	select {
	case <-c.doneCh:
	case <-time.After(2 * time.Second):
	}
	return nil
}

func (w *dworld) stop() {
	if w.c != nil {
		w.c.Stop()
		w.c = nil
	}
	if w.env != nil {
		w.env.Close()
		w.env = nil
	}
}

func (w *dworld) close() {
	w.stop()
	w.hooks.Close()
}

func (w *dworld) restart() error {
	w.stop()
	w.sim.Cut(false)
	w.sim.SetFault(nil)
	w.sim.SetGate(nil)
	return w.start()
}

func (w *dworld) quiesce() bool {
	if w.env == nil {
		return false
	}
	if err := w.env.Quiesce(); err != nil {
		w.watchdog = err
		return false
	}
	return true
}

type syncResult struct {
	N        int
	Key      string
	Tag      string
	Err      error
	Panic    string
	Requests []*sim.Request
	Hooks    []*sim.HookCall
	QueueOps []sim.QueueOp
	Cached   *unstructured.Unstructured
}

func (r *syncResult) mcMutations() []*sim.Request {
	var out []*sim.Request
	for _, q := range r.Requests {
		if q.Actor == "mc" && q.Mutating() {
			out = append(out, q)
		}
	}
	return out
}

// parentKey renders the decorator's queue key for an object.
func parentKey(o sim.Obj) string {
	return fmt.Sprintf("%s:%s:%s:%s", o["apiVersion"], o["kind"], sim.NS(o), sim.Name(o))
}

func (w *dworld) cachedParent(key string) *unstructured.Unstructured {
	apiVersion, kind, namespace, name, err := splitParentQueueKey(key)
	if err != nil {
		return nil
	}
	ri, ok := sim.InfoByKind(apiVersion, kind)
	if !ok {
		return nil
	}
	gv, _ := schema.ParseGroupVersion(apiVersion)
	inf := w.c.parentInformers.Get(gv.WithResource(ri.Resource))
	if inf == nil {
		return nil
	}
	p, err := common.GetObject(inf, namespace, name)
	if err != nil {
		return nil
	}
	return p.DeepCopy()
}

func (w *dworld) syncKey(key string) *syncResult {
	return w.observe(key, func() error { return w.c.sync(key) })
}

func (w *dworld) stepWorker() *syncResult {
	if w.q.Len() == 0 {
		return nil
	}
	n := w.syncN + 1
	w.sim.SetTagFunc(func() string { return fmt.Sprintf("sync%d:%s", n, w.q.Current()) })
	res := w.observe("", func() error {
		w.c.processNextWorkItem()
		return nil
	})
	w.sim.SetTagFunc(nil)
	res.Key = w.q.Current()
	res.Tag = fmt.Sprintf("sync%d:%s", n, res.Key)
	for _, op := range res.QueueOps {
		if op.Op == "AddRateLimited" && op.Key == res.Key {
			res.Err = fmt.Errorf("sync failed (key was re-queued rate-limited by the worker)")
		}
	}
	return res
}

func (w *dworld) observe(key string, run func() error) *syncResult {
	w.syncN++
	res := &syncResult{N: w.syncN, Key: key, Tag: fmt.Sprintf("sync%d:%s", w.syncN, key)}
	var before map[string]env.Fingerprint
	if !w.noMonitors {
		before = w.env.SnapshotCaches()
	}
	mark, hmark, qmark := w.sim.Mark(), w.hooks.Mark(), w.q.Mark()
	if key != "" {
		w.sim.SetTag(res.Tag)
		res.Cached = w.cachedParent(key)
	}
	stack, panicked := sim.Guard(func() { res.Err = run() })
	w.sim.SetTag("")
	if key == "" {
		key = w.q.Current()
		res.Key = key
		res.Cached = w.cachedParent(key)
	}
	res.Requests = w.sim.Since(mark)
	res.Hooks = w.hooks.Since(hmark)
	if panicked {
		res.Panic = stack
		res.Err = fmt.Errorf("panic: %s", strings.SplitN(stack, "\n", 2)[0])
		sim.R().Violation("C13", w.reportID(), "panic:"+sim.PanicSite(stack), "decorator sync panicked (a worker panic terminates the whole process): "+stack,
			map[string]interface{}{"key": key, "hooks": describeHooks(res.Hooks), "requests": sim.DescribeLog(res.Requests, false)})
	}
	res.QueueOps = w.q.Since(qmark)
	atomic.AddInt64(&w.syncs, 1)
	if !w.noMonitors {
		after := w.env.SnapshotCaches()
		atomic.AddInt64(&w.cacheObjs, int64(len(before)))
		for _, d := range env.CompareCaches(before, after) {
			rs := strings.SplitN(d, "|", 2)[0]
			sim.R().Violation("C17", w.reportID(), "cache-mutated:"+rs, "an object in a shared informer cache changed during a decorator sync although its resourceVersion did not (mutated in place):\n"+d,
				map[string]interface{}{"key": key})
		}
		w.judgeTargetWrites(res)
		w.judgeStrategy(res)
		if res.Cached != nil {
			ri, _ := sim.InfoByKind(res.Cached.GetAPIVersion(), res.Cached.GetKind())
			ctx := sim.OwnCtx{ParentGVR: ri.GVR(), ParentKey: objKey(res.Cached.GetNamespace(), res.Cached.GetName()), ParentUID: string(res.Cached.GetUID()), DecoratorMarker: w.cfg.ID, RevisionGVR: env.RevisionGVR}
			for _, f := range sim.JudgeOwnership(ctx, res.Requests, w.ownCounts) {
				sim.R().Violation("C02", w.reportID(), "decorator:"+f.Sig, f.Detail, map[string]interface{}{"sync": res.Tag, "log": sim.DescribeLog(res.Requests, false)})
			}
		}
	}
	return res
}

func objKey(ns, name string) string {
	if ns == "" {
		return name
	}
	return ns + "/" + name
}

func describeHooks(calls []*sim.HookCall) []string {
	var out []string
	for _, c := range calls {
		body := string(c.RespRaw)
		if len(body) > 400 {
			body = body[:400] + "..."
		}
		out = append(out, fmt.Sprintf("#%d %s -> %d %s %s", c.Seq, c.Path, c.Status, body, c.Err))
	}
	return out
}

func (w *dworld) step() *syncResult {
	if w.q.Len() == 0 {
		return nil
	}
	item, shutdown := w.q.Get()
	if shutdown {
		return nil
	}
	key := item.(string)
	res := w.syncKey(key)
	if res.Err != nil {
		w.q.AddRateLimited(key)
	} else {
		w.q.Forget(key)
	}
	w.q.Done(key)
	return res
}

func (w *dworld) round() ([]*syncResult, bool) {
	if !w.quiesce() {
		return nil, false
	}
	n := w.q.Len()
	var out []*syncResult
	for i := 0; i < n; i++ {
		r := w.step()
		if r == nil {
			break
		}
		out = append(out, r)
		if !w.quiesce() {
			return out, false
		}
	}
	return out, true
}

func (w *dworld) flushCounters(prop string) {
	r := sim.R()
	r.Counter("C17", "syncs_fingerprinted", atomic.LoadInt64(&w.syncs))
	r.Counter("C17", "cached_objects_fingerprinted", atomic.LoadInt64(&w.cacheObjs))
	var keys []string
	for k := range w.ownCounts {
		keys = append(keys, k)
	}
	sort.Strings(keys)
	for _, k := range keys {
		r.Counter("C02", "judged_decorator_"+k, int64(w.ownCounts[k]))
	}
	r.Counter(prop, "decorator_syncs", atomic.LoadInt64(&w.syncs))
	r.Counter("C16", "target_writes_judged_by_mtarget", int64(w.targetJudged))
	r.Counter("C03", "decorator_hook_requests_judged_by_mview", int64(w.viewsJudged))
	r.Counter("C06", "decorator_attachment_requests_judged_by_mstrategy", int64(w.strategyJudged))
	if !w.noMonitors {
		// every scenario is also a C17 case: its syncs ran under the cache-fingerprint oracle
		r.Case("C17", "mcache-"+w.reportID(), atomic.LoadInt64(&w.cacheObjs) > 0, "mcache/"+w.reportID(), nil)
	}
}

func inconclusive(t *testing.T, prop, id string, err error) {
	sim.R().Inconclusive(prop, id, fmt.Sprint(err))
	t.Logf("INCONCLUSIVE %s %s: %v", prop, id, err)
}
