//go:build verif

package decorator

import (
	"fmt"
	"reflect"
	"sort"
	"strings"
	"sync/atomic"
	"testing"
	"time"

	sim "metacontroller/pkg/verifsim"
)

// C12 (decorator side): every request / hook-call position of a decorator scenario x every hard
// fault kind, plus truthful benign races on attachment requests; the real worker code does the
// queue bookkeeping.

type d12Fault struct {
	Target string `json:"target"` // api | hook
	Pos    int    `json:"pos"`
	Kind   string `json:"kind"`
}

var d12APIFaults = []string{"500", "422", "410", "404-on-create", "409conflict-on-create", "504-before", "504-after", "transport-before", "transport-after"}
var d12HookFaults = []string{"500", "503", "refused", "garbage", "429"}
var d12Races = []string{"race-delete", "race-create", "race-edit"}

type d12Ref struct {
	apiOps, hookOps int
	final           map[string]interface{}
	perSync         []map[string]bool
}

func d12Build(id string, variant string) *dRun {
	fin := variant == "fintrue"
	uid := uniqueID("k")
	sc := &dScenario{ID: uid, Target: "Thing", Finalize: fin, Kinds: []dKind{{Kind: "ConfigMap", Method: "InPlace"}, {Kind: "Widget", Method: "Recreate"}}}
	sc.Kids = []dKid{{Kind: "ConfigMap", Name: "upd-" + uid, Value: "v1"}, {Kind: "ConfigMap", Name: "new-" + uid, Value: "v1"}, {Kind: "Widget", Name: "w-" + uid, Value: "v1"}, {Kind: "Widget", Name: "wnew-" + uid, Value: "v1"}}
	r := prepareD(sc)
	r.w.caseID = id
	s := r.w.sim
	s.MustCreate(sim.ConfigMapInfo.GVR(), r.asCreatedByDC(sc.Kids[0], "old", uid))
	s.MustCreate(sim.ConfigMapInfo.GVR(), r.asCreatedByDC(dKid{Kind: "ConfigMap", Name: "stale-" + uid}, "v1", uid))
	s.MustCreate(sim.WidgetInfo.GVR(), r.asCreatedByDC(sc.Kids[2], "old", uid))
	s.ExtMutate(sc.targetInfo().GVR(), sc.ns(), sc.targetName(), func(o sim.Obj) {
		sim.SetNested(o, sim.Obj{"decorated": "yes"}, "spec", "setLabels")
		if variant == "labelsonly" {
			// labels and annotations are the only thing the decorator writes to its target: the
			// write that sets them is the only parent write of the sync
			sim.SetNested(o, sim.Obj{"decorated-note": "yes"}, "spec", "setAnnotations")
			return
		}
		sim.SetNested(o, sim.Obj{"phase": "Decorated"}, "spec", "decorStatus")
	})
	return r
}

func d12Normalize(r *dRun) map[string]interface{} {
	out := map[string]interface{}{}
	for k, v := range r.w.sim.Normalized() {
		if m, ok := v.(map[string]interface{}); ok {
			if ann, ok := sim.Nested(m, "metadata", "annotations"); ok {
				if am, ok := ann.(map[string]interface{}); ok {
					delete(am, "touched-by")
				}
			}
		}
		out[strings.ReplaceAll(k, r.sc.ID, "ID")] = normIDs(v, r.sc.ID)
	}
	return out
}

func d12Run(t *testing.T, variant string, f *d12Fault, ref *d12Ref) *d12Ref {
	rep := sim.R()
	fin := variant == "fintrue"
	_ = fin
	name := variant
	id := "c12-decorator-ref-" + name
	if f != nil {
		id = fmt.Sprintf("c12-decorator-%s-%s-p%d-%s", name, f.Target, f.Pos, f.Kind)
		rep.Begin("C12", id)
	}
	r := d12Build(id, variant)
	defer r.close()
	w := r.w
	s := w.sim
	if err := w.start(); err != nil {
		if f != nil {
			inconclusive(t, "C12", id, err)
		}
		return nil
	}
	if f != nil {
		defer w.flushCounters("C12")
	}
	out := &d12Ref{}
	tgvr := r.sc.targetInfo().GVR()
	base := s.OpSeq()
	var hookN, fired int32
	faultSync := ""
	benign := false
	if f != nil && f.Target == "api" {
		if strings.HasPrefix(f.Kind, "race-") {
			s.SetGate(func(ri *sim.ReqInfo) {
				if ri.OpSeq == 0 || int(ri.OpSeq-base) != f.Pos || !atomic.CompareAndSwapInt32(&fired, 0, 1) {
					return
				}
				if ri.GVR == tgvr {
					atomic.StoreInt32(&fired, 2)
					return
				}
				faultSync = ri.Tag
				switch {
				case f.Kind == "race-delete" && (ri.Verb == "update" || ri.Verb == "delete") && ri.Name != "":
					if s.ExtDelete(ri.GVR, ri.NS, ri.Name, "") == nil {
						benign = true
					}
				case f.Kind == "race-edit" && ri.Verb == "update" && ri.Name != "":
					if _, err := s.ExtMutate(ri.GVR, ri.NS, ri.Name, func(o sim.Obj) { sim.SetNested(o, "x", "metadata", "annotations", "touched-by") }); err == nil {
						benign = true
					}
				case f.Kind == "race-create" && ri.Verb == "create":
					for _, k := range r.kids {
						if kindInfo(k.Kind).GVR() == ri.GVR && s.Peek(ri.GVR, r.sc.ns(), k.Name) == nil {
							s.ExtCreate(ri.GVR, r.asCreatedByDC(k, k.Value, r.sc.ID))
							benign = true
						}
					}
				default:
					atomic.StoreInt32(&fired, 2)
				}
			})
		} else {
			s.SetFault(func(ri *sim.ReqInfo) *sim.Fault {
				if ri.OpSeq == 0 || int(ri.OpSeq-base) != f.Pos || !atomic.CompareAndSwapInt32(&fired, 0, 1) {
					return nil
				}
				faultSync = ri.Tag
				switch f.Kind {
				case "500":
					return &sim.Fault{Code: 500}
				case "422":
					return &sim.Fault{Code: 422}
				case "410":
					return &sim.Fault{Code: 410}
				case "404-on-create", "409conflict-on-create":
					// a create refused for another reason than "already exists" (namespace gone, ...)
					// is not one of the benign races
					if ri.Verb != "create" {
						atomic.StoreInt32(&fired, 2) // not applicable at this position
						return nil
					}
					if f.Kind == "404-on-create" {
						return &sim.Fault{Code: 404, Reason: "NotFound"}
					}
					return &sim.Fault{Code: 409, Reason: "Conflict"}
				case "504-before":
					return &sim.Fault{Code: 504}
				case "504-after":
					return &sim.Fault{Code: 504, After: true}
				case "transport-before":
					return &sim.Fault{Transport: true}
				case "transport-after":
					return &sim.Fault{Transport: true, After: true}
				}
				return nil
			})
		}
	}
	w.hooks.SetOverride(func(call *sim.HookCall) *sim.HookResponse {
		n := int(atomic.AddInt32(&hookN, 1))
		if f == nil || f.Target != "hook" || n != f.Pos || !atomic.CompareAndSwapInt32(&fired, 0, 1) {
			return nil
		}
		faultSync = call.Tag
		switch f.Kind {
		case "500":
			return &sim.HookResponse{Status: 500, Body: []byte("boom")}
		case "503":
			return &sim.HookResponse{Status: 503}
		case "refused":
			return &sim.HookResponse{Err: fmt.Errorf("dial tcp: connect: connection refused")}
		case "garbage":
			return &sim.HookResponse{Status: 200, Body: []byte(`{"attachments": [`)}
		case "429":
			return &sim.HookResponse{Status: 429, Header: map[string]string{"Retry-After": "7"}}
		}
		return nil
	})
	viol := func(sig, detail string, sr *syncResult) {
		wit := map[string]interface{}{"finalizeHook": fin, "fault": f}
		if sr != nil {
			wit["requests"] = sim.DescribeLog(sr.Requests, false)
			wit["hooks"] = describeHooks(sr.Hooks)
			wit["queue"] = sr.QueueOps
		}
		rep.Violation("C12", id, "decorator:"+sig, detail, wit)
	}
	errored := map[string]bool{}
	converged := false
	nsync := 0
	for round := 0; round < 60 && !converged; round++ {
		if !w.quiesce() {
			if f != nil {
				inconclusive(t, "C12", id, w.watchdog)
			}
			return nil
		}
		if w.q.Len() == 0 {
			if w.q.ReleaseDue(10*time.Second) == 0 {
				converged = true
			}
			continue
		}
		sr := w.stepWorker()
		if sr == nil {
			continue
		}
		nsync++
		set := map[string]bool{}
		for _, q := range sr.Requests {
			if q.Actor != "mc" || !q.Mutating() || q.GVR == tgvr {
				continue
			}
			n := q.Name
			if q.Verb == "create" {
				if b, ok := q.Body.(map[string]interface{}); ok {
					n = sim.Name(b)
				}
			}
			set[q.Verb+" "+q.GVR.Resource+" "+strings.ReplaceAll(n, r.sc.ID, "ID")] = true
		}
		out.perSync = append(out.perSync, set)
		if f == nil {
			if sr.Err != nil {
				rep.Violation("C12", id, "decorator:fault-free-sync-failed", "a sync of the fault-free reference run reported an error", map[string]interface{}{"requests": sim.DescribeLog(sr.Requests, false)})
			}
			continue
		}
		hit := faultSync != "" && sr.Tag == faultSync && atomic.LoadInt32(&fired) == 1
		var addRL, forget int
		for _, op := range sr.QueueOps {
			if op.Key != sr.Key {
				continue
			}
			switch op.Op {
			case "AddRateLimited":
				addRL++
			case "Forget":
				forget++
			}
		}
		if sr.Panic != "" {
			continue
		}
		switch {
		case hit && !strings.HasPrefix(f.Kind, "race-"):
			if addRL == 0 {
				viol("hard-fault-not-reported:"+f.Target+":"+f.Kind+":"+faultedVerbD(sr), fmt.Sprintf("a %s fault hit this sync, yet the worker did not re-queue the object with back-off", f.Kind), sr)
			}
			if addRL > 0 && forget > 0 {
				viol("forget-on-error", "the key was re-queued rate-limited and forgotten in the same sync", sr)
			}
		case hit && benign:
			if addRL > 0 {
				viol("benign-race-reported:"+f.Kind+":"+faultedVerbD(sr), "only a benign race happened in this sync, yet it was reported as an error", sr)
			}
		case !hit:
			if addRL > 0 {
				viol("fault-free-sync-failed", "a sync in which no fault was injected reported an error", sr)
			}
		}
		if addRL > 0 {
			errored[sr.Key] = true
		}
		if forget > 0 {
			delete(errored, sr.Key)
		}
		// isolation among attachments
		if hit && f.Target == "api" && ref != nil && nsync-1 < len(ref.perSync) {
			var faulted *sim.Request
			for _, q := range sr.Requests {
				if q.Fault != "" {
					faulted = q
				}
			}
			if faulted != nil && faulted.Mutating() && faulted.GVR != tgvr {
				var missing []string
				for k := range ref.perSync[nsync-1] {
					if !set[k] {
						missing = append(missing, k)
					}
				}
				sort.Strings(missing)
				if len(missing) > 0 {
					viol("one-bad-child-blocked-others", fmt.Sprintf("the request %s failed; compared with the fault-free run this sync did not issue: %v", faulted.String(), missing), sr)
				}
			}
		}
	}
	out.apiOps = int(s.OpSeq() - base)
	out.hookOps = int(atomic.LoadInt32(&hookN))
	s.SetFault(nil)
	s.SetGate(nil)
	if !converged {
		if f != nil {
			viol("no-convergence-after-fault", "60 worker steps after a single fault the decorator still has not gone quiet", nil)
		}
		return out
	}
	out.final = d12Normalize(r)
	if f == nil {
		return out
	}
	if len(errored) > 0 {
		viol("work-dropped", fmt.Sprintf("keys that failed were never synced successfully again: %v", errored), nil)
	}
	applicable := atomic.LoadInt32(&fired) == 1
	if applicable && ref != nil && f.Kind != "race-create" && !reflect.DeepEqual(out.final, ref.final) {
		var diff []string
		for k, v := range ref.final {
			if !reflect.DeepEqual(v, out.final[k]) {
				diff = append(diff, fmt.Sprintf("%s\n   reference: %v\n   this run:  %v", k, v, out.final[k]))
			}
		}
		for k := range out.final {
			if _, ok := ref.final[k]; !ok {
				diff = append(diff, "extra: "+k)
			}
		}
		viol("final-state-differs:"+f.Target+":"+f.Kind, "after the fault stopped the cluster converged to a state different from the fault-free run:\n"+strings.Join(diff, "\n"), nil)
	}
	rep.Case("C12", id, applicable, fmt.Sprintf("decorator/%s/%s/%s/p%d", name, f.Target, f.Kind, f.Pos), map[string]interface{}{"finalizeHook": fin, "fault": f, "applicable": applicable})
	return out
}

func faultedVerbD(sr *syncResult) string {
	for _, q := range sr.Requests {
		if q.Fault != "" {
			s := q.Verb + ":" + q.GVR.Resource
			if q.Sub != "" {
				s += "/" + q.Sub
			}
			return s
		}
	}
	for _, h := range sr.Hooks {
		if h.Status != 200 || h.Err != "" {
			return "hook:" + h.Path
		}
	}
	return "?"
}

func TestVerif_C12_DecoratorFaults(t *testing.T) {
	for _, fin := range []string{"finfalse", "fintrue", "labelsonly"} {
		fin := fin
		ref := d12Run(t, fin, nil, nil)
		if ref == nil || ref.final == nil {
			sim.R().Inconclusive("C12", fmt.Sprintf("c12-decorator-ref-%v", fin), "reference run failed")
			continue
		}
		sim.R().Note("C12", fmt.Sprintf("decorator scenario %v: fault-free run = %d API requests, %d hook calls", fin, ref.apiOps, ref.hookOps))
		var faults []d12Fault
		for p := 1; p <= ref.apiOps; p++ {
			for _, k := range d12APIFaults {
				faults = append(faults, d12Fault{"api", p, k})
			}
			for _, k := range d12Races {
				faults = append(faults, d12Fault{"api", p, k})
			}
		}
		for p := 1; p <= ref.hookOps; p++ {
			for _, k := range d12HookFaults {
				faults = append(faults, d12Fault{"hook", p, k})
			}
		}
		for _, f := range faults {
			f := f
			id := fmt.Sprintf("c12-decorator-%v-%s-p%d-%s", fin, f.Target, f.Pos, f.Kind)
			if !sim.WantCase(id) {
				continue
			}
			t.Run(id, func(t *testing.T) {
				t.Parallel()
				d12Run(t, fin, &f, ref)
			})
		}
	}
}
