//go:build verif

// Package verifenv wires the real metacontroller client stack (discovery ResourceMap, dynamic
// clientset, shared dynamic informer factory, generated ControllerRevision clientset and informer)
// onto the simulated API server of package verifsim. It exists only in the /verif build overlay.
package verifenv

import (
	"encoding/json"
	"fmt"
	"reflect"
	"sort"
	"sync"
	"time"

	"k8s.io/apimachinery/pkg/apis/meta/v1/unstructured"
	"k8s.io/apimachinery/pkg/labels"
	"k8s.io/apimachinery/pkg/runtime"
	"k8s.io/apimachinery/pkg/runtime/schema"
	"k8s.io/client-go/discovery"
	"k8s.io/client-go/tools/cache"
	"k8s.io/client-go/tools/record"

	mcclientset "metacontroller/pkg/client/generated/clientset/internalclientset"
	mcinformers "metacontroller/pkg/client/generated/informer/externalversions"
	mclisters "metacontroller/pkg/client/generated/lister/metacontroller/v1alpha1"
	dynamicclientset "metacontroller/pkg/dynamic/clientset"
	dynamicdiscovery "metacontroller/pkg/dynamic/discovery"
	dynamicinformer "metacontroller/pkg/dynamic/informer"
	sim "metacontroller/pkg/verifsim"
)

var RevisionGVR = schema.GroupVersionResource{Group: "metacontroller.k8s.io", Version: "v1alpha1", Resource: "controllerrevisions"}

var RevisionInfo = sim.ResourceInfo{Group: "metacontroller.k8s.io", Version: "v1alpha1", Resource: "controllerrevisions", Kind: "ControllerRevision", Namespaced: true}

// NopRecorder is an event recorder that drops everything (client-go's FakeRecorder can block).
type NopRecorder struct{}

func (NopRecorder) Event(object runtime.Object, eventtype, reason, message string) {}
func (NopRecorder) Eventf(object runtime.Object, eventtype, reason, messageFmt string, args ...interface{}) {
}
func (NopRecorder) AnnotatedEventf(object runtime.Object, annotations map[string]string, eventtype, reason, messageFmt string, args ...interface{}) {
}

var _ record.EventRecorder = NopRecorder{}

// Env is one "process life" of metacontroller's client stack on a simulated cluster.
type Env struct {
	Sim          *sim.Server
	Resources    *dynamicdiscovery.ResourceMap
	DynClient    *dynamicclientset.Clientset
	DynInformers *dynamicinformer.SharedInformerFactory
	McClient     *mcclientset.Clientset
	McInformers  mcinformers.SharedInformerFactory
	RevLister    mclisters.ControllerRevisionLister
	RevInformer  cache.SharedIndexInformer

	stopCh chan struct{}

	mu       sync.Mutex
	tracked  map[schema.GroupVersionResource]*sentinel
	closed   bool
	withRevs bool
}

type sentinel struct {
	gvr      schema.GroupVersionResource
	apiVer   string
	informer *dynamicinformer.ResourceInformer
	barrier  *dynamicinformer.ResourceInformer // second subscription, never given handlers
	mu       sync.Mutex
	shadow   map[string]string // key -> resourceVersion, fed by the same fan-out as the controller's handlers
}

func (s *sentinel) handler() cache.ResourceEventHandler {
	set := func(obj interface{}) {
		u, ok := obj.(*unstructured.Unstructured)
		if !ok {
			return
		}
		s.mu.Lock()
		s.shadow[key(u.GetNamespace(), u.GetName())] = u.GetResourceVersion()
		s.mu.Unlock()
	}
	return cache.ResourceEventHandlerFuncs{
		AddFunc:    set,
		UpdateFunc: func(_, cur interface{}) { set(cur) },
		DeleteFunc: func(obj interface{}) {
			if t, ok := obj.(cache.DeletedFinalStateUnknown); ok {
				obj = t.Obj
			}
			u, ok := obj.(*unstructured.Unstructured)
			if !ok {
				return
			}
			s.mu.Lock()
			delete(s.shadow, key(u.GetNamespace(), u.GetName()))
			s.mu.Unlock()
		},
	}
}

func key(ns, name string) string {
	if ns == "" {
		return name
	}
	return ns + "/" + name
}

// New builds the client stack. withRevisions also starts the ControllerRevision informer (the
// resource must be registered in the simulator).
func New(s *sim.Server, withRevisions bool) (*Env, error) {
	return NewWithDiscoveryInterval(s, withRevisions, 24*time.Hour)
}

// NewWithDiscoveryInterval: as New, with the API discovery refreshed in the background at the given
// interval (the free-running workloads use a short one: refreshes run while workers look
// resources up).
func NewWithDiscoveryInterval(s *sim.Server, withRevisions bool, discoveryInterval time.Duration) (*Env, error) {
	cfg := s.RESTConfig()
	dc, err := discovery.NewDiscoveryClientForConfig(cfg)
	if err != nil {
		return nil, err
	}
	resources := dynamicdiscovery.NewResourceMap(dc)
	resources.Start(discoveryInterval)
	deadline := time.Now().Add(20 * time.Second)
	for !resources.HasSynced() {
		if time.Now().After(deadline) {
			resources.Stop()
			return nil, fmt.Errorf("verifenv: discovery never synced")
		}
		time.Sleep(200 * time.Microsecond)
	}
	dynClient, err := dynamicclientset.New(cfg, resources)
	if err != nil {
		resources.Stop()
		return nil, err
	}
	e := &Env{
		Sim:          s,
		Resources:    resources,
		DynClient:    dynClient,
		DynInformers: dynamicinformer.NewSharedInformerFactory(dynClient, 24*time.Hour),
		stopCh:       make(chan struct{}),
		tracked:      map[schema.GroupVersionResource]*sentinel{},
		withRevs:     withRevisions,
	}
	mc, err := mcclientset.NewForConfig(cfg)
	if err != nil {
		resources.Stop()
		return nil, err
	}
	e.McClient = mc
	if withRevisions {
		e.McInformers = mcinformers.NewSharedInformerFactory(mc, 24*time.Hour)
		e.RevLister = e.McInformers.Metacontroller().V1alpha1().ControllerRevisions().Lister()
		e.RevInformer = e.McInformers.Metacontroller().V1alpha1().ControllerRevisions().Informer()
		e.McInformers.Start(e.stopCh)
		// the revision informer is part of the environment, not of any hosted controller: have its
		// initial LIST and WATCH behind us before a test starts counting requests and watches
		deadline := time.Now().Add(WatchdogTimeout)
		for !(e.RevInformer.HasSynced() && e.Sim.OpenWatches(RevisionGVR) > 0) {
			if time.Now().After(deadline) {
				break
			}
			time.Sleep(200 * time.Microsecond)
		}
	}
	return e, nil
}

// Track subscribes a sentinel to the shared informer of a resource so that Quiesce can tell when
// every handler (the controller's included) has seen everything the simulator released.
func (e *Env) Track(apiVersion, resource string) error {
	gv, err := schema.ParseGroupVersion(apiVersion)
	if err != nil {
		return err
	}
	gvr := gv.WithResource(resource)
	e.mu.Lock()
	defer e.mu.Unlock()
	if e.tracked[gvr] != nil {
		return nil
	}
	inf, err := e.DynInformers.Resource(apiVersion, resource)
	if err != nil {
		return err
	}
	bar, err := e.DynInformers.Resource(apiVersion, resource)
	if err != nil {
		inf.Close()
		return err
	}
	st := &sentinel{gvr: gvr, apiVer: apiVersion, informer: inf, barrier: bar, shadow: map[string]string{}}
	if _, err := inf.Informer().AddEventHandler(st.handler()); err != nil {
		return err
	}
	e.tracked[gvr] = st
	return nil
}

// ErrWatchdog is returned when a logical condition was not reached within the wall-clock
// watchdog; callers must treat it as INCONCLUSIVE, never as a verdict.
type ErrWatchdog struct{ What string }

func (e *ErrWatchdog) Error() string { return "watchdog: " + e.What }

var WatchdogTimeout = 30 * time.Second

// Quiesce waits until every tracked informer has delivered, to every registered handler, every
// event the simulator has released, and the ControllerRevision cache equals the store.
func (e *Env) Quiesce() error {
	e.mu.Lock()
	sts := make([]*sentinel, 0, len(e.tracked))
	for _, st := range e.tracked {
		sts = append(sts, st)
	}
	e.mu.Unlock()
	deadline := time.Now().Add(WatchdogTimeout)
	for _, st := range sts {
		for {
			want := e.Sim.Visible(st.gvr)
			st.mu.Lock()
			eq := reflect.DeepEqual(want, st.shadow)
			st.mu.Unlock()
			if eq && st.informer.Informer().HasSynced() {
				break
			}
			if time.Now().After(deadline) {
				st.mu.Lock()
				have := fmt.Sprintf("%v", st.shadow)
				st.mu.Unlock()
				return &ErrWatchdog{What: fmt.Sprintf("informer for %v did not catch up: want %v have %v", st.gvr.Resource, want, have)}
			}
			time.Sleep(100 * time.Microsecond)
		}
		// Barrier: the sentinel is fed by the same fan-out loop as the controller's handlers, so
		// shadow == released state means the last event has reached the fan-out; removing the
		// (non-existent) handlers of the barrier subscription takes the fan-out's write lock,
		// which waits until that fan-out has called every handler.
		st.barrier.Informer().RemoveEventHandlers()
	}
	if e.withRevs {
		for {
			want := e.Sim.Visible(RevisionGVR)
			have := map[string]string{}
			if e.RevInformer.HasSynced() {
				revs, _ := e.RevLister.List(labels.Everything())
				for _, r := range revs {
					have[key(r.Namespace, r.Name)] = r.ResourceVersion
				}
				if reflect.DeepEqual(want, have) {
					break
				}
			}
			if time.Now().After(deadline) {
				return &ErrWatchdog{What: fmt.Sprintf("revision informer did not catch up: want %v have %v", want, have)}
			}
			time.Sleep(100 * time.Microsecond)
		}
	}
	return nil
}

// Close ends this process life: informers stopped, discovery stopped.
func (e *Env) Close() {
	e.mu.Lock()
	if e.closed {
		e.mu.Unlock()
		return
	}
	e.closed = true
	sts := e.tracked
	e.tracked = map[schema.GroupVersionResource]*sentinel{}
	e.mu.Unlock()
	for _, st := range sts {
		st.informer.Informer().RemoveEventHandlers()
		st.informer.Close()
		st.barrier.Close()
	}
	close(e.stopCh)
	e.Resources.Stop()
}

// ---------------------------------------------------------------------------------------------
// M-CACHE: fingerprints of everything in the shared caches

type Fingerprint struct {
	RV   string
	Hash string
	JSON string
}

// SnapshotCaches fingerprints every object held in the tracked informers' indexers and in the
// ControllerRevision indexer. Keys are "<resource>|<ns/name>".
func (e *Env) SnapshotCaches() map[string]Fingerprint {
	out := map[string]Fingerprint{}
	e.mu.Lock()
	sts := make([]*sentinel, 0, len(e.tracked))
	for _, st := range e.tracked {
		sts = append(sts, st)
	}
	e.mu.Unlock()
	for _, st := range sts {
		objs, err := st.informer.Lister().List(labels.Everything())
		if err != nil {
			continue
		}
		for _, o := range objs {
			data, _ := json.Marshal(o.Object)
			out[st.gvr.Resource+"|"+key(o.GetNamespace(), o.GetName())] = Fingerprint{RV: o.GetResourceVersion(), Hash: sim.Hash(string(data)), JSON: string(data)}
		}
	}
	if e.withRevs {
		revs, _ := e.RevLister.List(labels.Everything())
		for _, r := range revs {
			data, _ := json.Marshal(r)
			out["controllerrevisions|"+key(r.Namespace, r.Name)] = Fingerprint{RV: r.ResourceVersion, Hash: sim.Hash(string(data)), JSON: string(data)}
		}
	}
	return out
}

// CompareCaches returns a description of every cached object that changed although its
// resourceVersion did not (i.e. was mutated in place rather than replaced by a watch event).
func CompareCaches(before, after map[string]Fingerprint) []string {
	var diffs []string
	keys := make([]string, 0, len(before))
	for k := range before {
		keys = append(keys, k)
	}
	sort.Strings(keys)
	for _, k := range keys {
		b := before[k]
		a, ok := after[k]
		if !ok || a.RV != b.RV {
			continue
		}
		if a.Hash != b.Hash {
			diffs = append(diffs, fmt.Sprintf("%s rv=%s\n  before: %s\n  after:  %s", k, b.RV, b.JSON, a.JSON))
		}
	}
	return diffs
}
