//go:build verif

package hooks

import (
	"bytes"
	"encoding/json"
	"fmt"
	"io"
	"math"
	"net/http"
	"reflect"
	"strings"
	"sync"
	"sync/atomic"
	"testing"
	"time"

	metav1 "k8s.io/apimachinery/pkg/apis/meta/v1"
	"k8s.io/apimachinery/pkg/apis/meta/v1/unstructured"

	"metacontroller/pkg/apis/metacontroller/v1alpha1"
	"metacontroller/pkg/cache"
	"metacontroller/pkg/controller/common"
	compositev1 "metacontroller/pkg/controller/composite/api/v1"
	sim "metacontroller/pkg/verifsim"
)

// C19 - hook transport: only 200 / valid 304 is an answer; cached bodies match their ETag.

type scriptedClient struct {
	mu   sync.Mutex
	seen []*http.Request
	fn   func(req *http.Request, body []byte) (*http.Response, error)
}

func (c *scriptedClient) Do(req *http.Request) (*http.Response, error) {
	var body []byte
	if req.Body != nil {
		body, _ = io.ReadAll(req.Body)
	}
	c.mu.Lock()
	c.seen = append(c.seen, req)
	fn := c.fn
	c.mu.Unlock()
	return fn(req, body)
}

func httpResp(status int, hdr map[string]string, body string) *http.Response {
	h := http.Header{}
	for k, v := range hdr {
		h.Set(k, v)
	}
	return &http.Response{StatusCode: status, Header: h, Body: io.NopCloser(bytes.NewReader([]byte(body)))}
}

func request(name, content string) *compositev1.CompositeHookRequest {
	p := &unstructured.Unstructured{}
	p.SetAPIVersion("ctest.dev/v1")
	p.SetKind("Thing")
	p.SetNamespace("ns")
	p.SetName(name)
	unstructured.SetNestedField(p.Object, content, "spec", "content")
	return &compositev1.CompositeHookRequest{Parent: p}
}

func bodyFor(tag string) string {
	return fmt.Sprintf(`{"status":{"servedFor":%q},"children":[],"resyncAfterSeconds":0,"finalized":false}`, tag)
}

func servedFor(r *compositev1.CompositeHookResponse) string {
	s, _ := r.Status["servedFor"].(string)
	return s
}

type c19Row struct {
	Status     int    `json:"status"`
	ETagHdr    bool   `json:"etagHeader"`
	RetryAfter string `json:"retryAfter"` // int date absent garbage
	Body       string `json:"body"`       // valid unknown duplicate invalid empty
	Strict     bool   `json:"strict"`
	ETagOn     bool   `json:"etagEnabled"`
	Cache      string `json:"cache"`     // empty hit expired
	Transport  string `json:"transport"` // ok error timeout
}

func (r c19Row) id() string {
	return fmt.Sprintf("c19-%d-eh%v-ra_%s-%s-strict%v-etag%v-%s-%s", r.Status, r.ETagHdr, r.RetryAfter, r.Body, r.Strict, r.ETagOn, r.Cache, r.Transport)
}

func TestVerif_C19_Table(t *testing.T) {
	rep := sim.R()
	rep.Begin("C19", "c19-table")
	now := time.Date(2026, 1, 1, 12, 0, 0, 0, time.UTC)
	n, viols := 0, 0
	keys := map[string]bool{}
	for _, status := range []int{200, 201, 204, 301, 304, 400, 404, 412, 429, 500, 503} {
		for _, eh := range []bool{false, true} {
			for _, ra := range []string{"int", "date", "absent", "garbage"} {
				if status != 429 && ra != "absent" {
					continue
				}
				for _, body := range []string{"valid", "unknown", "duplicate", "invalid", "empty"} {
					for _, strict := range []bool{false, true} {
						for _, etagOn := range []bool{false, true} {
							for _, cs := range []string{"empty", "hit", "expired"} {
								if !etagOn && cs != "empty" {
									continue
								}
								for _, tr := range []string{"ok", "error", "timeout"} {
									if tr != "ok" && (status != 200 || body != "valid") {
										continue
									}
									row := c19Row{status, eh, ra, body, strict, etagOn, cs, tr}
									n++
									keys[row.id()] = true
									if !runC19Row(rep, row, now) {
										viols++
									}
								}
							}
						}
					}
				}
			}
		}
	}
	rep.Counter("C19", "table_rows", int64(n))
	rep.Case("C19", "c19-table", n > 0, "table", map[string]interface{}{"rows": n, "rowsViolating": viols})
	// one case record per row class so that distinct counts are measured
	for k := range keys {
		rep.Case("C19", k, true, k, nil)
	}
}

func runC19Row(rep *sim.Reporter, row c19Row, now time.Time) bool {
	ok := true
	viol := func(sig, detail string) {
		ok = false
		rep.Violation("C19", row.id(), sig, detail, map[string]interface{}{"row": row})
	}
	var abstract webhookAbstract = &webhookExecutorPlain{}
	var etag *webhookExecutorEtag
	if row.ETagOn {
		exp := time.Duration(0)
		if row.Cache == "expired" {
			exp = time.Nanosecond
		}
		etag = &webhookExecutorEtag{etagCache: cache.New[eTagKey, *eTagEntry](exp, 0)}
		abstract = etag
	}
	req := request("p", "c1")
	const cachedETag, cachedBody = `"E-cached"`, "cached"
	if row.ETagOn && row.Cache != "empty" {
		etag.etagCache.Set(etag.getKeyFromObject(req.Parent), &eTagEntry{Etag: cachedETag, Response: []byte(bodyFor(cachedBody))})
		if row.Cache == "expired" {
			time.Sleep(2 * time.Millisecond)
		}
	}
	var served string
	switch row.Body {
	case "valid":
		served = bodyFor("fresh")
	case "unknown":
		served = `{"status":{"servedFor":"fresh"},"children":[],"bogusField":true}`
	case "duplicate":
		served = `{"status":{"servedFor":"old"},"status":{"servedFor":"fresh"},"children":[]}`
	case "invalid":
		served = `{"status": {`
	case "empty":
		served = ""
	}
	hdr := map[string]string{}
	if row.ETagHdr {
		hdr["ETag"] = `"E-fresh"`
	}
	wantDelay := -1
	switch row.RetryAfter {
	case "int":
		hdr["Retry-After"] = "7"
		wantDelay = 7
	case "date":
		hdr["Retry-After"] = now.Add(90*time.Second + 400*time.Millisecond).Format(time.RFC1123)
		wantDelay = int(math.Ceil(now.Add(90*time.Second+400*time.Millisecond).Truncate(time.Second).Sub(now).Seconds()))
	case "garbage":
		hdr["Retry-After"] = "soon"
	}
	client := &scriptedClient{fn: func(r *http.Request, _ []byte) (*http.Response, error) {
		switch row.Transport {
		case "error":
			return nil, fmt.Errorf("dial tcp: connection refused")
		case "timeout":
			return nil, fmt.Errorf("context deadline exceeded (Client.Timeout exceeded while awaiting headers)")
		}
		return httpResp(row.Status, hdr, served), nil
	}}
	mode := v1alpha1.ResponseUnmarshallModeLoose
	if row.Strict {
		mode = v1alpha1.ResponseUnmarshallModeStrict
	}
	ex := newWebhookExecutor(client, "http://hook.sim/x", common.SyncHook, &mode, abstract, func() time.Time { return now })
	var resp compositev1.CompositeHookResponse
	var err error
	if stack, p := sim.Guard(func() { err = ex.Call(req, &resp) }); p {
		viol("panic:"+sim.PanicSite(stack), "Call panicked: "+stack)
		return false
	}
	sentINM := ""
	if len(client.seen) > 0 {
		sentINM = client.seen[0].Header.Get("If-None-Match")
	}
	wantINM := row.ETagOn && row.Cache == "hit"
	if (sentINM != "") != wantINM {
		viol(fmt.Sprintf("if-none-match:sent=%v:want=%v:%s", sentINM != "", wantINM, row.Cache), fmt.Sprintf("If-None-Match sent=%q; ETag support %v, cache state %s", sentINM, row.ETagOn, row.Cache))
	} else if wantINM && sentINM != cachedETag {
		viol("if-none-match:wrong-value", fmt.Sprintf("If-None-Match %q, cached ETag %q", sentINM, cachedETag))
	}
	// ---- expected outcome
	bodyDecodable := row.Body == "valid" || ((row.Body == "unknown" || row.Body == "duplicate") && !row.Strict)
	switch {
	case row.Transport != "ok":
		if err == nil {
			viol("transport-failure-accepted:"+row.Transport, "a transport error / timeout was not reported")
		}
	case row.Status == 429:
		tm, is := err.(*TooManyRequestError)
		if !is {
			viol("429-not-too-many-requests", fmt.Sprintf("429 must yield TooManyRequestError, got %T %v", err, err))
		} else if wantDelay >= 0 && tm.AfterSecond != wantDelay {
			viol("429-wrong-delay:"+row.RetryAfter, fmt.Sprintf("Retry-After %q: delay %d, want %d", hdr["Retry-After"], tm.AfterSecond, wantDelay))
		}
	case row.Status == 200:
		if bodyDecodable {
			if err != nil {
				viol(fmt.Sprintf("well-formed-200-rejected:%s:strict=%v", row.Body, row.Strict), fmt.Sprintf("a %s body with status 200 in %s mode must be accepted: %v", row.Body, modeName(row.Strict), err))
			} else if servedFor(&resp) != "fresh" {
				viol("wrong-body-used", fmt.Sprintf("decoded response is for %q, the server sent the fresh body", servedFor(&resp)))
			}
		} else if err == nil {
			viol(fmt.Sprintf("bad-body-accepted:%s:strict=%v", row.Body, row.Strict), fmt.Sprintf("a %s body in %s mode must be rejected", row.Body, modeName(row.Strict)))
		}
	case (row.Status == 304 || row.Status == 412) && row.ETagOn && sentINM != "":
		if err != nil {
			if !row.Strict {
				viol("valid-304-rejected", fmt.Sprintf("304/412 answering an If-None-Match must be served from the cache: %v", err))
			} else {
				viol("well-formed-304-rejected:strict=true", fmt.Sprintf("strict mode: the cached well-formed body must be accepted: %v", err))
			}
		} else if servedFor(&resp) != cachedBody {
			viol("304-not-served-from-cache", fmt.Sprintf("304: decoded response is for %q, want the cached body", servedFor(&resp)))
		}
	default:
		if err == nil {
			viol(fmt.Sprintf("status-%d-accepted:etag=%v:inm=%v", row.Status, row.ETagOn, sentINM != ""), fmt.Sprintf("status %d (ETag support %v, If-None-Match sent %v) must be an error", row.Status, row.ETagOn, sentINM != ""))
		}
	}
	// cache discipline: only a 200 with an ETag header may (re)fill the cache
	if row.ETagOn && row.Transport == "ok" {
		entry, has := etag.etagCache.Get(etag.getKeyFromObject(req.Parent))
		if row.Status != 200 {
			if has && entry.Etag == `"E-fresh"` {
				viol(fmt.Sprintf("non-200-cached:%d", row.Status), fmt.Sprintf("the body of a %d answer was stored in the ETag cache", row.Status))
			}
		} else if row.ETagHdr && row.Cache != "expired" && bodyDecodable { // (the "expired" set-up gives every entry a 1 ns life; whether a rejected body is kept is not prescribed)
			if !has || entry.Etag != `"E-fresh"` || string(entry.Response) != served {
				viol("200-not-cached", "a 200 answer carrying an ETag was not cached with exactly that ETag and body")
			}
		}
	}
	return ok
}

func modeName(strict bool) string {
	if strict {
		return "strict"
	}
	return "loose"
}

// ---------------------------------------------------------------------------------------------
// interleavings of 2 and 3 concurrent calls with the same cache key

type ilEvent struct {
	Call int
	Kind string // E = enrich + arrive at the server, A = response released, adjust + decode
}

func interleavings(n int) [][]ilEvent {
	var out [][]ilEvent
	var rec func(cur []ilEvent, e, a []bool)
	rec = func(cur []ilEvent, e, a []bool) {
		if len(cur) == 2*n {
			out = append(out, append([]ilEvent(nil), cur...))
			return
		}
		for i := 0; i < n; i++ {
			if !e[i] {
				e[i] = true
				rec(append(cur, ilEvent{i, "E"}), e, a)
				e[i] = false
			} else if !a[i] {
				a[i] = true
				rec(append(cur, ilEvent{i, "A"}), e, a)
				a[i] = false
			}
		}
	}
	rec(nil, make([]bool, n), make([]bool, n))
	return out
}

func TestVerif_C19_Interleavings(t *testing.T) {
	rep := sim.R()
	for _, n := range []int{2, 3} {
		orders := interleavings(n)
		for _, initial := range []string{"empty", "entry-of-call-0", "entry-of-other-content"} {
			for oi, order := range orders {
				// the server says "unchanged" with 304, or with 412 (both are accepted answers)
				for _, nm := range []int{304, 412} {
					id := fmt.Sprintf("c19-il-n%d-%s-%d", n, initial, oi)
					if nm != 304 {
						id += fmt.Sprintf("-%d", nm)
					}
					if !sim.WantCase(id) {
						continue
					}
					rep.Begin("C19", id)
					runC19Interleaving(rep, id, n, initial, order, nm)
				}
			}
		}
		rep.Note("C19", fmt.Sprintf("%d concurrent calls: %d interleavings x 3 initial cache states executed", n, len(orders)))
	}
}

func etagOf(content string) string { return `"etag-` + content + `"` }

func runC19Interleaving(rep *sim.Reporter, id string, n int, initial string, order []ilEvent, notModified int) {
	etag := &webhookExecutorEtag{etagCache: cache.New[eTagKey, *eTagEntry](0, 0)}
	contents := []string{"c0", "c1", "c2"}[:n]
	key := etag.getKeyFromObject(request("p", "x").Parent)
	switch initial {
	case "entry-of-call-0":
		etag.etagCache.Set(key, &eTagEntry{Etag: etagOf("c0"), Response: []byte(bodyFor("c0"))})
	case "entry-of-other-content":
		etag.etagCache.Set(key, &eTagEntry{Etag: etagOf("zz"), Response: []byte(bodyFor("zz"))})
	}
	arrived := make([]chan struct{}, n)
	release := make([]chan struct{}, n)
	done := make([]chan struct{}, n)
	for i := range arrived {
		arrived[i], release[i], done[i] = make(chan struct{}), make(chan struct{}), make(chan struct{})
	}
	// the server: every request content has its own body and ETag; 304 iff the If-None-Match it
	// receives is the ETag of that content
	client := &scriptedClient{}
	client.fn = func(r *http.Request, body []byte) (*http.Response, error) {
		idx := -1
		for i, c := range contents {
			if bytes.Contains(body, []byte(`"content":"`+c+`"`)) {
				idx = i
			}
		}
		if idx < 0 {
			return nil, fmt.Errorf("unknown content")
		}
		inm := r.Header.Get("If-None-Match")
		close(arrived[idx])
		<-release[idx]
		if inm == etagOf(contents[idx]) {
			return httpResp(notModified, map[string]string{"ETag": etagOf(contents[idx])}, ""), nil
		}
		return httpResp(200, map[string]string{"ETag": etagOf(contents[idx])}, bodyFor(contents[idx])), nil
	}
	mode := v1alpha1.ResponseUnmarshallModeLoose
	ex := newWebhookExecutor(client, "http://hook.sim/x", common.SyncHook, &mode, etag, time.Now)
	resps := make([]compositev1.CompositeHookResponse, n)
	errs := make([]error, n)
	panics := make([]string, n)
	watchdog := time.After(20 * time.Second)
	for _, ev := range order {
		i := ev.Call
		switch ev.Kind {
		case "E":
			go func() {
				defer close(done[i])
				stack, p := sim.Guard(func() { errs[i] = ex.Call(request("p", contents[i]), &resps[i]) })
				if p {
					panics[i] = stack
				}
			}()
			select {
			case <-arrived[i]:
			case <-done[i]:
			case <-watchdog:
				rep.Inconclusive("C19", id, "call did not reach the server")
				return
			}
		case "A":
			close(release[i])
			select {
			case <-done[i]:
			case <-watchdog:
				rep.Inconclusive("C19", id, "call did not return")
				return
			}
		}
	}
	var desc []string
	for _, ev := range order {
		desc = append(desc, fmt.Sprintf("%s%d", ev.Kind, ev.Call))
	}
	for i := 0; i < n; i++ {
		if panics[i] != "" {
			rep.Violation("C19", id, "panic:"+sim.PanicSite(panics[i]), "Call panicked: "+panics[i], map[string]interface{}{"order": desc})
			continue
		}
		if errs[i] != nil {
			continue // an error is always acceptable
		}
		if got := servedFor(&resps[i]); got != contents[i] {
			rep.Violation("C19", id, fmt.Sprintf("body-of-another-call:%d", notModified), fmt.Sprintf("call %d (request content %s) succeeded with the body the server produced for %q: a %d was answered from a cache entry that a concurrent call had replaced", i, contents[i], got, notModified),
				map[string]interface{}{"order": desc, "initialCache": initial, "calls": n, "notModifiedStatus": notModified})
		}
	}
	rep.Case("C19", id, true, fmt.Sprintf("il/n%d/%s/%s/%d", n, initial, strings.Join(desc, ""), notModified), map[string]interface{}{"order": desc, "initialCache": initial, "notModifiedStatus": notModified})
}

// ---------------------------------------------------------------------------------------------
// constructing executors from every combination of the optional webhook fields

func TestVerif_C19_Construct(t *testing.T) {
	rep := sim.R()
	tr, fa := true, false
	i32 := func(v int32) *int32 { return &v }
	url := "http://hook.sim/s1/sync"
	k := 0
	for _, enabled := range []*bool{nil, &fa, &tr} {
		for _, timeout := range []*int32{nil, i32(30)} {
			for _, cleanup := range []*int32{nil, i32(60)} {
				for _, withEtag := range []bool{false, true} {
					k++
					id := fmt.Sprintf("c19-construct-%d", k)
					rep.Begin("C19", id)
					wh := &v1alpha1.Webhook{URL: &url}
					if withEtag {
						wh.Etag = &v1alpha1.WebhookEtagConfig{Enabled: enabled, CacheTimeoutSeconds: timeout, CacheCleanupSeconds: cleanup}
					}
					var ex WebhookExecutor
					var err error
					stack, p := sim.Guard(func() {
						ex, err = NewWebhookExecutor(wh, fmt.Sprintf("ctl-%d", k), common.CompositeController, common.SyncHook)
					})
					desc := fmt.Sprintf("etagBlock=%v enabled=%v cacheTimeoutSeconds=%v cacheCleanupSeconds=%v", withEtag, ptrB(enabled), ptrI(timeout), ptrI(cleanup))
					if p {
						rep.Violation("C20", id, "panic:"+sim.PanicSite(stack)+":NewWebhookExecutor", "constructing the webhook executor panicked for "+desc+": "+stack, map[string]interface{}{"webhook": desc})
					} else if err != nil || ex == nil {
						rep.Violation("C20", id, "usable-webhook-rejected", fmt.Sprintf("a usable webhook configuration (%s) was rejected: %v", desc, err), nil)
					}
					rep.Case("C19", id, true, "construct/"+desc, map[string]interface{}{"webhook": desc, "panicked": p})
					rep.Case("C20", id, true, "construct/"+desc, map[string]interface{}{"webhook": desc, "panicked": p})
				}
			}
		}
	}
}

func ptrB(b *bool) string {
	if b == nil {
		return "unset"
	}
	return fmt.Sprint(*b)
}
func ptrI(b *int32) string {
	if b == nil {
		return "unset"
	}
	return fmt.Sprint(*b)
}

var _ = reflect.DeepEqual


// Two calls about the same parent: a 200 answer (with ETag) whose body is well-formed, has an
// unknown field or a duplicate field, then a 304/412 answer to whatever If-None-Match the second
// call sends. Strict mode rejects the malformed body both times - a replay from the cache is still
// "a response with unknown or duplicate fields".
func TestVerif_C19_Replay(t *testing.T) {
	rep := sim.R()
	now := time.Date(2026, 1, 1, 12, 0, 0, 0, time.UTC)
	for _, body := range []string{"valid", "unknown", "duplicate"} {
		for _, strict := range []bool{false, true} {
			for _, second := range []int{304, 412} {
				id := fmt.Sprintf("c19-replay-%s-strict%v-%d", body, strict, second)
				if !sim.WantCase(id) {
					continue
				}
				rep.Begin("C19", id)
				viol := func(sig, detail string) {
					rep.Violation("C19", id, sig, detail, map[string]interface{}{"body": body, "strict": strict, "second": second})
				}
				var served string
				switch body {
				case "valid":
					served = bodyFor("fresh")
				case "unknown":
					served = `{"status":{"servedFor":"fresh"},"children":[],"bogusField":true}`
				case "duplicate":
					served = `{"status":{"servedFor":"old"},"status":{"servedFor":"fresh"},"children":[]}`
				}
				etag := &webhookExecutorEtag{etagCache: cache.New[eTagKey, *eTagEntry](0, 0)}
				calls := 0
				var inm []string
				client := &scriptedClient{fn: func(r *http.Request, _ []byte) (*http.Response, error) {
					calls++
					inm = append(inm, r.Header.Get("If-None-Match"))
					if calls == 1 {
						return httpResp(200, map[string]string{"ETag": `"E-1"`}, served), nil
					}
					return httpResp(second, map[string]string{"ETag": `"E-1"`}, ""), nil
				}}
				mode := v1alpha1.ResponseUnmarshallModeLoose
				if strict {
					mode = v1alpha1.ResponseUnmarshallModeStrict
				}
				ex := newWebhookExecutor(client, "http://hook.sim/x", common.SyncHook, &mode, etag, func() time.Time { return now })
				req := request("p", "c1")
				wantOK := body == "valid" || !strict
				for call := 1; call <= 3; call++ {
					var resp compositev1.CompositeHookResponse
					var err error
					if stack, p := sim.Guard(func() { err = ex.Call(req, &resp) }); p {
						viol("panic:"+sim.PanicSite(stack), "Call panicked: "+stack)
						break
					}
					switch {
					case wantOK && call == 1 && err != nil:
						viol(fmt.Sprintf("well-formed-200-rejected:%s:strict=%v", body, strict), fmt.Sprintf("call 1: %v", err))
					case wantOK && call > 1 && err != nil && inm[call-1] != "":
						viol(fmt.Sprintf("valid-304-rejected:replay:%s:strict=%v", body, strict), fmt.Sprintf("call %d sent If-None-Match %s and got %d, yet failed: %v", call, inm[call-1], second, err))
					case wantOK && err == nil && servedFor(&resp) != "fresh":
						viol("wrong-body-used:replay", fmt.Sprintf("call %d decoded a response for %q", call, servedFor(&resp)))
					case !wantOK && err == nil:
						viol(fmt.Sprintf("bad-body-accepted:replayed-from-cache:%s:call%d:%d", body, call, second), fmt.Sprintf("strict mode: call %d (If-None-Match %q, answer %d) accepted a body with a %s field: %+v", call, inm[call-1], map[bool]int{true: 200, false: second}[call == 1], body, resp.Status))
					}
				}
				rep.Case("C19", id, calls >= 2, id, map[string]interface{}{"calls": calls, "ifNoneMatch": inm})
			}
		}
	}
}

// The configured hook timeout ("a timeout ... is an error"): whatever spec.hooks.*.timeout says
// (unset, sub-second, fractional, invalid) the request that reaches the hook carries a deadline of
// exactly that duration after the call was made, and a hook that does not answer before the
// deadline makes the call fail. Judged on the deadline the request carries, with two inequalities
// that hold for every schedule (tBefore <= time the deadline was computed <= arrival):
//   deadline - tBefore >= timeout   and   deadline - arrival <= timeout
func TestVerif_C19_Timeout(t *testing.T) {
	rep := sim.R()
	var clock int64
	type tc struct {
		name string
		set  *time.Duration
		want time.Duration
	}
	d := func(v time.Duration) *time.Duration { return &v }
	cases := []tc{
		{"unset", nil, 10 * time.Second},
		{"300ms", d(300 * time.Millisecond), 300 * time.Millisecond},
		{"700ms", d(700 * time.Millisecond), 700 * time.Millisecond},
		{"1s", d(time.Second), time.Second},
		{"1500ms", d(1500 * time.Millisecond), 1500 * time.Millisecond},
		{"2s", d(2 * time.Second), 2 * time.Second},
		{"45s", d(45 * time.Second), 45 * time.Second},
		{"zero", d(0), 10 * time.Second},
		{"negative", d(-time.Second), 10 * time.Second},
	}
	tr := true
	for _, c := range cases {
		for _, etag := range []bool{false, true} {
			for _, hang := range []bool{false, true} {
				if hang && c.want > 2*time.Second {
					continue
				}
				id := fmt.Sprintf("c19-timeout-%s-etag%v-hang%v", c.name, etag, hang)
				if !sim.WantCase(id) {
					continue
				}
				rep.Begin("C19", id)
				viol := func(sig, detail string) {
					rep.Violation("C19", id, sig, detail, map[string]interface{}{"timeout": c.name, "etag": etag, "hang": hang})
				}
				site := sim.NewHookSite(&clock, nil)
				var sawDeadline, hadDeadline bool
				var fromBefore, fromArrival time.Duration
				var tBefore time.Time
				site.Handle("sync", func(call *sim.HookCall) sim.HookResponse {
					dl, ok := call.Ctx.Deadline()
					sawDeadline, hadDeadline = true, ok
					if ok {
						fromBefore, fromArrival = dl.Sub(tBefore), dl.Sub(call.Arrived)
					}
					if hang && ok {
						<-call.Ctx.Done()
						return sim.HookResponse{Err: call.Ctx.Err()}
					}
					return sim.HookResponse{Status: 200, Body: []byte(bodyFor("x"))}
				})
				url := site.URL("sync")
				wh := &v1alpha1.Webhook{URL: &url}
				if c.set != nil {
					wh.Timeout = &metav1.Duration{Duration: *c.set}
				}
				if etag {
					wh.Etag = &v1alpha1.WebhookEtagConfig{Enabled: &tr}
				}
				ex, err := NewWebhookExecutor(wh, "ctl-"+id, common.CompositeController, common.SyncHook)
				if err != nil || ex == nil {
					rep.Violation("C20", id, "usable-webhook-rejected", fmt.Sprintf("webhook with timeout %s rejected: %v", c.name, err), nil)
					rep.Case("C19", id, false, id, nil)
					site.Close()
					continue
				}
				var resp compositev1.CompositeHookResponse
				tBefore = time.Now()
				stack, p := sim.Guard(func() { err = ex.Call(request("p", "x"), &resp) })
				switch {
				case p:
					viol("panic:"+sim.PanicSite(stack), stack)
				case !sawDeadline:
					rep.Inconclusive("C19", id, "the hook was not reached")
				case !hadDeadline:
					viol("hook-call-without-deadline", fmt.Sprintf("timeout %s: the request reached the hook without any deadline, a hook that never answers would never time out", c.name))
				case fromBefore < c.want:
					viol("hook-deadline-too-early", fmt.Sprintf("timeout %s: the request's deadline is %v after the moment before the call, less than the configured %v", c.name, fromBefore, c.want))
				case fromArrival > c.want:
					viol("hook-deadline-too-late", fmt.Sprintf("timeout %s: on arrival the request still had %v, more than the configured %v", c.name, fromArrival, c.want))
				case hang && err == nil:
					viol("timeout-accepted", "the hook did not answer before the deadline and the call reported success")
				case !hang && err != nil:
					viol("answer-rejected", fmt.Sprintf("a prompt 200 answer was rejected: %v", err))
				}
				site.Close()
				rep.Case("C19", id, sawDeadline, id, map[string]interface{}{"timeout": c.name, "etag": etag, "hang": hang, "deadlineSeen": hadDeadline, "deadlineFromBefore": fromBefore.String(), "deadlineFromArrival": fromArrival.String()})
			}
		}
	}
}

// One controller, several hooks with ETag support, the same parent: each hook executor has its own
// ETag cache. The endpoints hand out EQUAL ETag values for one parent (legal: an ETag is scoped to
// its URL) but different bodies. Every If-None-Match a hook receives must be an ETag that this
// very endpoint issued, and the decoded answer must be the body of the endpoint that was called -
// also after the controller was "restarted" (new executors under the same controller name, new URLs).
func TestVerif_C19_CachePerHook(t *testing.T) {
	rep := sim.R()
	var clock int64
	tr := true
	hookTypes := []common.HookType{common.SyncHook, common.FinalizeHook, common.CustomizeHook}
	orders := [][]int{{0, 1, 2}, {0, 2, 1}, {1, 0, 2}, {1, 2, 0}, {2, 0, 1}, {2, 1, 0}}
	for oi, order := range orders {
		for _, ctype := range []common.ControllerType{common.CompositeController, common.DecoratorController} {
			id := fmt.Sprintf("c19-cache-per-hook-%s-o%d", ctype, oi)
			if !sim.WantCase(id) {
				continue
			}
			rep.Begin("C19", id)
			viol := func(sig, detail string) {
				rep.Violation("C19", id, sig, detail, map[string]interface{}{"order": order, "controllerType": fmt.Sprint(ctype)})
			}
			site := sim.NewHookSite(&clock, nil)
			var mu sync.Mutex
			issued := map[string]map[string]bool{} // path -> ETags handed out by that endpoint
			calls := 0
			handler := func(path string) sim.HookHandler {
				return func(call *sim.HookCall) sim.HookResponse {
					mu.Lock()
					defer mu.Unlock()
					calls++
					gen, _ := sim.Nested(call.Req, "parent", "spec", "content")
					etag := fmt.Sprintf(`"E-%v"`, gen)
					if inm := call.Header.Get("If-None-Match"); inm != "" {
						if !issued[path][inm] {
							viol("inm-not-issued-by-this-endpoint", fmt.Sprintf("endpoint %s received If-None-Match %s, an ETag it never handed out (issued here: %v)", path, inm, issued[path]))
						}
						if inm == etag {
							return sim.HookResponse{Status: 304, Header: map[string]string{"ETag": etag}}
						}
					}
					if issued[path] == nil {
						issued[path] = map[string]bool{}
					}
					issued[path][etag] = true
					return sim.HookResponse{Status: 200, Header: map[string]string{"ETag": etag}, Body: []byte(bodyFor(path))}
				}
			}
			ctl := "ctl-" + id
			mkExec := func(gen string) []WebhookExecutor {
				var out []WebhookExecutor
				for _, ht := range hookTypes {
					path := fmt.Sprintf("%s%s", ht, gen)
					site.Handle(path, handler(path))
					url := site.URL(path)
					ex, err := NewWebhookExecutor(&v1alpha1.Webhook{URL: &url, Etag: &v1alpha1.WebhookEtagConfig{Enabled: &tr}}, ctl, ctype, ht)
					if err != nil || ex == nil {
						rep.Violation("C20", id, "usable-webhook-rejected", fmt.Sprintf("webhook %s rejected: %v", path, err), nil)
						return nil
					}
					out = append(out, ex)
				}
				return out
			}
			judged := 0
			run := func(gen string, exs []WebhookExecutor) {
				for round := 0; round < 3; round++ {
					content := "g1"
					if round == 2 {
						content = "g2" // the parent changed: new ETag everywhere
					}
					for _, hi := range order {
						path := fmt.Sprintf("%s%s", hookTypes[hi], gen)
						var resp compositev1.CompositeHookResponse
						var err error
						if stack, p := sim.Guard(func() { err = exs[hi].Call(request("p", content), &resp) }); p {
							viol("panic:"+sim.PanicSite(stack), stack)
							continue
						}
						judged++
						if err != nil {
							viol("call-failed", fmt.Sprintf("call of %s (round %d) failed: %v", path, round, err))
						} else if servedFor(&resp) != path {
							viol("body-of-another-endpoint", fmt.Sprintf("call of %s (round %d) was answered with the body of %q", path, round, servedFor(&resp)))
						}
					}
				}
			}
			if exs := mkExec(""); exs != nil {
				run("", exs)
			}
			// the controller is restarted with other URLs: new executors under the same controller name
			if exs := mkExec("-v2"); exs != nil {
				run("-v2", exs)
			}
			site.Close()
			rep.Counter("C19", "per_hook_cache_calls_judged", int64(judged))
			rep.Case("C19", id, judged > 0, id, map[string]interface{}{"order": order, "controllerType": fmt.Sprint(ctype), "calls": judged, "endpointCalls": calls})
		}
	}
}

// Truly concurrent calls about one parent through one ETag executor (the parallel per-revision
// calls of a rolling update), run under the race detector: the hook's representation changes
// version while calls are in flight. Every call that succeeds was answered with the body of the
// version the server meant for it (the 200 it sent, or the version whose ETag the call presented and
// the server confirmed with 304); the cache entries are swapped, never edited in place (no race).
func TestVerif_C19_ConcurrentCalls(t *testing.T) {
	rep := sim.R()
	for run := 0; run < sim.Pick(2, 8); run++ {
		id := fmt.Sprintf("c19-concurrent-%d", run)
		if !sim.WantCase(id) {
			continue
		}
		rep.Begin("C19", id)
		etag := &webhookExecutorEtag{etagCache: cache.New[eTagKey, *eTagEntry](0, 0)}
		var version int64 = 1
		var mu sync.Mutex
		meant := map[string]int64{} // call id -> version the server meant for that call
		client := &scriptedClient{fn: func(r *http.Request, body []byte) (*http.Response, error) {
			var req struct {
				Parent struct {
					Spec struct {
						Content string `json:"content"`
					} `json:"spec"`
				} `json:"parent"`
			}
			_ = json.Unmarshal(body, &req)
			v := atomic.LoadInt64(&version)
			et := fmt.Sprintf(`"V-%d"`, v)
			mu.Lock()
			meant[req.Parent.Spec.Content] = v
			mu.Unlock()
			if r.Header.Get("If-None-Match") == et {
				return httpResp(304, map[string]string{}, ""), nil
			}
			return httpResp(200, map[string]string{"ETag": et}, bodyFor(fmt.Sprintf("V-%d", v))), nil
		}}
		mode := v1alpha1.ResponseUnmarshallModeLoose
		ex := newWebhookExecutor(client, "http://hook.sim/x", common.SyncHook, &mode, etag, time.Now)
		const workers, callsEach = 8, 400
		var wg sync.WaitGroup
		var ok, failed, wrong int64
		var firstWrong atomic.Value
		for g := 0; g < workers; g++ {
			g := g
			wg.Add(1)
			go func() {
				defer wg.Done()
				for i := 0; i < callsEach; i++ {
					if g == 0 && i%5 == 0 {
						atomic.AddInt64(&version, 1) // the hook's answer changes
					}
					callID := fmt.Sprintf("g%d-i%d", g, i)
					var resp compositev1.CompositeHookResponse
					var err error
					if stack, p := sim.Guard(func() { err = ex.Call(request("p", callID), &resp) }); p {
						rep.Violation("C19", id, "panic:"+sim.PanicSite(stack), stack, nil)
						return
					}
					if err != nil {
						atomic.AddInt64(&failed, 1) // (a 304 for an entry that has been replaced meanwhile is an error, rightly)
						continue
					}
					mu.Lock()
					want := meant[callID]
					mu.Unlock()
					if servedFor(&resp) != fmt.Sprintf("V-%d", want) {
						if atomic.AddInt64(&wrong, 1) == 1 {
							firstWrong.Store(fmt.Sprintf("call %s: the server meant version V-%d, the call returned the body of %q", callID, want, servedFor(&resp)))
						}
					} else {
						atomic.AddInt64(&ok, 1)
					}
				}
			}()
		}
		wg.Wait()
		if wrong > 0 {
			rep.Violation("C19", id, "concurrent:body-of-another-version", fmt.Sprintf("%d of %d successful concurrent calls were answered with a body that does not belong to the version the hook meant; first: %v", wrong, ok+wrong, firstWrong.Load()), map[string]interface{}{"workers": workers, "callsEach": callsEach})
		}
		rep.Counter("C19", "concurrent_calls_judged", ok+wrong)
		rep.Case("C19", id, ok > 0, id, map[string]interface{}{"workers": workers, "callsEach": callsEach, "succeeded": ok, "failedRightly": failed, "versions": atomic.LoadInt64(&version)})
	}
}

// C20 (hook side): hosted controllers are started concurrently by two reconcilers (composite and
// decorator) and restarted later. Building the hook executors of many controllers at once, and
// then building each of them again (a restart with the same hook URL), always succeeds: "a
// configuration that can start" does not depend on who else was starting at the same moment.
func TestVerif_C20_ConcurrentExecutorConstruction(t *testing.T) {
	rep := sim.R()
	for round := 0; round < sim.Pick(3, 20); round++ {
		id := fmt.Sprintf("c20-concurrent-executor-construction-%d", round)
		if !sim.WantCase(id) {
			continue
		}
		rep.Begin("C20", id)
		const n = 24
		build := func(i int) error {
			url := fmt.Sprintf("http://hook.sim/none/%s-%d", id, i)
			ct := common.CompositeController
			if i%2 == 1 {
				ct = common.DecoratorController
			}
			var err error
			if stack, p := sim.Guard(func() {
				_, err = NewWebhookExecutor(&v1alpha1.Webhook{URL: &url}, fmt.Sprintf("ctl-%s-%d", id, i), ct, common.SyncHook)
			}); p {
				return fmt.Errorf("panic: %s", stack)
			}
			return err
		}
		var wg sync.WaitGroup
		errs1 := make([]error, n)
		start := make(chan struct{})
		for i := 0; i < n; i++ {
			i := i
			wg.Add(1)
			go func() { defer wg.Done(); <-start; errs1[i] = build(i) }()
		}
		close(start)
		wg.Wait()
		failed := 0
		var first string
		for i := 0; i < n; i++ {
			if errs1[i] != nil {
				failed++
				if first == "" {
					first = fmt.Sprintf("first start of controller %d: %v", i, errs1[i])
				}
				continue
			}
			// the restart: same controller, same hook URL
			if err := build(i); err != nil {
				failed++
				if first == "" {
					first = fmt.Sprintf("restart of controller %d: %v", i, err)
				}
			}
		}
		if failed > 0 {
			rep.Violation("C20", id, "executor-construction-failed-after-concurrent-start", fmt.Sprintf("%d of %d usable webhook configurations could not be (re)built after their executors had first been built concurrently; %s", failed, n, first), nil)
		}
		rep.Case("C20", id, true, id, map[string]interface{}{"controllers": n, "failed": failed})
	}
}

// C20 (hook side): "changing its spec ... starts a new one with the new configuration". A hook
// executor built again for the same controller, hook type and URL, but with another timeout, sends
// its requests with the NEW timeout (judged on the deadline the request carries, as in
// TestVerif_C19_Timeout: deadline - tBefore >= timeout >= deadline - arrival).
func TestVerif_C20_RebuiltExecutorUsesNewTimeout(t *testing.T) {
	rep := sim.R()
	var clock int64
	seqs := [][]time.Duration{{300 * time.Millisecond, 5 * time.Second}, {5 * time.Second, 300 * time.Millisecond}, {2 * time.Second, 0, 700 * time.Millisecond}}
	for si, seq := range seqs {
		for _, ctype := range []common.ControllerType{common.CompositeController, common.DecoratorController} {
			id := fmt.Sprintf("c20-rebuilt-executor-timeout-%s-%d", ctype, si)
			if !sim.WantCase(id) {
				continue
			}
			rep.Begin("C20", id)
			site := sim.NewHookSite(&clock, nil)
			var fromBefore, fromArrival time.Duration
			var had bool
			var tBefore time.Time
			site.Handle("sync", func(call *sim.HookCall) sim.HookResponse {
				dl, ok := call.Ctx.Deadline()
				had = ok
				if ok {
					fromBefore, fromArrival = dl.Sub(tBefore), dl.Sub(call.Arrived)
				}
				return sim.HookResponse{Status: 200, Body: []byte(bodyFor("x"))}
			})
			url := site.URL("sync")
			for bi, d := range seq {
				want := d
				wh := &v1alpha1.Webhook{URL: &url}
				if d > 0 {
					wh.Timeout = &metav1.Duration{Duration: d}
				} else {
					want = 10 * time.Second // unset: the default
				}
				ex, err := NewWebhookExecutor(wh, "ctl-"+id, ctype, common.SyncHook)
				if err != nil || ex == nil {
					rep.Violation("C20", id, "usable-webhook-rejected", fmt.Sprintf("build %d (timeout %v) rejected: %v", bi, d, err), nil)
					break
				}
				var resp compositev1.CompositeHookResponse
				had = false
				tBefore = time.Now()
				if stack, p := sim.Guard(func() { err = ex.Call(request("p", "x"), &resp) }); p {
					rep.Violation("C20", id, "panic:"+sim.PanicSite(stack), stack, nil)
					break
				}
				switch {
				case !had:
					rep.Violation("C20", id, "rebuilt-executor:no-deadline", fmt.Sprintf("build %d (timeout %v): the request carried no deadline", bi, want), nil)
				case fromBefore < want || fromArrival > want:
					rep.Violation("C20", id, "rebuilt-executor:timeout-of-an-earlier-build", fmt.Sprintf("build %d of the executor for the same controller, hook and URL was configured with timeout %v, its request carried a deadline between %v and %v after the call (timeouts of the builds so far: %v)", bi, want, fromArrival, fromBefore, seq[:bi+1]), map[string]interface{}{"sequence": fmt.Sprint(seq)})
				}
			}
			site.Close()
			rep.Case("C20", id, true, id, map[string]interface{}{"timeouts": fmt.Sprint(seq), "controllerType": fmt.Sprint(ctype)})
		}
	}
}
