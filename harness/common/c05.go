//go:build verif

package common

import (
	"encoding/json"
	"fmt"
	"math/rand"
	"reflect"
	"runtime"
	"strings"
	"sync"
	"sync/atomic"
	"testing"

	"k8s.io/apimachinery/pkg/apis/meta/v1/unstructured"
	k8sruntime "k8s.io/apimachinery/pkg/runtime"

	sim "metacontroller/pkg/verifsim"
)

// C05 (ApplyUpdate side): system metadata and status stay exactly as observed, the last-applied
// record becomes the new desired, re-applying changes nothing, inputs are not mutated, no panic.

const lastAppliedKey = "metacontroller.k8s.io/last-applied-configuration"

var systemFields = []string{"selfLink", "uid", "resourceVersion", "generation", "creationTimestamp", "deletionTimestamp", "deletionGracePeriodSeconds"}

func genLeaf(rng *rand.Rand) interface{} {
	return []interface{}{nil, int64(rng.Intn(3)), "s" + fmt.Sprint(rng.Intn(3)), rng.Intn(2) == 0}[rng.Intn(4)]
}

func genTree(rng *rand.Rand, depth int) interface{} {
	switch r := rng.Intn(8); {
	case r < 3 || depth <= 0:
		return genLeaf(rng)
	case r < 6:
		m := map[string]interface{}{}
		for i := 0; i < rng.Intn(4); i++ {
			m[[]string{"a", "b", "c", "name"}[rng.Intn(4)]] = genTree(rng, depth-1)
		}
		return m
	default:
		names := []string{"A", "B", "C"}
		rng.Shuffle(3, func(i, j int) { names[i], names[j] = names[j], names[i] })
		l := []interface{}{}
		for _, n := range names[:rng.Intn(4)] {
			l = append(l, map[string]interface{}{"name": n, "v": genLeaf(rng)})
		}
		return l
	}
}

func genObject(rng *rand.Rand, observed bool) map[string]interface{} {
	meta := map[string]interface{}{"name": "x", "namespace": "ns"}
	if rng.Intn(2) == 0 {
		meta["labels"] = map[string]interface{}{"app": "a", "l" + fmt.Sprint(rng.Intn(2)): "v"}
	}
	if rng.Intn(2) == 0 {
		meta["annotations"] = map[string]interface{}{"note": "n" + fmt.Sprint(rng.Intn(2))}
	}
	// system-populated fields: on the observed object as the server set them, on the desired one as
	// a careless hook might echo or invent them
	for _, f := range systemFields {
		if (observed && rng.Intn(3) != 0) || (!observed && rng.Intn(4) == 0) {
			var v interface{} = "sys-" + fmt.Sprint(rng.Intn(3))
			if f == "generation" || f == "deletionGracePeriodSeconds" {
				v = int64(rng.Intn(5))
			}
			if !observed && rng.Intn(3) == 0 {
				v = genTree(rng, 1)
			}
			meta[f] = v
		}
	}
	if observed && rng.Intn(3) == 0 {
		meta["ownerReferences"] = []interface{}{map[string]interface{}{"uid": "p", "name": "p", "kind": "P", "apiVersion": "v1", "controller": true}}
	}
	o := map[string]interface{}{"apiVersion": "v1", "kind": "Thing", "metadata": meta}
	if rng.Intn(5) != 0 {
		sp := genTree(rng, 3)
		if _, ok := sp.(map[string]interface{}); !ok {
			sp = map[string]interface{}{"v": sp}
		}
		o["spec"] = sp
	}
	if rng.Intn(2) == 0 {
		o["status"] = genTree(rng, 2)
	}
	return o
}

func mutateTree(rng *rand.Rand, v interface{}, depth int) interface{} {
	v = k8sruntime.DeepCopyJSONValue(v)
	if m, ok := v.(map[string]interface{}); ok {
		for k := range m {
			switch rng.Intn(6) {
			case 0:
				delete(m, k)
			case 1:
				m[k] = genTree(rng, depth-1)
			case 2:
				m[k] = mutateTree(rng, m[k], depth-1)
			}
		}
		return m
	}
	return v
}

func canonJ(v interface{}) string {
	b, _ := json.Marshal(v)
	return string(b)
}

func hasDupNames(v interface{}) bool {
	switch t := v.(type) {
	case map[string]interface{}:
		for _, vv := range t {
			if hasDupNames(vv) {
				return true
			}
		}
	case []interface{}:
		seen := map[string]bool{}
		for _, it := range t {
			if m, ok := it.(map[string]interface{}); ok {
				if n, ok := m["name"]; ok {
					s := fmt.Sprint(n)
					if seen[s] {
						return true
					}
					seen[s] = true
				}
			}
			if hasDupNames(it) {
				return true
			}
		}
	}
	return false
}

func TestVerif_C05_ApplyUpdate(t *testing.T) {
	rep := sim.R()
	rep.Begin("C05", "c05-applyupdate")
	n := sim.Pick(100000, 3000000)
	workers := runtime.GOMAXPROCS(0)
	var wg sync.WaitGroup
	var executed, errored, clashes int64
	var mu sync.Mutex
	reported := map[string]int{}
	viol := func(sig, detail string, obs, des, got interface{}) {
		mu.Lock()
		reported[sig]++
		k := reported[sig]
		mu.Unlock()
		if k > 3 {
			return
		}
		rep.Violation("C05", "c05-applyupdate", "applyupdate:"+sig, detail, map[string]interface{}{"observed": canonJ(obs), "desired": canonJ(des), "result": canonJ(got)})
	}
	for wk := 0; wk < workers; wk++ {
		wg.Add(1)
		wk := wk
		go func() {
			defer wg.Done()
			rng := sim.Rand(fmt.Sprintf("C05-applyupdate-%d", wk))
			for i := 0; i < n/workers; i++ {
				prevDesired := genObject(rng, false)
				obs := genObject(rng, true)
				// the observed object descends from the previous desired one plus foreign edits
				obs["spec"] = mutateTree(rng, prevDesired["spec"], 3)
				if rng.Intn(4) != 0 {
					// last-applied record as metacontroller leaves it
					pd, _ := json.Marshal(prevDesired)
					ann, _ := obs["metadata"].(map[string]interface{})["annotations"].(map[string]interface{})
					if ann == nil {
						ann = map[string]interface{}{}
					}
					ann[lastAppliedKey] = string(pd)
					if rng.Intn(30) == 0 {
						ann[lastAppliedKey] = "{not json"
					}
					obs["metadata"].(map[string]interface{})["annotations"] = ann
				}
				des := mutateTree(rng, prevDesired, 3).(map[string]interface{})
				if rng.Intn(10) == 0 {
					// a hook that echoes the annotation back
					dm, _ := des["metadata"].(map[string]interface{})
					if dm != nil {
						dm["annotations"] = map[string]interface{}{lastAppliedKey: "echoed", "keep": "1"}
					}
				}
				if hasDupNames(obs) || hasDupNames(des) || hasDupNames(prevDesired) {
					continue
				}
				atomic.AddInt64(&executed, 1)
				obsU := &unstructured.Unstructured{Object: obs}
				desU := &unstructured.Unstructured{Object: des}
				obsSnap, desSnap := canonJ(obs), canonJ(des)
				var out *unstructured.Unstructured
				var err error
				stack, panicked := sim.Guard(func() { out, err = ApplyUpdate(obsU, desU) })
				if panicked {
					viol("panic:"+sim.PanicSite(stack), "ApplyUpdate panicked: "+stack, jsonMap(obsSnap), jsonMap(desSnap), nil)
					continue
				}
				if canonJ(obs) != obsSnap {
					viol("input-mutated:observed", "ApplyUpdate mutated the observed object", jsonMap(obsSnap), jsonMap(desSnap), obs)
				}
				// desired may only lose metacontroller's own annotation
				want := jsonMap(desSnap)
				if ann, ok := sim.Nested(want, "metadata", "annotations"); ok {
					if am, ok := ann.(map[string]interface{}); ok {
						delete(am, lastAppliedKey)
					}
				}
				if canonJ(des) != canonJ(want) && canonJ(des) != desSnap {
					viol("input-mutated:desired", "ApplyUpdate mutated the desired object beyond stripping its own annotation", jsonMap(obsSnap), jsonMap(desSnap), des)
				}
				if err != nil {
					atomic.AddInt64(&errored, 1)
					continue // clashes and unparsable last-applied records are errors by definition
				}
				res := out.Object
				// L7: system metadata and status exactly as observed
				om, _ := obs["metadata"].(map[string]interface{})
				rm, _ := res["metadata"].(map[string]interface{})
				for _, f := range systemFields {
					ov, oh := om[f]
					rv, rh := rm[f]
					if oh != rh || !reflect.DeepEqual(ov, rv) {
						viol("system-field-changed:"+f, fmt.Sprintf("metadata.%s is %v (present=%v) in the result, observed had %v (present=%v)", f, rv, rh, ov, oh), obs, des, res)
					}
				}
				if ov, oh := obs["status"]; true {
					rv, rh := res["status"]
					if oh != rh || !reflect.DeepEqual(ov, rv) {
						viol("status-changed", fmt.Sprintf("status is %v (present=%v) in the result, observed had %v (present=%v)", rv, rh, ov, oh), obs, des, res)
					}
				}
				// last-applied record == the new desired (own annotation stripped)
				la, _ := sim.Nested(res, "metadata", "annotations", lastAppliedKey)
				las, _ := la.(string)
				var laObj map[string]interface{}
				if json.Unmarshal([]byte(las), &laObj) != nil || canonJ(laObj) != canonJ(jsonMap(canonJ(des))) {
					viol("last-applied-not-desired", fmt.Sprintf("the last-applied record is %q, want the JSON of desired %s", las, canonJ(des)), obs, des, res)
				}
				// L4: re-applying the same desired state to the result changes nothing (=> no write)
				if hasDupNames(res) {
					continue
				}
				var again *unstructured.Unstructured
				var err2 error
				if _, p := sim.Guard(func() { again, err2 = ApplyUpdate(out, &unstructured.Unstructured{Object: jsonMap(desSnap)}) }); p || err2 != nil {
					// a clash between desired and the (new) observed value is an error by definition,
					// e.g. desired metadata.annotations of a non-map type against the annotation map
					// that now holds the last-applied record
					if p || !strings.Contains(err2.Error(), "expecting") {
						viol("not-idempotent:error", fmt.Sprintf("re-applying failed: %v", err2), res, des, nil)
					}
				} else if !DeepEqual(again.Object, out.Object) {
					sig := "not-idempotent"
					if canonJ(again.Object) == canonJ(out.Object) || onlyEmptyToNull(out.Object, again.Object) {
						sig = "not-idempotent:desired-null-over-empty-list"
					}
					viol(sig, "re-applying the same desired state to its own result is not a no-op (would cause a write)", res, des, again.Object)
				}
			}
		}()
	}
	wg.Wait()
	_ = clashes
	rep.Counter("C05", "applyupdate_calls", executed)
	rep.Counter("C05", "applyupdate_errors", errored)
	rep.Case("C05", "c05-applyupdate", executed > 0, "applyupdate", map[string]interface{}{"calls": executed, "errors(clash or bad record)": errored})
	rep.Case("C05", "c05-applyupdate-2", executed > 0, "applyupdate/errors", nil)
}

func onlyEmptyToNull(a, b interface{}) bool {
	switch x := a.(type) {
	case map[string]interface{}:
		y, ok := b.(map[string]interface{})
		if !ok || len(x) != len(y) {
			return false
		}
		for k, v := range x {
			w, ok := y[k]
			if !ok || !onlyEmptyToNull(v, w) {
				return false
			}
		}
		return true
	case []interface{}:
		if len(x) == 0 {
			if b == nil {
				return true
			}
			if l, ok := b.([]interface{}); ok && len(l) == 0 {
				return true
			}
		}
		y, ok := b.([]interface{})
		if !ok || len(x) != len(y) {
			return false
		}
		for i := range x {
			if !onlyEmptyToNull(x[i], y[i]) {
				return false
			}
		}
		return true
	case string:
		// the last-applied annotation embeds desired; it is identical in both
		return a == b
	}
	return canonJ(a) == canonJ(b)
}

func jsonMap(s string) map[string]interface{} {
	var m map[string]interface{}
	json.Unmarshal([]byte(s), &m)
	return normNum(m).(map[string]interface{})
}

func normNum(v interface{}) interface{} {
	switch t := v.(type) {
	case map[string]interface{}:
		for k, vv := range t {
			t[k] = normNum(vv)
		}
		return t
	case []interface{}:
		for i := range t {
			t[i] = normNum(t[i])
		}
		return t
	case float64:
		if t == float64(int64(t)) {
			return int64(t)
		}
	}
	return v
}
